"""whole runs of the real controller + real sweepers + real BaseTransfer on symbolic initial values (C01, C03 b, C19)"""
import random
from fractions import Fraction

import numpy as np
import z3

from symx import core
from symx import pysdc as sp
from symx.core import SymReal, R, rv, frac, Ctx, explore, prove, satisfiable, coverage_certificate, zabs, zmax, model_value

from pySDC.core.hooks import Hooks
from pySDC.helpers.stats_helper import get_sorted
from pySDC.implementations.controller_classes.controller_nonMPI import controller_nonMPI

LOG = []


class RecRes(Hooks):
    """records, at post_iteration and post_step, the residual the level reports and everything needed to recompute the defect"""

    def _snap(self, name, step):
        L = step.levels[0]
        M = L.sweep.coll.num_nodes
        LOG.append(dict(ev=name, slot=step.status.slot, iter=step.status.iter, res=L.status.residual,
                        u=[sp.terms(L.u[m]) for m in range(M + 1)], tau=[sp.terms(t) if t is not None else None for t in L.tau],
                        uend=sp.terms(L.uend) if L.uend is not None else None, time=L.time, dt=L.dt))

    def post_iteration(self, step, level_number):
        super().post_iteration(step, level_number)
        self._snap('post_iteration', step)

    def post_step(self, step, level_number):
        super().post_step(step, level_number)
        self._snap('post_step', step)

    def post_sweep(self, step, level_number):
        super().post_sweep(step, level_number)
        if level_number == 0 and step.status.stage == 'IT_FINE':  # the fine sweeps of an iteration (several with nsweeps > 1)
            self._snap('post_sweep', step)


class MatTransfer:
    """space transfer given by exact matrices (built by the harness from the real interpolation helper)"""

    P = None
    Rm = None

    def __init__(self, fine_prob, coarse_prob, params):
        self.fine_prob, self.coarse_prob = fine_prob, coarse_prob

    def restrict(self, F):
        G = type(F)(self.coarse_prob.init)
        G[:] = sp.DenseDot(type(self).Rm).dot(F)
        return G

    def prolong(self, G):
        F = type(G)(self.fine_prob.init)
        F[:] = sp.DenseDot(type(self).P).dot(G)
        return F


def problem_matrix(kind, n):
    if kind == 'dahlquist':
        return np.diag([-1.0, -2.5, -0.5][:n])
    if kind == 'heat':
        # 1-D finite-difference Laplacian from the real helper, Dirichlet-0, scaled to the contraction range
        from pySDC.helpers.problem_helper import get_finite_difference_matrix

        A, _ = get_finite_difference_matrix(derivative=2, order=2, stencil_type='center', dx=1.0, size=n, dim=1, bc='dirichlet-zero')
        return np.asarray(A.todense(), dtype=float) * 0.5
    if kind == 'advection':
        from pySDC.helpers.problem_helper import get_finite_difference_matrix

        A, _ = get_finite_difference_matrix(derivative=1, order=1, stencil_type='upwind', dx=1.0, size=n, dim=1, bc='periodic')
        return -np.asarray(A.todense(), dtype=float) * 0.5
    raise ValueError(kind)


from pySDC.core.hooks import meta_data as _meta_data
from collections import namedtuple as _nt

_ext_meta = {**_meta_data, 'flag': None}


class ExtEntryHook(Hooks):
    """a user hook with its own extended entry class (documented feature): one record WITHOUT the extra key field before each step, one WITH it after"""

    meta_data = _ext_meta
    entry = _nt('Entry', _ext_meta.keys())

    def pre_step(self, step, level_number):
        super().pre_step(step, level_number)
        L = step.levels[level_number]
        self.add_to_stats(process=step.status.slot, time=L.time, level=L.level_index, iter=0, sweep=L.status.sweep, type='c19x_start', value=1)

    def post_step(self, step, level_number):
        super().post_step(step, level_number)
        L = step.levels[level_number]
        self.add_to_stats(process=step.status.slot, time=L.time, level=L.level_index, iter=step.status.iter, sweep=L.status.sweep, type='c19x_end', value=2, flag='done')


class InexactLin(sp.LinProb):
    """linear problem whose solver is inexact in a way that depends on the tolerance it was given: solve = exact solve + newton_tol in every component
    (stands for any solver whose answer depends on problem.newton_tol, which the shipped NewtonInexactness controller adjusts during a run)"""

    def __init__(self, A):
        super().__init__(A)
        self.newton_tol = 0.125

    def solve_system(self, rhs, factor, u0, t):
        me = super().solve_system(rhs, factor, u0, t)
        me[:] = [x + self.newton_tol for x in me]
        return me


def _finexact():
    from harness import sweepspec as ss

    class FInexactLin(ss.FLin):
        def __init__(self, A):
            super().__init__(A)
            self.newton_tol = 0.125

        def solve_system(self, rhs, factor, u0, t):
            me = super().solve_system(rhs, factor, u0, t)
            me[:] = np.asarray(me) + self.newton_tol
            return me

    return FInexactLin


def build(cfg, float_mode=False):
    """cfg: dict(sweeper, prob, n, M (list per level), NP, qd, restol, maxiter, predict, jac, residual_type, dt, nsweeps, initial_guess)"""
    from harness import c02
    from harness import sweepspec as ss

    c02._load()
    A = problem_matrix(cfg['prob'], cfg['n'])
    kind = cfg['sweeper']
    NL = len(cfg['M'])
    if kind == 'generic_implicit' or kind == 'explicit':
        pc = ss.FLin if float_mode else sp.LinProb
        pp = {'A': A}
        key = {'QI': cfg['qd']} if kind == 'generic_implicit' else {'QE': 'EE'}
    elif kind == 'imex_1st_order':
        pc = ss.FImex if float_mode else sp.ImexProb
        AI = np.diag(np.diag(A))
        pp = {'AI': AI, 'AE': A - AI}
        key = {'QI': cfg['qd'], 'QE': 'EE'}
    elif kind == 'multi_implicit':
        pc = ss.FMulti if float_mode else sp.MultiProb
        pp = {'A1': 0.5 * A, 'A2': 0.5 * A}
        key = {'Q1': cfg['qd'], 'Q2': cfg.get('qd2', cfg['qd'])}
    sw = {'num_nodes': cfg['M'] if NL > 1 else cfg['M'][0], 'quad_type': cfg.get('quad_type', 'RADAU-RIGHT'), **({'node_type': cfg['node_type']} if cfg.get('node_type') else {}), 'initial_guess': cfg.get('initial_guess', 'spread'), 'do_coll_update': cfg.get('cu', False), **key}
    d = dict(problem_class=pc, problem_params=pp, sweeper_class=c02.SWEEPERS[kind], sweeper_params=sw,
             level_params={'dt': cfg['dt'], 'restol': cfg['restol'], 'residual_type': cfg.get('residual_type', 'full_abs'),
                           'nsweeps': ([cfg.get('nsweeps', 1)] * (NL - 1) + [1]) if NL > 1 else cfg.get('nsweeps', 1)},
             step_params={'maxiter': cfg['maxiter']})
    if cfg.get('_sw_obj') is not None:  # ONE sweeper-parameter dictionary handed to several controllers (filled on first use, passed on as it is afterwards)
        if not cfg['_sw_obj']:
            cfg['_sw_obj'].update(sw)
        d['sweeper_params'] = cfg['_sw_obj']
    if cfg.get('_sweeper_class') is not None:
        d['sweeper_class'] = cfg['_sweeper_class']
    if cfg.get('dt_initial') is not None:
        d['level_params']['dt_initial'] = cfg['dt_initial']  # (a declared level parameter; the step-size spreader uses it as a floor near Tend)
    if cfg.get('inexact'):
        # the shipped NewtonInexactness controller sets problem.newton_tol from the residual after every iteration (iteration 0 included)
        from pySDC.implementations.convergence_controller_classes.inexactness import NewtonInexactness

        assert kind == 'generic_implicit'
        d['problem_class'] = _finexact() if float_mode else InexactLin
        d['convergence_controllers'] = {NewtonInexactness: {'ratio': 0.5, 'max_tol': 0.25}}
    if cfg.get('extra_cc'):  # (further convergence controllers of the description: {class: parameters}, given in-process)
        d.setdefault('convergence_controllers', {}).update(cfg['extra_cc'])
    if cfg.get('e_tol') is not None:
        d['level_params']['e_tol'] = cfg['e_tol']  # stopping by increment: loads EstimateEmbeddedError, which registers extra level status variables
    if NL > 1:
        d['space_transfer_class'] = FloatInject if float_mode else sp.Inject
        if cfg.get('finter'):
            d['base_transfer_params'] = {'finter': True}
    if cfg.get('postrun'):
        from pySDC.implementations.hooks.log_errors import LogGlobalErrorPostRun

        cfg = dict(cfg, hooks=list(cfg.get('hooks', [])) + [LogGlobalErrorPostRun])
    if cfg.get('hook_names'):  # shipped hook classes given by name ('module:Class' below pySDC.implementations.hooks), so that the configuration stays plain data
        import importlib

        cfg = dict(cfg, hooks=list(cfg.get('hooks', [])) + [getattr(importlib.import_module('pySDC.implementations.hooks.' + n.split(':')[0]), n.split(':')[1]) for n in cfg['hook_names']])
    cp = {'logger_level': 50, 'dump_setup': False, 'hook_class': [RecRes] + list(cfg.get('hooks', [])) + ([ExtEntryHook] if cfg.get('exthook') else []), 'predict_type': cfg.get('predict'),
          'mssdc_jac': cfg.get('jac', True), 'all_to_done': cfg.get('all_to_done', False)}
    if cfg.get('_shared') is not None:
        # several controllers built from ONE controller-parameter dictionary (and one description per configuration), as a user script would do
        sh = cfg['_shared']
        cp = sh.setdefault('cp', cp)
        d = sh.setdefault(('d', tuple(cfg['M'])), d)  # (shared by controllers with different numbers of steps too: a study over num_procs)
    return controller_nonMPI(cfg['NP'], cp, d), A


from pySDC.core.space_transfer import SpaceTransfer


class FloatInject(SpaceTransfer):
    def restrict(self, F):
        return type(F)(F)

    def prolong(self, G):
        return type(G)(G)


def run_symbolic(c, cfg, xs=None, t0=0.0, nsteps=None, ctl=None, tend_shift=None):
    LOG.clear()
    if ctl is None:
        ctl, A = build(cfg)
    else:
        A = problem_matrix(cfg['prob'], cfg['n'])
    P = ctl.MS[0].levels[0].prob
    n = cfg['n']
    xs = xs if xs is not None else [z3.Real(f'x{i}') for i in range(n)]
    for x in xs:
        if z3.is_const(x) and x.decl().kind() == z3.Z3_OP_UNINTERPRETED:
            c.add(z3.And(x >= -1, x <= 1))
            if cfg.get('xrange'):
                c.add(z3.And(x >= rv(cfg['xrange'][0]), x <= rv(cfg['xrange'][1])))
    u0 = sp.mkmesh(P, [SymReal(x) for x in xs])
    nsteps = nsteps if nsteps is not None else cfg.get('nsteps', cfg['NP'] * cfg.get('blocks', 1))
    uend, stats = ctl.run(u0, t0, t0 + cfg['dt'] * nsteps if tend_shift is None else SymReal(rv(t0 + cfg['dt'] * nsteps) + tend_shift))
    return ctl, A, uend, stats, xs


def defect_norm(snap, Q, A, dt, rt):
    """configured norm of u0 + dt Q A U + tau - U from the recorded node values (z3 term)"""
    from harness.common import zmatvec

    M = Q.shape[0] - 1
    n = len(snap['u'][0])
    Afr = sp.tofrac_matrix(A)
    rows = []
    for m in range(1, M + 1):
        acc = [snap['u'][0][i] - snap['u'][m][i] for i in range(n)]
        for j in range(1, M + 1):
            if Q[m, j] != 0:
                Au = zmatvec(Afr, snap['u'][j])
                acc = [acc[i] + rv(frac(dt) * frac(Q[m, j])) * Au[i] for i in range(n)]
        if snap['tau'][m - 1] is not None:
            acc = [acc[i] + snap['tau'][m - 1][i] for i in range(n)]
        rows.append(acc)
    if rt.startswith('last'):
        rows = rows[-1:]
    nd = zmax([zabs(x) for r in rows for x in r])
    if rt.endswith('rel'):
        nd = nd / zmax([zabs(x) for x in snap['u'][0]])
    return nd


# ------------------------------------------------------------------------------------------------ C03 (b) freshness


def freshness_case(rep, NP, NL, maxiter, rt, jac=True, restol=1e-2, predict='auto', nsweeps=1):
    sp.install_shadows()
    name = f'fresh/NP{NP}/NL{NL}/K{maxiter}/{rt}/jac{int(jac)}/tol{restol:g}/{predict}' + (f'/ns{nsweeps}' if nsweeps != 1 else '')
    cfg = dict(sweeper='generic_implicit', prob='dahlquist', n=1, M=[2, 1][:NL], NP=NP, qd='LU', restol=restol, maxiter=maxiter,
               predict=(('pfasst_burnin' if NL > 1 and NP > 1 else None) if predict == 'auto' else predict), jac=jac, residual_type=rt, dt=0.25, nsweeps=nsweeps)

    def fn(c):
        ctl, A, uend, stats, xs = run_symbolic(c, cfg)
        if rt.endswith('rel'):
            c.add(xs[0] != 0)
        L = ctl.MS[0].levels[0]
        logged = {(round(float(k.time), 9), k.iter): v for k, v in stats.items() if k.type == 'residual_post_iteration'}
        logged_step = {round(float(k.time), 9): v for k, v in stats.items() if k.type == 'residual_post_step'}
        logged_sweep = {}
        for k, v in stats.items():
            if k.type == 'residual_post_sweep' and k.level == 0:
                logged_sweep.setdefault((round(float(k.time), 9), k.iter), []).append(v)
        return dict(log=list(LOG), Q=np.array(L.sweep.coll.Qmat), A=A, stats_it=logged, stats_step=logged_step, stats_sweep=logged_sweep)

    paths = explore(fn, max_paths=5000)
    rep.paths += len(paths)
    rep.decisions += sum(len(p.decisions) for p in paths)
    nq = 0
    for i, p in enumerate(paths):
        r = p.result
        A_ = list(p.assume) + list(p.pc)
        for s in r['log']:
            spec = defect_norm(s, r['Q'], r['A'], cfg['dt'], rt)
            got = R(s['res'])
            # the hook's record and the stats entry must be this very value
            key = (round(float(s['time']), 9), s['iter'])
            if s['ev'] == 'post_sweep':
                same_obj = any(R(v).eq(got) for v in r['stats_sweep'].get(key, []))
            else:
                st = r['stats_it'].get(key) if s['ev'] == 'post_iteration' else r['stats_step'].get(key[0])
                same_obj = st is not None and R(st).eq(got)
            res, m = prove(got == spec, A_, name=f'{name}/path{i}/{s["ev"]}/slot{s["slot"]}/it{s["iter"]}')
            nq += 1
            rep.ob(f'{name}/path{i}/{s["ev"]}/slot{s["slot"]}/it{s["iter"]}', res)
            rep.side(f'{name}/path{i}/{s["ev"]}/slot{s["slot"]}/it{s["iter"]}:stats-entry-is-that-value', same_obj)
            if res == 'sat':
                x = float(model_value(m, z3.Real('x0')))
                freshness_triage(rep, cfg, x, s, name)
    rep.ob(f'{name}:coverage', coverage_certificate(paths, [z3.And(z3.Real('x0') >= -1, z3.Real('x0') <= 1)] + ([z3.Real('x0') != 0] if rt.endswith('rel') else []), name=f'{name}:coverage'))
    rep.sample({'case': name, 'paths': len(paths), 'residual_records_checked': nq, 'free_variables': 'initial value in [-1,1]'}, limit=6)


def freshness_triage(rep, cfg, x, snap, name):
    """float replay: recompute the defect from the real float level at the same callback"""
    rep.replayed += 1
    got = {}

    class Probe(Hooks):
        def _chk(self, ev, step):
            if step.status.slot == snap['slot'] and step.status.iter == snap['iter'] and ev == snap['ev']:
                L = step.levels[0]
                M = L.sweep.coll.num_nodes
                Q = L.sweep.coll.Qmat
                U = np.array([np.asarray(L.u[m], dtype=float) for m in range(M + 1)])
                F = np.array([np.asarray(L.f[m], dtype=float) for m in range(M + 1)])
                d = U[0][None, :] + L.dt * Q[1:, 1:] @ F[1:] - U[1:]
                for m in range(M):
                    if L.tau[m] is not None:
                        d[m] += np.asarray(L.tau[m], dtype=float)
                rt = L.params.residual_type
                nd = np.abs(d).max() if rt.startswith('full') else np.abs(d[-1]).max()
                if rt.endswith('rel'):
                    nd /= np.abs(U[0]).max()
                got['obs'] = float(L.status.residual)
                got['exp'] = float(nd)

        def post_iteration(self, step, level_number):
            super().post_iteration(step, level_number)
            self._chk('post_iteration', step)

        def post_step(self, step, level_number):
            super().post_step(step, level_number)
            self._chk('post_step', step)

        def post_sweep(self, step, level_number):
            super().post_sweep(step, level_number)
            if level_number == 0 and step.status.stage == 'IT_FINE' and 'obs' not in got:
                self._chk('post_sweep', step)

    cfg2 = dict(cfg)
    cfg2['hooks'] = [Probe]
    ctl, A = build(cfg2, float_mode=True)
    P = ctl.MS[0].levels[0].prob
    u0 = P.dtype_u(P.init)
    u0[:] = x
    ctl.run(u0, 0.0, cfg['dt'] * cfg['NP'])
    if got and abs(got['obs'] - got['exp']) > 1e-9 * (1 + abs(got['exp'])):
        rep.violation(f'C03/stale-residual/{snap["ev"]}', f'{name}: x0={x}: residual reported at {snap["ev"]} (slot {snap["slot"]}, iter {snap["iter"]}) is {got["obs"]:.6e} '
                      f'but the defect of the values held at that moment is {got["exp"]:.6e}', {'task': ['fresh'], 'cfg': {k: v for k, v in cfg.items()}, 'x0': x, **got})
    else:
        rep.unreproduced(name, {'x0': x, **got})

import numpy as np, z3, time, logging
from symx import *
exec(open('p14.py').read().split("class _Lp")[0].split("logging.disable(logging.CRITICAL)")[1])
logging.disable(logging.CRITICAL)
from pySDC.implementations.controller_classes.controller_nonMPI import controller_nonMPI
from pySDC.implementations.problem_classes.TestEquation_0D import testequation0d
from pySDC.implementations.sweeper_classes.generic_implicit import generic_implicit
from pySDC.implementations.convergence_controller_classes.basic_restarting import BasicRestartingNonMPI
from pySDC.core.errors import ConvergenceError
SI.__radd__=SI.__add__
NP=3
def fn(c):
    desc=dict(problem_class=testequation0d, problem_params={'lambdas':np.array([-1.0]),'u0':1.0}, sweeper_class=generic_implicit,
      sweeper_params={'num_nodes':2,'quad_type':'RADAU-RIGHT'}, level_params={'dt':0.1,'restol':-1}, step_params={'maxiter':1})
    ctl=controller_nonMPI(NP, {'logger_level':50}, desc)
    ctl.restart_block(list(range(NP)), [0.0,0.1,0.2], ctl.MS[0].levels[0].prob.u_exact(0))
    C=[x for x in ctl.convergence_controllers if isinstance(x,BasicRestartingNonMPI)][0]
    mr=z3.Int('maxr'); c.add(mr>=0); C.params.max_restarts=SI(mr)
    pre=[]
    for p,S_ in enumerate(ctl.MS):
        r=z3.Bool(f'r{p}'); n=z3.Int(f'n{p}'); c.add(n>=0)
        S_.status.__dict__['restart']=SymBool(r); S_.status.__dict__['restarts_in_a_row']=SI(n); pre.append((r,n))
    C.reset_buffers_nonMPI(ctl)
    try:
        for S_ in ctl.MS: C.determine_restart(ctl,S_,MS=ctl.MS)
    except ConvergenceError as e:
        return ('crash',)
    post_restart=[S_.status.restart for S_ in ctl.MS]
    post_restart=[x.t if isinstance(x,SymBool) else z3.BoolVal(bool(x)) for x in post_restart]
    for S_ in ctl.MS: C.prepare_next_block(ctl,S_,NP,[0.0,0.1,0.2],1.0,MS=ctl.MS)
    cnt=[S_.status.restarts_in_a_row for S_ in ctl.MS]
    cnt=[x.t if isinstance(x,SI) else z3.IntVal(int(x)) for x in cnt]
    return ('ok',post_restart,cnt)
t=time.time(); paths,q=explore(fn); print('paths',len(paths),'queries',q,round(time.time()-t,1))
r=[z3.Bool(f'r{p}') for p in range(NP)]; n=[z3.Int(f'n{p}') for p in range(NP)]; mr=z3.Int('maxr')
bad=0
for pc,res in paths:
    s=z3.Solver(); s.add(pc); s.add(mr>=0,*[x>=0 for x in n])
    exceeded=n[0]>=mr
    if res[0]=='crash':
        s.add(z3.Not(z3.And(exceeded,r[0])))
    else:
        _,pr,cnt=res
        conds=[]
        # restart propagates to later steps unless budget exceeded
        for p in range(NP): conds.append(pr[p]==z3.And(z3.Or(r[:p+1]),z3.Not(exceeded)))
        s.add(z3.Not(z3.And(conds)))
    if s.check()!=z3.unsat: bad+=1; print('cex',res[0],s.model())
print('bad',bad)

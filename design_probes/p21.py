import numpy as np, z3, time, logging
from types import SimpleNamespace
from symx import *
logging.disable(50)
from pySDC.implementations.convergence_controller_classes.step_size_limiter import StepSizeLimiter, StepSizeSlopeLimiter
from pySDC.implementations.convergence_controller_classes.adaptivity import AdaptivityBase
# power: S ** float(1/order) -> model via fresh y with y>0, y^order = base
ORDER=[None]
def spow(self, e):
    c=Ctx.cur; c.npow=getattr(c,'npow',0)+1; y=z3.Real(f'_pow{c.npow}'); n=ORDER[0]
    assert abs(e-1.0/n)<1e-15
    p=y
    for _ in range(n-1): p=p*y
    c.add(z3.And(y>0,p==self.t)); return S(y)
S.__pow__=spow
S.__format__=lambda s,spec:'<sym>'
dtn,dt,dmin,dmax,smin,smax_,rel=z3.Reals('dtn dt dmin dmax smin smax rel')
def mk(cls,params):
    o=cls.__new__(cls); o.params=SimpleNamespace(**params); o.logger=logging.getLogger('x'); o.log=lambda *a,**k:None; return o
def fn(c):
    for v in (dtn,dt): c.add(v>0)
    c.add(z3.And(dmin>=0,dmax>=dmin,smin>=0,smax_>=smin,rel>=0))
    L=SimpleNamespace(status=SimpleNamespace(dt_new=S(dtn)),params=SimpleNamespace(dt=S(dt)))
    St=SimpleNamespace(levels=[L],status=SimpleNamespace(restart=False,slot=0),time=0.0)
    mk(StepSizeSlopeLimiter,dict(dt_slope_min=S(smin),dt_slope_max=S(smax_),dt_rel_min_slope=S(rel))).get_new_step_size(None,St)
    mk(StepSizeLimiter,dict(dt_min=S(dmin),dt_max=S(dmax))).get_new_step_size(None,St)
    return L.status.dt_new.t
t=time.time(); paths,q=explore(fn); print('limiter paths',len(paths),'queries',q,round(time.time()-t,2))
# spec: slope clip (with keep-old-if-small-change) then absolute clip
ratio=dtn/dt
slope=z3.If(ratio<smin, dt*smin, z3.If(ratio>smax_, dt*smax_, z3.If(z3.If(ratio-1>=0,ratio-1,1-ratio)<rel, dt, dtn)))
spec=z3.If(slope<dmin,dmin,z3.If(slope>dmax,dmax,slope))
bad=0
for pc,res in paths:
    s=z3.Solver(); s.set('timeout',20000); s.add(dtn>0,dt>0,dmin>=0,dmax>=dmin,smin>=0,smax_>=smin,rel>=0); s.add(pc); s.add(res!=spec)
    r=s.check()
    if r!=z3.unsat: bad+=1; print(r, s.model() if r==z3.sat else '')
print('limiter violations',bad)
# optimal step size formula + monotonic consequence
e_est,e_tol,beta=z3.Reals('e_est e_tol beta')
for n in (1,2,3,4,5):
    ORDER[0]=n; Ctx.cur=Ctx()
    A_=AdaptivityBase.__new__(AdaptivityBase)
    r=A_.compute_optimal_step_size(S(beta),S(dt),S(e_tol),S(e_est),n)
    s=z3.Solver(); s.set('timeout',60000); s.add(Ctx.cur.assume); s.add(dt>0,e_est>0,e_tol>0,beta>0,beta<=1,e_est>=e_tol)
    s.add(z3.Not(r.t<=beta*dt)); t=time.time(); print('order',n,'rejected step => dt_new <= beta*dt :',s.check(),round(time.time()-t,2))

"""throwaway prototype of the symbolic shadow executor"""
import numpy as np, z3
from fractions import Fraction

def R(x):
    if isinstance(x, z3.ExprRef): return x
    if isinstance(x, bool): raise TypeError
    if isinstance(x, (int, np.integer)): return z3.RealVal(int(x))
    if isinstance(x, Fraction): return z3.RealVal(f"{x.numerator}/{x.denominator}")
    f = Fraction(float(x)); return z3.RealVal(f"{f.numerator}/{f.denominator}")

class Ctx:
    cur=None
    def __init__(s, prefix=()):
        s.prefix=list(prefix); s.pos=0; s.pc=[]; s.alts=[]; s.solver=z3.Solver(); s.queries=0; s.assume=[]
    def add(s,t): s.solver.add(t); s.assume.append(t)
class SymBool:
    def __init__(s,t): s.t=t
    def __bool__(s):
        c=Ctx.cur
        t=z3.simplify(s.t)
        if z3.is_true(t): return True
        if z3.is_false(t): return False
        if c.pos < len(c.prefix): v=c.prefix[c.pos]
        else:
            c.solver.push(); c.solver.add(t); ft=c.solver.check(); c.solver.pop()
            c.solver.push(); c.solver.add(z3.Not(t)); ff=c.solver.check(); c.solver.pop(); c.queries+=2
            assert str(ft)!='unknown' and str(ff)!='unknown'
            ft=ft==z3.sat; ff=ff==z3.sat
            if ft and ff: v=True; c.alts.append(len(c.prefix))
            else: v=ft
            c.prefix.append(v)
        c.pos+=1; lit=t if v else z3.Not(t); c.solver.add(lit); c.pc.append(lit); return v
    def __and__(s,o): return SymBool(z3.And(s.t, o.t if isinstance(o,SymBool) else z3.BoolVal(bool(o))))
    __rand__=__and__
    def __or__(s,o): return SymBool(z3.Or(s.t, o.t if isinstance(o,SymBool) else z3.BoolVal(bool(o))))
    __ror__=__or__
    def __invert__(s): return SymBool(z3.Not(s.t))

class S:
    __slots__=('t',)
    def __init__(s,t): s.t = t if isinstance(t,z3.ExprRef) else R(t)
    @staticmethod
    def c(o): return o.t if isinstance(o,S) else R(o)
    def _b(f):
        def g(s,o):
            if isinstance(o,np.ndarray): return NotImplemented
            return f(s,S.c(o))
        return g
    __add__=_b(lambda s,o:S(s.t+o)); __radd__=_b(lambda s,o:S(o+s.t))
    __sub__=_b(lambda s,o:S(s.t-o)); __rsub__=_b(lambda s,o:S(o-s.t))
    __mul__=_b(lambda s,o:S(s.t*o)); __rmul__=_b(lambda s,o:S(o*s.t))
    __truediv__=_b(lambda s,o:S(s.t/o)); __rtruediv__=_b(lambda s,o:S(o/s.t))
    __lt__=_b(lambda s,o:SymBool(s.t<o)); __le__=_b(lambda s,o:SymBool(s.t<=o))
    __gt__=_b(lambda s,o:SymBool(s.t>o)); __ge__=_b(lambda s,o:SymBool(s.t>=o))
    __eq__=_b(lambda s,o:SymBool(s.t==o)); __ne__=_b(lambda s,o:SymBool(s.t!=o))
    __hash__=None
    def __neg__(s): return S(-s.t)
    def __pos__(s): return s
    def __abs__(s): return S(z3.If(s.t>=0,s.t,-s.t))
    def __format__(s,spec): return '<sym>'
    def __repr__(s): return f'S({s.t})'

def smax(xs):
    m=xs[0]
    for x in xs[1:]: m=z3.If(x>=m,x,m)
    return m

def explore(fn, setup=None):
    work=[[]]; paths=[]; q=0
    while work:
        pre=work.pop(); c=Ctx(pre); Ctx.cur=c
        if setup: setup(c)
        res=fn(c); q+=c.queries
        paths.append((list(c.pc),res))
        for i in c.alts: work.append(c.prefix[:i]+[False])
    return paths,q

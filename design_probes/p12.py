import numpy as np, z3, time, logging, math, inspect
from fractions import Fraction
from symx import *
from pySDC.core.level import Level
from pySDC.core.problem import Problem
from pySDC.implementations.datatype_classes.mesh import mesh, imex_mesh
import pySDC.implementations.sweeper_classes.Runge_Kutta as RKmod
logging.disable(logging.CRITICAL)
class Lin(Problem):
    dtype_u=mesh; dtype_f=mesh
    def __init__(self,lam): super().__init__(init=(1,None,np.dtype('O'))); self.lam=lam
    def eval_f(self,u,t):
        f=self.dtype_f(self.init); f[:]=u*self.lam; return f
    def solve_system(self,rhs,factor,u0,t):
        me=self.dtype_u(self.init); me[:]=rhs/(1-factor*self.lam); return me
class LinIMEX(Problem):
    dtype_u=mesh; dtype_f=imex_mesh
    def __init__(self,lam,lamE): super().__init__(init=(1,None,np.dtype('O'))); self.lam=lam; self.lamE=lamE
    def eval_f(self,u,t):
        f=self.dtype_f(self.init); f.impl[:]=u*self.lam; f.expl[:]=u*self.lamE; return f
    def solve_system(self,rhs,factor,u0,t):
        me=self.dtype_u(self.init); me[:]=rhs/(1-factor*self.lam); return me
def pw(x,n):
    r=z3.RealVal(1)
    for _ in range(n): r=r*x
    return r
classes=[c for n,c in inspect.getmembers(RKmod,inspect.isclass) if issubclass(c,RKmod.RungeKutta) and c.matrix is not None]
print(len(classes),'RK classes')
res=[]
for cls in classes:
    imex=issubclass(cls,RKmod.RungeKuttaIMEX)
    z=z3.Real('z'); Ctx.cur=Ctx()
    try:
        if imex: L=Level(LinIMEX,{'lam':S(z)*Fraction(1,2),'lamE':S(z)*Fraction(1,2)},cls,{},{'dt':S(1)},0)
        else: L=Level(Lin,{'lam':S(z)},cls,{},{'dt':S(1)},0)
        P=L.prob; L.status.time=S(0); L.status.sweep=1
        u0=P.dtype_u(P.init); u0[0]=S(1); L.u[0]=u0; L.f[0]=P.eval_f(u0,0)
        L.sweep.predict(); 
        # diag entries nonzero assumption
        M=L.sweep.coll.num_nodes
        Ctx.cur.add(z>=-R(0.25)); Ctx.cur.add(z<=R(0.25))
        L.sweep.update_nodes(); L.sweep.compute_end_point()
        Rz=L.uend[0].t
        try: p=cls.generator.order
        except Exception: p=None
        out=[]
        for q in ([p] if p else [1,2,3,4,5,6]):
            T=sum(pw(z,j)*R(Fraction(1,math.factorial(j))) for j in range(q+1))
            s=z3.Solver(); s.set('timeout',60000); s.add(z>=-R(0.25),z<=R(0.25))
            d=Rz-T; az=z3.If(z>=0,z,-z); b=R(5)*pw(az,q+1)+R(1e-10)
            s.add(z3.Or(d>b,-d>b)); t=time.time(); r=str(s.check()); out.append((q,r,round(time.time()-t,2)))
            if r!='unsat' and not p: break
        print(cls.__name__,'stages',M,'imex' if imex else '', 'declared order',p, out, flush=True)
    except Exception as e:
        print(cls.__name__,'ERR',type(e).__name__,str(e)[:100])

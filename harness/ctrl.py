"""Exploration of the real controller_nonMPI over all convergence patterns (C03 d, C07, C14 b).

The real controller, steps, levels, hooks, CheckConvergence and a real generic_implicit sweeper on a trivial float
problem are run; only the residual *reported* to the convergence test at IT_CHECK is replaced by a fresh real variable
(one per step x iteration), the iteration budget is a symbolic integer and forced-stop / forced-continue flags are
symbolic booleans.  The real convergence test forks; every feasible branch pattern is executed.
"""
import re

import numpy as np
import z3

from symx import core
from symx.core import SymReal, SymInt, SymBool, explore, Ctx

from pySDC.core.convergence_controller import ConvergenceController
from pySDC.core.errors import CommunicationError, ControllerError, UnlockError
from pySDC.core.hooks import Hooks
from pySDC.helpers.stats_helper import get_sorted, filter_stats
from pySDC.implementations.controller_classes.controller_nonMPI import controller_nonMPI
from pySDC.implementations.problem_classes.TestEquation_0D import testequation0d
from pySDC.implementations.sweeper_classes.generic_implicit import generic_implicit
from pySDC.implementations.transfer_classes.TransferMesh_NoCoarse import mesh_to_mesh

STATE = {'occ': {}, 'resvars': [], 'log': [], 'comm': [], 'sent': {}, 'calls': 0, 'snap': {}, 'fine_sweeps': {}, 'kmax': 0}


class ProbeSweeper(generic_implicit):
    """real sweeper; the residual handed to the convergence test is an unconstrained non-negative real"""

    def update_nodes(self):
        L = self.level
        if L.level_index == 0:
            S_ = L.__dict__['_probe_step']
            STATE['fine_sweeps'][S_.status.slot] = STATE['fine_sweeps'].get(S_.status.slot, 0) + 1
        super().update_nodes()

    def compute_residual(self, stage=''):
        super().compute_residual(stage=stage)
        L = self.level
        if L.level_index == 0 and stage == 'IT_CHECK':
            S_ = L.__dict__['_probe_step']
            key = (S_.status.slot, S_.status.iter)
            if STATE['kmax'] and S_.status.iter > STATE['kmax']:
                # the iteration counter ran away (budget and the bounded forced continuations are long exceeded): stop before more symbolic
                # residuals are created, every one of which would double the number of paths
                raise RuntimeError(f'step {key[0]} is in iteration {key[1]}, far beyond the iteration budget: the block does not terminate')
            n = STATE['occ'].get(key, 0)
            STATE['occ'][key] = n + 1
            v = z3.Real(f'r_{key[0]}_{key[1]}_{n}')
            STATE['resvars'].append(v)
            Ctx.cur.add(v >= 0)
            L.status.residual = SymReal(v)


class Rec(Hooks):
    def _l(self, name, step, level_number):
        STATE['log'].append((name, step.status.slot, level_number, step.status.iter, step.status.stage))

    def pre_step(self, step, level_number):
        super().pre_step(step, level_number)
        self._l('S', step, level_number)

    def pre_predict(self, step, level_number):
        super().pre_predict(step, level_number)
        self._l('P', step, level_number)

    def post_predict(self, step, level_number):
        super().post_predict(step, level_number)
        self._l('p', step, level_number)

    def pre_iteration(self, step, level_number):
        super().pre_iteration(step, level_number)
        self._l('I', step, level_number)

    def pre_sweep(self, step, level_number):
        super().pre_sweep(step, level_number)
        self._l('W', step, level_number)

    def post_sweep(self, step, level_number):
        super().post_sweep(step, level_number)
        self._l('w', step, level_number)

    def post_iteration(self, step, level_number):
        super().post_iteration(step, level_number)
        self._l('i', step, level_number)

    def post_step(self, step, level_number):
        super().post_step(step, level_number)
        self._l('E', step, level_number)
        # snapshot of everything the finished step holds: object identities and values
        snap = []
        for L in step.levels:
            for name in ('u', 'f'):
                for m, x in enumerate(getattr(L, name)):
                    if x is not None:
                        snap.append((L.level_index, name, m, id(x), np.array(x, copy=True)))
            if L.uend is not None:
                snap.append((L.level_index, 'uend', 0, id(L.uend), np.array(L.uend, copy=True)))
        STATE['snap'][step.status.slot] = snap


class Ctl(controller_nonMPI):
    """the real controller; send/recv/pfasst only get logging wrappers"""

    def pfasst(self, local_MS_active):
        STATE['calls'] += 1
        if STATE['calls'] > 400:  # (a legitimate block of these sizes needs fewer than 100 stages)
            raise RuntimeError('block does not terminate (more than 400 controller stages)')
        running = [S.status.stage for S in local_MS_active if S.status.stage != 'DONE']
        STATE['comm'].append(('stage', tuple(running)))
        return super().pfasst(local_MS_active)

    def send_full(self, S, level=None, add_to_stats=False):
        STATE['comm'].append(('sendcall', S.status.slot, level, S.status.stage))
        old = S.levels[level].tag
        super().send_full(S, level=level, add_to_stats=add_to_stats)
        if S.levels[level].tag is not old:  # a value was really published (the tag object is replaced on every send)
            STATE['comm'].append(('published', S.status.slot, level, bool(S.status.last), S.status.stage))
        if not S.status.last:
            STATE['sent'][(S.status.slot, level)] = (level, S.status.iter, S.status.slot)
            STATE['comm'].append(('send', S.status.slot, level, S.status.iter, id(S.levels[level].uend)))

    def recv_full(self, S, level=None, add_to_stats=False):
        STATE['comm'].append(('recvcall', S.status.slot, level, S.status.stage))
        will = (not S.status.prev_done) and (not S.status.first)
        if will:
            src = S.prev.levels[level]
            expect = (level, S.status.iter, S.prev.status.slot)
            last = STATE['sent'].get((S.prev.status.slot, level))
            STATE['comm'].append(('recv', S.status.slot, level, S.status.iter, src.tag, expect, last))
        super().recv_full(S, level=level, add_to_stats=add_to_stats)
        if will:
            src = S.prev.levels[level]
            same = bool(np.all(np.asarray(S.levels[level].u[0]) == np.asarray(src.uend)))
            STATE['comm'].append(('recvd', S.status.slot, level, same, S.levels[level].u[0] is src.uend))


class InjectForce(ConvergenceController):
    """harness convergence controller: symbolic forced-stop / forced-continue flags per (step, iteration)"""

    def setup(self, controller, params, description, **kw):
        return {'control_order': 150, **super().setup(controller, params, description, **kw)}

    def check_iteration_status(self, controller, S, **kw):
        key = (S.status.slot, S.status.iter)
        if self.params.__dict__.get('force_done', True):
            S.status.force_done = SymBool(z3.Bool(f'fd_{key[0]}_{key[1]}'))
        if self.params.__dict__.get('force_continue', False) and S.status.iter <= self.params.__dict__.get('fc_until', 1):
            S.status.force_continue = SymBool(z3.Bool(f'fc_{key[0]}_{key[1]}'))


class _NoPickle:
    """stands for a solver handle (a sparse LU factorisation, a file, ...) that cannot be pickled"""

    def __reduce__(self):
        raise TypeError('cannot pickle this handle')


class UnpicklableEq(testequation0d):
    """the test equation holding an attribute that cannot be pickled: the controller then builds its steps one by one instead of copying the first"""

    def __init__(self, **kw):
        super().__init__(**kw)
        self.__dict__['_handle'] = _NoPickle()


def build(NP, NL, predict_type, mssdc_jac, all_to_done, nsweeps, inject=None, restol=1e-3, extra_hooks=(), dt=0.1):
    nn = [3, 2, 1][:NL] if NL > 1 else 2
    desc = dict(
        problem_class=testequation0d,
        problem_params={'lambdas': np.array([-1.0]), 'u0': 1.0},
        sweeper_class=ProbeSweeper,
        sweeper_params={'num_nodes': nn, 'quad_type': 'RADAU-RIGHT'},
        level_params={'dt': dt, 'restol': restol, 'nsweeps': ([nsweeps] * (NL - 1) + [1]) if NL > 1 else nsweeps},
        step_params={'maxiter': 1},
    )
    if NL > 1:
        desc['space_transfer_class'] = mesh_to_mesh
    if inject and dict(inject).get('unpicklable'):
        desc['problem_class'] = UnpicklableEq
    inject = {k: v for k, v in dict(inject or {}).items() if k not in ('short', 'unpicklable')}
    if inject:
        desc['convergence_controllers'] = {InjectForce: dict(inject)}
    cp = {'logger_level': 50, 'dump_setup': False, 'hook_class': [Rec] + list(extra_hooks), 'predict_type': predict_type,
          'mssdc_jac': mssdc_jac, 'all_to_done': all_to_done}
    ctl = Ctl(NP, cp, desc)
    for S_ in ctl.MS:
        for L in S_.levels:
            L.__dict__['_probe_step'] = S_
    return ctl


GRAMMAR = re.compile(r'S(Pp)?(I(Ww)+i)*E')


def run_block(c, NP, NL, KMAX, predict_type, mssdc_jac, all_to_done, nsweeps, inject, maxiter_sym=True):
    """one execution path of one block; returns plain data: list of violated clauses + observations"""
    for k in STATE:
        STATE[k] = type(STATE[k])()
    STATE['kmax'] = KMAX + 3
    mx = z3.Int('maxiter')
    if maxiter_sym:
        c.add(z3.And(mx >= 0, mx <= KMAX))
    ctl = build(NP, NL, predict_type, mssdc_jac, all_to_done, nsweeps, inject)
    NPROC = NP
    if inject and dict(inject).get('short') and NP > 1:
        NP = NP - 1  # a block with fewer steps than the controller has processes (Tend reached before the last process gets a step)
    for S_ in ctl.MS:
        S_.params.maxiter = SymInt(mx) if maxiter_sym else KMAX
    P = ctl.MS[0].levels[0].prob
    viol = []
    exc = None
    try:
        uend, stats = ctl.run(P.u_exact(0), 0.0, 0.1 * NP)
    except (CommunicationError, ControllerError, UnlockError, RuntimeError, AssertionError) as e:
        exc = f'{type(e).__name__}: {e}'
        viol.append(('exception', exc))
        return dict(viol=viol, log=list(STATE['log']), niter=None, exc=exc)
    log = STATE['log']
    # (1) steps finish in time order
    order = [s for n, s, *_ in log if n == 'E']
    if order != sorted(order) or len(order) != NP:
        viol.append(('finish-order', order))
    # (2) a finished step is never changed again (identity and value of everything it held at post_step)
    for slot, snap in STATE['snap'].items():
        S_ = ctl.MS[slot]
        for (li, name, m, oid, val) in snap:
            cur = S_.levels[li].uend if name == 'uend' else getattr(S_.levels[li], name)[m]
            if cur is None or id(cur) != oid or not np.array_equal(np.asarray(cur), val):
                viol.append(('finished-step-changed', (slot, li, name, m)))
    # (2b) chaining inside the block: what a finished step holds as its initial value (finest level) is exactly the end value its left neighbour
    #      finished with
    for slot in sorted(STATE['snap']):
        if slot - 1 in STATE['snap']:
            mine = [v for (li, name, m, oid, v) in STATE['snap'][slot] if li == 0 and name == 'u' and m == 0]
            left = [v for (li, name, m, oid, v) in STATE['snap'][slot - 1] if li == 0 and name == 'uend']
            if mine and left and not np.array_equal(mine[0], left[0]):
                viol.append(('chaining', (slot, str(mine[0].tolist())[:60], str(left[0].tolist())[:60])))
    # (3) all running steps share a stage at every controller call
    for ev in STATE['comm']:
        if ev[0] == 'stage' and len(set(ev[1])) > 1:
            viol.append(('mixed-stages', ev[1]))
    # (4) every receive consumes the tag last sent by its left neighbour on that level, and gets that value (by copy)
    for ev in STATE['comm']:
        if ev[0] == 'recv':
            _, slot, level, it, tag, expect, last = ev
            if tag != expect or last != expect:
                viol.append(('recv-tag', (slot, level, it, tag, expect, last)))
        if ev[0] == 'recvd':
            _, slot, level, same, alias = ev
            if not same or alias:
                viol.append(('recv-value', (slot, level, same, alias)))
    # (4a) a value is published only for a step that has a successor in the block: the last step of the block publishes nothing (nobody would consume it)
    for ev in STATE['comm']:
        if ev[0] == 'published' and ev[3]:
            viol.append(('send-unconsumed', (ev[1], ev[2], ev[4])))
    # (4a') every published value is consumed by the successor before the step publishes on that level again (and before the block ends)
    pending = {}
    for ev in STATE['comm']:
        if ev[0] == 'published' and not ev[3]:
            key = (ev[1], ev[2])
            if key in pending:
                viol.append(('send-unconsumed', (ev[1], ev[2], pending[key], 'published again before it was consumed')))
            pending[key] = ev[4]
        elif ev[0] == 'recv':
            pending.pop((ev[1] - 1, ev[2]), None)
    for key, stage in pending.items():
        viol.append(('send-unconsumed', (key[0], key[1], stage, 'never consumed')))
    # (4b) in the stages that exchange and then sweep (fine, down, up, check) a step receives on the level it has just sent on
    lastcall = {}
    for ev in STATE['comm']:
        if ev[0] == 'sendcall':
            lastcall[ev[1]] = ev
        elif ev[0] == 'recvcall':
            prev = lastcall.get(ev[1])
            if ev[3] in ('IT_FINE', 'IT_DOWN', 'IT_UP', 'IT_CHECK') and not (prev is not None and prev[0] == 'sendcall' and prev[2] == ev[2] and prev[3] == ev[3]):
                viol.append(('recv-level', (ev[1], ev[3], 'receive on level', ev[2], 'after', prev[:4] if prev else None)))
            lastcall[ev[1]] = ev
    # (5) callback grammar per step, (6) logged niter = number of iteration callbacks, budget
    niters = [v for _, v in get_sorted(stats, type='niter', sortby='time')]
    words = []
    for p in range(NP):
        word = ''.join(n for n, s, lv, *_ in log if s == p and (n not in ('W', 'w') or True))
        words.append(word)
        if not GRAMMAR.fullmatch(word):
            viol.append(('grammar', (p, word)))
        if len(niters) != NP or niters[p] != word.count('I'):
            viol.append(('niter-record', (p, niters, word)))
        if ctl.MS[p].status.iter != word.count('I'):
            viol.append(('iter-counter', (p, ctl.MS[p].status.iter, word)))
    if all_to_done and len(set(niters)) > 1:
        viol.append(('all-to-done-niter', niters))
    # iteration budget: final iter <= maxiter unless continuation was forced on this path
    forced_continue = any('fc_' in str(l) and not z3.is_not(l) for l in c.pc)
    if maxiter_sym and not forced_continue:
        for p in range(NP):
            c.solver.push()
            c.solver.add(z3.IntVal(int(ctl.MS[p].status.iter)) > mx)
            r = core.check(c.solver, 'validity', None)
            c.solver.pop()
            if r != 'unsat':
                viol.append(('budget', (p, ctl.MS[p].status.iter, r)))
    # stopping is sound: a step that finished without any fine-level sweep must have exhausted its budget or been forced
    forced_done = any('fd_' in str(l) and not z3.is_not(l) for l in c.pc)
    if maxiter_sym and not forced_done:
        for p in range(NP):
            if STATE['fine_sweeps'].get(p, 0) == 0:
                c.solver.push()
                c.solver.add(mx > 0)
                r = core.check(c.solver, 'validity', None)
                c.solver.pop()
                if r != 'unsat':
                    viol.append(('done-without-sweep', (p, words[p], r)))
    # stopping is sound (residual criterion): a step that finished before its budget, without being forced, has a last checked residual within restol
    if maxiter_sym and not forced_done:
        for p in range(NP):
            kfin = int(ctl.MS[p].status.iter)
            n = STATE['occ'].get((p, kfin), 0)
            if n == 0:
                continue
            rlast = z3.Real(f'r_{p}_{kfin}_{n - 1}')
            c.solver.push()
            c.solver.add(z3.And(rlast > core.rv(1e-3), z3.IntVal(kfin) < mx))  # (restol of build(): the float 1e-3 taken exactly)
            r = core.check(c.solver, 'validity', None)
            c.solver.pop()
            if r != 'unsat':
                viol.append(('finished-above-restol', (p, kfin, r)))
    # (7) exactly one surviving record per step and type
    for typ in ('niter', 'residual_post_step'):
        recs = filter_stats(stats, type=typ)
        if len(recs) != NP:
            viol.append(('stats-count', (typ, len(recs))))
    return dict(viol=viol, log=[(n, s, lv, it) for n, s, lv, it, st in log], niter=niters, exc=None, words=words,
                resvars=[str(v) for v in STATE['resvars']])

#!/usr/bin/env python3
"""dev aid: mkmut.py <name> <repo-relative file> <old text> <new text>  -> dev/mutants/<name>.diff (exactly one occurrence must match)"""
import difflib, sys
name, f, old, new = sys.argv[1:5]
s = open('/repo/' + f).read()
assert s.count(old) == 1, f'{s.count(old)} matches'
t = s.replace(old, new)
d = difflib.unified_diff(s.splitlines(True), t.splitlines(True), 'a/' + f, 'b/' + f)
open(f'/verif/dev/mutants/{name}.diff', 'w').write(''.join(d))
print('wrote', name)

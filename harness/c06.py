"""C06 -- accepted steps tile [t0, Tend] contiguously and chain their values exactly.

L1 (reals): real controller_nonMPI.run with symbolic real t0, dt, Tend and an uninterpreted step map G(u, t).
L2 (IEEE double, concolic): the same real run on concolic doubles; one QF_FP query per seed path.
"""
import json
import struct
import time as _time
from fractions import Fraction

import numpy as np
import z3

from symx import core
from symx.core import SymReal, SymBool, R, rv, Ctx, explore, prove, satisfiable, coverage_certificate, model_value

from pySDC.core.hooks import Hooks
from pySDC.core.problem import Problem
from pySDC.core.sweeper import Sweeper
from pySDC.implementations.controller_classes.controller_nonMPI import controller_nonMPI
from pySDC.implementations.datatype_classes.mesh import mesh

PID = 'C06'
BOUNDS = {'quick': dict(L1_steps_per_block='1..4', L1_steps='<=10', histories='NP<=4, <=5 steps, <=2 restart requests when the step size shrinks', L2='witness replay only'), 'thorough': dict(L1_steps_per_block='1..8', L1_steps='<=12', L2='N<=3 accepted steps, NP<=2, 0<=t0<=2^20, 2^-10<=dt<=2^10, caps 600-1200 s')}
G = z3.Function('G', z3.RealSort(), z3.RealSort(), z3.RealSort())
EPS10 = Fraction(10 * float(np.finfo(float).eps))
LOG = []


class TokProb(Problem):
    dtype_u = mesh
    dtype_f = mesh

    def __init__(self, dtype=np.dtype('O')):
        super().__init__(init=(1, None, dtype))

    def eval_f(self, u, t):
        return self.dtype_f(self.init)


class DirectSolver(Sweeper):
    """stub sweeper with the contract of a direct solver: after update_nodes the residual is 0 for the u[0] it was computed for
    (and only for that one); the end value is the uninterpreted step map G(u[0], t) of that u[0]"""

    def predict(self):
        L = self.level
        P = L.prob
        self._solved_for = None
        for m in range(1, self.coll.num_nodes + 1):
            L.u[m] = P.dtype_u(L.u[0])
            L.f[m] = P.eval_f(L.u[m], L.time)
        L.f[0] = P.eval_f(L.u[0], L.time)
        L.status.unlocked = True
        L.status.updated = True

    def update_nodes(self):
        L = self.level
        self._solved_for = R(L.u[0][0]) if not isinstance(L.u[0][0], float) else L.u[0][0]
        L.status.updated = True

    def compute_residual(self, stage=''):
        L = self.level
        sf = getattr(self, '_solved_for', None)
        cur = R(L.u[0][0]) if not isinstance(L.u[0][0], float) else L.u[0][0]
        same = sf is not None and (sf.eq(cur) if isinstance(sf, z3.ExprRef) else sf == cur)
        L.status.residual = 0.0 if same else 2.0
        L.status.updated = False

    def integrate(self):
        raise NotImplementedError

    def compute_end_point(self):
        L = self.level
        e = L.prob.dtype_u(L.prob.init)
        sf = getattr(self, '_solved_for', None)
        if isinstance(L.u[0][0], float):
            e[0] = L.u[0][0] + 1.0 if sf is not None else L.u[0][0]
        else:
            e[0] = SymReal(G(sf, R(L.time))) if sf is not None else SymReal(R(L.u[0][0]))
        L.uend = e


class Rec(Hooks):
    def pre_step(self, step, level_number):
        super().pre_step(step, level_number)
        L = step.levels[0]
        LOG.append(('pre', step.status.slot, L.time, L.dt, L.u[0][0]))

    def post_step(self, step, level_number):
        super().post_step(step, level_number)
        L = step.levels[0]
        LOG.append(('post', step.status.slot, L.time, L.dt, L.u[0][0], L.uend[0]))


def describe(rep):
    C = controller_nonMPI
    from pySDC.core.step import Step
    from pySDC.implementations.convergence_controller_classes.spread_step_sizes import SpreadStepSizesBlockwiseNonMPI
    from pySDC.implementations.convergence_controller_classes.basic_restarting import BasicRestartingNonMPI

    rep.func(C.run, C.restart_block, C.pfasst, C.it_check, C.send_full, C.recv_full, Step.init_step,
             BasicRestartingNonMPI.prepare_next_block, BasicRestartingNonMPI.determine_restart)
    rep.explanation = (
        'L1: the real controller_nonMPI.run is executed with t0, dt, Tend as symbolic reals and the time step as an uninterpreted function '
        'G(u, t) (direct-solver probe sweeper). The activity tests time < Tend - 10 eps fork; every feasible path (number of blocks/steps) is '
        'executed; per path SMT validity queries show: step k starts at t0 + k dt, starts from exactly G applied k times to the caller value '
        '(congruence over G), the result is the last end value, and the step count is the least N with t0 + N dt >= Tend - 10 eps; a final '
        'query certifies coverage of all (t0, dt, Tend) within the bound on the number of steps. '
        'L2: the same real run on concolic IEEE doubles (concrete seed steers, FloatingPoint terms collected); one QF_FP query per seed '
        'path asks for inputs on that path where the run takes N steps although N-1 exact steps already reach Tend (binary128 exact sum).'
    )
    rep.rule = 'state = explored path (block/step pattern) of the real run loop; transition = branch decision; all paths are real executions; chaining inside a block additionally on the block explorations of C07 (every convergence pattern, all_to_done included)'
    rep.assume('probe sweeper honours the direct-solver contract (residual 0 iff nodes were computed for the current u[0])',
               'layer 1/2: fixed step size; restart histories (with and without halving of the step size) are explored with the C09 machinery and judged for tiling / chaining / reaching Tend', 'L1 is exact real arithmetic; rounding of time accumulation is only treated in L2',
               'L2 ranges: 0 <= t0 <= 2^20, 2^-10 <= dt <= 2^10; L2 is a counterexample finder with replay, not a proof')
    rep.assume('adaptive runs (tasks adrun): the real Adaptivity / limiter / restarting / spreading in the real controller with symbolic step sizes, times and error estimates; tiling and exact chaining decided per path (machinery of C09 (d))')
    rep.out_of_scope('controller_MPI, controller_ParaDiag_nonMPI', 'more steps than the bound', 'multi-level runs (value chaining there is covered by C01)')


def tasks(tier, seed):
    T = []
    if tier == 'quick':
        for NP, NMAX in [(1, 6), (2, 8), (3, 9), (4, 10)]:
            T.append(('L1', NP, NMAX))
        T.append(('witness',))
        T += [('L1het', 2, 4), ('L1het', 3, 4)]
        T += [('L1', 2, 6, 0.125), ('L1', 4, 6, 0.125)]  # explicit dt_initial = dt / 8 in the level parameters
        from harness import c09

        T += [t for t in c09.tasks(tier, seed) if t[0] == 'hist' and (len(t) > 7 and t[7] or t[1] <= 2)]
        T += [t for t in c09.tasks(tier, seed) if t[0] == 'adrun' and t[1] <= 2][:2]
    else:
        from harness import c09

        T += [t for t in c09.tasks(tier, seed) if t[0] in ('hist', 'adrun')]
        T += [('L1het', 2, 6), ('L1het', 3, 6), ('L1het', 4, 6)]
        T += [('L1', 2, 8, 0.125), ('L1', 3, 8, 0.125), ('L1', 4, 8, 0.5)]
        for NP, NMAX in [(1, 12), (2, 12), (3, 12), (4, 12), (5, 12), (6, 12), (7, 12), (8, 12)]:
            T.append(('L1', NP, NMAX))
        T.append(('witness',))
        for NP, N, cap in [(1, 1, 1200), (1, 2, 300), (1, 3, 900), (2, 2, 300), (2, 3, 900), (2, 1, 1200)]:
            T.append(('L2', NP, N, cap))
    # chaining INSIDE a block for every convergence pattern (block explorations of C07 with the clause 'chaining': what a finished step holds as its
    # initial value is its left neighbour's end value), all_to_done included
    from harness import c07

    for t in c07.tasks(tier, seed, deepest=False):
        if t[0] >= 2 and t[7] is None and (tier != 'quick' or (t[0] == 2 and t[2] <= 2)):
            T.append(('ctrl', t))
    return T


C06_HIST_CLAUSES = ('tiling', 'chaining', 'stops-early', 'returned-value', 'restart-point')


def run_task(rep, task):
    if task[0] == 'hist':
        from harness import c09

        return c09.hist_case(rep, *task[1:7], pid=PID, clauses=C06_HIST_CLAUSES, shrink=(task[7] if len(task) > 7 else False))
    if task[0] == 'adrun':
        from harness import c09

        return c09.adrun_case(rep, *task[1:], pid=PID, clauses=('tiling', 'chaining'))
    if task[0] == 'ctrl':
        from harness import c07

        return c07.explore_config(rep, task[1], clauses=('chaining', 'exception'), pid=PID)
    if task[0] == 'L1':
        l1_case(rep, task[1], task[2], *(task[3:4]))
    elif task[0] == 'L1het':
        l1het_case(rep, task[1], task[2])
    elif task[0] == 'witness':
        witness_case(rep)
    elif task[0] == 'L2':
        l2_case(rep, task[1], task[2], task[3])


OPTS = {'dt_initial_factor': None}


def make_ctl(NP, dt, dtype=np.dtype('O'), maxiter=8):
    d = dict(problem_class=TokProb, problem_params={'dtype': dtype}, sweeper_class=DirectSolver,
             sweeper_params={'num_nodes': 1, 'quad_type': 'RADAU-RIGHT'}, level_params={'dt': dt, 'restol': 1.0},
             step_params={'maxiter': maxiter})
    if OPTS['dt_initial_factor'] is not None:  # an explicitly given initial step size below the step size (a declared level parameter)
        d['level_params']['dt_initial'] = dt * OPTS['dt_initial_factor']
    return controller_nonMPI(NP, {'logger_level': 50, 'dump_setup': False, 'hook_class': [Rec]}, d)


def l1het_case(rep, NP, NMAX):
    """L1 with a different (symbolic) step size on every step of the controller -- the state an adaptive run with a shorter last block leaves behind
    and from which a second run() on the same controller starts: the accepted steps must still tile and chain"""
    name = f'L1het/NP{NP}/N<={NMAX}'
    t0, Tend, x, dmin = z3.Reals('t0 Tend x dmin')
    dts = [z3.Real(f'dt{p}') for p in range(NP)]
    pre = [dmin > 0, Tend - rv(EPS10) > t0, t0 + NMAX * dmin >= Tend] + [d >= dmin for d in dts]

    def fn(c):
        LOG.clear()
        for a in pre:
            c.add(a)
        ctl = make_ctl(NP, SymReal(dts[0]))
        for p, S in enumerate(ctl.MS):
            S.levels[0].params.dt = SymReal(dts[p])
        P = ctl.MS[0].levels[0].prob
        u0 = P.dtype_u(P.init)
        u0[0] = SymReal(x)
        try:
            uend, stats = ctl.run(u0, SymReal(t0), SymReal(Tend))
        except Exception as e:
            return dict(exc=f'{type(e).__name__}: {str(e)[:200]}')
        posts = [l for l in LOG if l[0] == 'post']
        return dict(exc=None, n=len(posts), uend=R(uend[0]), posts=[(s, R(t), R(d_), R(a), R(b)) for _, s, t, d_, a, b in posts])

    paths = explore(fn, max_paths=5000)
    rep.paths += len(paths)
    rep.decisions += sum(len(p.decisions) for p in paths)
    e10 = rv(EPS10)
    seen = set()
    for i, p in enumerate(paths):
        r = p.result
        A = pre + list(p.pc)
        if r['exc']:
            res, model = satisfiable(A, name=f'{name}/path{i}:exception-witness')
            if res == 'sat':
                vals = {str(v): float(model_value(model, v)) for v in [t0, Tend] + dts}
                if het_float(NP, vals) is not None:
                    rep.violation(f'{PID}/different-step-sizes/exception', f'{name}: {r["exc"]} for {vals}', {'task': ['L1het', NP, NMAX], 'vals': vals, 'x': 0.5})
            continue
        n = r['n']
        po = r['posts']
        conds = {'tiling': z3.And([po[0][1] == t0] + [po[k + 1][1] == po[k][1] + po[k][2] for k in range(n - 1)] + [po[n - 1][1] + po[n - 1][2] >= Tend - e10]),
                 'chaining': z3.And([po[0][3] == x] + [po[k + 1][3] == po[k][4] for k in range(n - 1)] + [po[k][4] == G(po[k][3], po[k][1]) for k in range(n)]),
                 'returned-value': r['uend'] == po[n - 1][4],
                 'no-start-at-or-after-Tend': z3.And([po[k][1] < Tend - e10 for k in range(n)])}
        for clause, goal in conds.items():
            res, model = prove(goal, A, name=f'{name}/path{i}:{clause}')
            rep.ob(f'{name}/path{i}:{clause}', res)
            if res == 'sat' and clause not in seen:
                seen.add(clause)
                rep.replayed += 1
                vals = {str(v): float(model_value(model, v)) for v in [t0, Tend] + dts}
                bad = het_float(NP, vals)
                if bad:
                    rep.violation(f'{PID}/different-step-sizes/{bad[0]}', f'{name}: clause(s) {bad} violated on the real float run for {vals}', {'task': ['L1het', NP, NMAX], 'vals': vals})
                else:
                    rep.unreproduced(f'{name}/path{i}:{clause}', vals)
    rep.vac(f'{name}:several-step-counts', 'sat' if len({q.result.get('n') for q in paths if not q.result['exc']}) > 1 else 'unsat', 'sat')
    rep.sample({'case': name, 'paths': len(paths), 'free_variables': 't0, Tend, one step size per step of the controller, start value'}, limit=3)


def het_float(NP, vals):
    """the same run on floats; list of violated clauses (None if the run raises)"""
    LOG.clear()
    ctl = make_ctl(NP, float(vals['dt0']), dtype=np.dtype('float64'))
    for p, S in enumerate(ctl.MS):
        S.levels[0].params.dt = float(vals[f'dt{p}'])
    P = ctl.MS[0].levels[0].prob
    u0 = P.dtype_u(P.init)
    u0[0] = 0.5
    try:
        uend, _ = ctl.run(u0, float(vals['t0']), float(vals['Tend']))
    except Exception as e:
        return ['exception ' + type(e).__name__]
    po = [l for l in LOG if l[0] == 'post']
    bad = []
    tol = lambda a: 1e-9 * (1 + abs(a))
    if abs(po[0][2] - vals['t0']) > tol(vals['t0']) or any(abs(po[k + 1][2] - (po[k][2] + po[k][3])) > tol(po[k][2]) for k in range(len(po) - 1)) or po[-1][2] + po[-1][3] < vals['Tend'] - 1e-9:
        bad.append('tiling')
    if po[0][4] != 0.5 or any(po[k + 1][4] != po[k][5] for k in range(len(po) - 1)):
        bad.append('chaining')
    if uend[0] != po[-1][5]:
        bad.append('returned-value')
    if any(l[2] >= vals['Tend'] - 1e-12 for l in po):
        bad.append('no-start-at-or-after-Tend')
    return bad


def l1_case(rep, NP, NMAX, dt_initial_factor=None):
    OPTS['dt_initial_factor'] = dt_initial_factor
    try:
        return _l1_case(rep, NP, NMAX, f'L1/NP{NP}/N<={NMAX}' + ('/dt_initial-given' if dt_initial_factor is not None else ''))
    finally:
        OPTS['dt_initial_factor'] = None


def _l1_case(rep, NP, NMAX, name):
    t0, dt, Tend, x = z3.Reals('t0 dt Tend x')
    # precondition: there is something to do (the controller rejects Tend within 10 eps of t0 with an error) and at most NMAX steps
    pre = [dt > 0, Tend - rv(EPS10) > t0, t0 + NMAX * dt >= Tend]

    def fn(c):
        LOG.clear()
        for a in pre:
            c.add(a)
        ctl = make_ctl(NP, SymReal(dt))
        P = ctl.MS[0].levels[0].prob
        u0 = P.dtype_u(P.init)
        u0[0] = SymReal(x)
        u0_id, u0_term = id(u0[0]), u0[0].t
        try:
            uend, stats = ctl.run(u0, SymReal(t0), SymReal(Tend))
        except Exception as e:
            return dict(exc=f'{type(e).__name__}: {str(e)[:200]}')
        posts = [l for l in LOG if l[0] == 'post']
        pres = [l for l in LOG if l[0] == 'pre']
        from pySDC.helpers.stats_helper import get_sorted

        nrec = len(get_sorted(stats, type='niter'))
        return dict(exc=None, n=len(posts), uend=R(uend[0]), posts=[(s, R(t), R(d_), R(a), R(b)) for _, s, t, d_, a, b in posts],
                    pres=[(s, R(t), R(d_), R(a)) for _, s, t, d_, a in pres], caller_ok=(u0[0].t.eq(u0_term) and id(u0[0]) == u0_id),
                    nrec=nrec, ret_alias=(uend is u0))

    paths = explore(fn)
    rep.paths += len(paths)
    rep.decisions += sum(len(p.decisions) for p in paths)
    e10 = rv(EPS10)
    for i, p in enumerate(paths):
        r = p.result
        assumptions = pre + list(p.pc)
        if r['exc']:
            # an exception on a feasible path (within the precondition there is always something to do)
            res, model = satisfiable(assumptions, name=f'{name}/path{i}:exception-witness')
            vals = {str(v): float(model_value(model, v)) for v in (t0, dt, Tend)} if res == 'sat' else {}
            confirm(rep, NP, vals, f'exception {r["exc"]}', 'exception', name)
            continue
        n = r['n']
        xs = [x]
        conds = {}
        for k in range(n):
            xs.append(G(xs[k], t0 + k * dt))
        conds['tiling'] = z3.And([r['posts'][k][1] == t0 + k * dt for k in range(n)] + [r['posts'][k][2] == dt for k in range(n)])
        conds['chaining'] = z3.And([r['posts'][k][3] == xs[k] for k in range(n)] + [r['posts'][k][4] == xs[k + 1] for k in range(n)])
        conds['returned-value'] = (r['uend'] == xs[n])
        conds['step-count'] = z3.And(t0 + n * dt >= Tend - e10, t0 + (n - 1) * dt < Tend - e10)
        conds['no-start-at-or-after-Tend'] = z3.And([r['posts'][k][1] < Tend - e10 for k in range(n)])
        for clause, goal in conds.items():
            res, model = prove(goal, assumptions, name=f'{name}/path{i}:{clause}')
            rep.ob(f'{name}/path{i}:{clause}', res)
            if res == 'sat':
                vals = {str(v): float(model_value(model, v)) for v in (t0, dt, Tend)}
                confirm(rep, NP, vals, f'clause {clause} refuted on path with {n} steps', clause, name)
        rep.side(f'{name}/path{i}:caller-u0-untouched', r['caller_ok'] and not r['ret_alias'])
        rep.side(f'{name}/path{i}:one-niter-record-per-step', r['nrec'] == n, (r['nrec'], n))
    res = coverage_certificate(paths, pre, name=f'{name}:coverage')
    rep.ob(f'{name}:coverage', res)
    # vacuity / sensitivity: wrong step-count specification (no 10 eps) must be refuted on some path
    okp = [p for p in paths if not p.result['exc']]
    if okp:
        p = okp[-1]
        n = p.result['n']
        res, _ = prove(z3.And(t0 + n * dt >= Tend, t0 + (n - 1) * dt < Tend - 2 * e10), pre + list(p.pc), name=f'{name}:mutated', kind='vacuity')
        rep.vac(f'{name}:mutated-step-count-refuted', res, 'sat')
        rep.vac(f'{name}:several-step-counts', 'sat' if len({q.result['n'] for q in okp}) > 1 else 'unsat', 'sat')
    rep.sample({'case': name, 'paths': len(paths), 'step_counts': sorted({q.result.get('n') for q in okp}),
                'a_path': {'decisions': paths[-1].decisions, 'steps': paths[-1].result.get('n')}}, limit=6)


# ---------------------------------------------------------------------------------------------------------------
# concrete execution of the real controller on floats (replay / witnesses)


def float_run(NP, t0, dt, Tend):
    LOG.clear()
    ctl = make_ctl(NP, float(dt), dtype=np.dtype('float64'))
    P = ctl.MS[0].levels[0].prob
    u0 = P.dtype_u(P.init)
    u0[0] = 0.0
    uend, stats = ctl.run(u0, float(t0), float(Tend))
    posts = [l for l in LOG if l[0] == 'post']
    return dict(n=len(posts), starts=[float(l[2]) for l in posts], u0s=[float(l[4]) for l in posts], uends=[float(l[5]) for l in posts],
                uend=float(uend[0]), caller=float(u0[0]))


def exact_steps(t0, dt, Tend):
    """least N with t0 + N dt >= Tend in exact rational arithmetic of the given doubles"""
    t0, dt, Tend = Fraction(t0), Fraction(dt), Fraction(Tend)
    q = (Tend - t0) / dt
    n = q.numerator // q.denominator
    return n if q == n else n + 1


def judge_float(NP, t0, dt, Tend):
    """returns list of (clause, detail) violated by the real float run"""
    try:
        r = float_run(NP, t0, dt, Tend)
    except Exception as e:
        return [('exception', f'{type(e).__name__}: {e}')], None
    bad = []
    nex = exact_steps(t0, dt, Tend)
    n = r['n']
    # chaining (the probe step map adds exactly 1.0, exact in floats for small counts)
    if r['uend'] != float(n) or r['u0s'] != [float(k) for k in range(n)] or r['caller'] != 0.0:
        bad.append(('chaining', r))
    # tiling up to rounding: start k within a few ulps of t0 + k dt
    for k, s in enumerate(r['starts']):
        ex = float(Fraction(t0) + k * Fraction(dt))
        if abs(s - ex) > 16 * np.spacing(abs(ex) + abs(dt)) * max(1, k):
            bad.append(('tiling', (k, s, ex)))
            break
    # step count: "smallest N with t0 + N dt >= Tend up to rounding"
    if n > nex:
        # N-1 exact steps already reach Tend, i.e. a complete extra step beyond Tend was taken
        if Fraction(t0) + (n - 1) * Fraction(dt) >= Fraction(Tend):
            bad.append(('step-count', {'steps': n, 'exact_minimum': nex, 'last_start': r['starts'][-1], 'Tend': Tend}))
    if n < nex:
        gap = Fraction(Tend) - (Fraction(t0) + n * Fraction(dt))
        if gap > Fraction(dt) / 2**20:
            bad.append(('stops-early', {'steps': n, 'exact_minimum': nex}))
    return bad, r


def confirm(rep, NP, vals, what, clause, name):
    """replay real-valued model values on the real float controller"""
    rep.replayed += 1
    if not vals:
        rep.unreproduced(name, what)
        return
    bad, r = judge_float(NP, vals['t0'], vals['dt'], vals['Tend'])
    if bad:
        rep.violation(f'{PID}/{bad[0][0]}/real-arithmetic', f'{name}: {what}; float replay: {str(bad[0][1])[:200]}',
                      {'NP': NP, **vals, 'dt_initial_factor': OPTS['dt_initial_factor'], 'violated': [(b[0], str(b[1])[:300]) for b in bad]})
    else:
        rep.unreproduced(name + ':' + clause, {'what': what, 'values': vals})


WITNESSES = [
    # (NP, t0, dt, Tend, origin)
    (1, 0.0, 0.1, 10.0, 'hand: dt=0.1, Tend=10 takes 101 steps'),
    (1, 158930.91599174938, 0.39503872803470585, 158931.70606920545, 'z3 QF_FP model, N=2 (design probe)'),
    (1, 62.662320304644766, 1.7414085062876339, 66.14513731722003, 'z3 QF_FP model from concolic path, N=3 (design probe)'),
    (2, 0.0, 0.1, 10.0, 'hand, two steps per block'),
    (1, 0.0, 0.25, 10.0, 'control: exactly representable step size (must be fine)'),
    (3, 1.0, 0.5, 4.75, 'control: Tend not a multiple of dt (must be fine)'),
]


def witness_case(rep):
    """concrete re-execution of recorded witnesses (decides whether the known finding is still present)"""
    for NP, t0, dt, Tend, origin in WITNESSES:
        bad, r = judge_float(NP, t0, dt, Tend)
        rep.translator += 1
        rep.sample({'witness': [NP, t0, dt, Tend], 'origin': origin, 'steps': r['n'] if r else None, 'violated': [b[0] for b in bad]}, limit=10)
        for b in bad:
            layer = 'float-accumulation' if b[0] == 'step-count' else 'float'
            rep.violation(f'{PID}/{b[0]}-{layer}', f'real run t0={t0!r} dt={dt!r} Tend={Tend!r} NP={NP}: {str(b[1])[:200]}',
                          {'NP': NP, 't0': t0, 'dt': dt, 'Tend': Tend, 'violated': [(b[0], str(b[1])[:300])]})
    if not any('control' in w[4] for w in WITNESSES):
        rep.error('witness list lost its control cases')


# ---------------------------------------------------------------------------------------------------------------
# L2: concolic IEEE doubles

F64 = z3.Float64()
RNE = z3.RNE()


class F:
    """concolic IEEE double: concrete value v + FloatingPoint term t (round-to-nearest-even operations)"""

    def __init__(self, v, t=None):
        self.v = float(v)
        self.t = t if t is not None else z3.FPVal(float(v), F64)

    @staticmethod
    def c(o):
        return o if isinstance(o, F) else F(float(o))

    def __add__(self, o):
        if isinstance(o, np.ndarray):
            return NotImplemented
        if not isinstance(o, F) and float(o) == 0.0 and self.v >= 0:
            return self
        o = F.c(o)
        return F(self.v + o.v, z3.fpAdd(RNE, self.t, o.t))

    def __radd__(self, o):
        if not isinstance(o, F) and float(o) == 0.0 and self.v >= 0:
            return self
        o = F.c(o)
        return F(o.v + self.v, z3.fpAdd(RNE, o.t, self.t))

    def __sub__(self, o):
        o = F.c(o)
        return F(self.v - o.v, z3.fpSub(RNE, self.t, o.t))

    def __rsub__(self, o):
        o = F.c(o)
        return F(o.v - self.v, z3.fpSub(RNE, o.t, self.t))

    def __mul__(self, o):
        if isinstance(o, np.ndarray):
            return NotImplemented
        if not isinstance(o, F) and float(o) == 1.0:
            return self
        o = F.c(o)
        return F(self.v * o.v, z3.fpMul(RNE, self.t, o.t))

    __rmul__ = __mul__

    def __truediv__(self, o):
        if not isinstance(o, F) and float(o) == 1.0:
            return self
        o = F.c(o)
        return F(self.v / o.v, z3.fpDiv(RNE, self.t, o.t))

    def _cmp(pyop, zop):
        def g(self, o):
            o = F.c(o)
            v = pyop(self.v, o.v)
            if self.t.eq(o.t):
                return v
            t = zop(self.t, o.t)
            Ctx.cur.pc.append(t if v else z3.Not(t))
            return v

        return g

    import operator as _o

    __lt__ = _cmp(_o.lt, z3.fpLT)
    __le__ = _cmp(_o.le, z3.fpLEQ)
    __gt__ = _cmp(_o.gt, z3.fpGT)
    __ge__ = _cmp(_o.ge, z3.fpGEQ)
    __eq__ = _cmp(_o.eq, z3.fpEQ)

    def __hash__(self):
        return hash(self.v)

    def __format__(self, spec):
        return format(self.v, spec)

    def __float__(self):
        return self.v


def cvc5_decide(smt2, cap_s):
    """check-sat of an SMT-LIB2 script with the cvc5 python API under a time limit; returns 'sat' / 'unsat' / 'unknown'"""
    try:
        import cvc5

        tm = cvc5.TermManager() if hasattr(cvc5, 'TermManager') else None
        sl = cvc5.Solver(tm) if tm else cvc5.Solver()
        sl.setOption('fp-exp', 'true')
        sl.setOption('tlimit-per', str(int(cap_s * 1000)))  # ('tlimit' ends the whole PROCESS when it expires)
        ip = cvc5.InputParser(sl)
        ip.setStringInput(cvc5.InputLanguage.SMT_LIB_2_6, smt2, 'l2')
        sm = ip.getSymbolManager()
        out = ''
        while True:
            cmd = ip.nextCommand()
            if cmd.isNull():
                break
            out += str(cmd.invoke(sl, sm))
        out = out.strip().split('\n')[-1] if out.strip() else 'unknown'
        return out if out in ('sat', 'unsat') else 'unknown'
    except Exception as e:
        return 'unknown'


def fpval(m, v):
    x = m.eval(v, model_completion=True)
    b = (int(str(x.sign_as_bv())) << 63) | (x.exponent_as_long(True) << 52) | x.significand_as_long()
    return struct.unpack('>d', struct.pack('>Q', b))[0]


def l2_case(rep, NP, N, cap_s):
    """seed path: N steps of size 1 from 0 to N-1/2; query: same path, but N-1 exact steps already reach Tend"""
    name = f'L2/NP{NP}/N{N}'
    t0 = F(0.0, z3.FP('t0', F64))
    dt = F(1.0, z3.FP('dt', F64))
    Tend = F(N - 0.5, z3.FP('Tend', F64))
    c = Ctx()
    Ctx.cur = c
    LOG.clear()
    try:
        ctl = make_ctl(NP, dt, dtype=np.dtype('float64'), maxiter=8)
        P = ctl.MS[0].levels[0].prob
        u0 = P.dtype_u(P.init)
        u0[0] = 0.0
        ctl.run(u0, t0, Tend)
    finally:
        Ctx.cur = None
    nsteps = len([l for l in LOG if l[0] == 'post'])
    if nsteps != N:
        rep.error(f'{name}: seed run took {nsteps} steps, expected {N}')
        return
    rep.paths += 1
    rep.decisions += len(c.pc)
    Q = z3.FPSort(15, 113)
    q = z3.fpToFP(RNE, t0.t, Q)
    qd = z3.fpToFP(RNE, dt.t, Q)
    for _ in range(N - 1):
        q = z3.fpAdd(RNE, q, qd)
    s = z3.Solver()
    s.set('timeout', int(cap_s * 1000))
    for v in (t0.t, dt.t, Tend.t):
        s.add(z3.Not(z3.fpIsNaN(v)), z3.Not(z3.fpIsInf(v)))
    s.add(z3.fpGEQ(t0.t, z3.FPVal(0.0, F64)), z3.fpLEQ(t0.t, z3.FPVal(1048576.0, F64)),
          z3.fpGEQ(dt.t, z3.FPVal(1 / 1024, F64)), z3.fpLEQ(dt.t, z3.FPVal(1024.0, F64)))
    s.add(c.pc)
    s.add(z3.fpGEQ(q, z3.fpToFP(RNE, Tend.t, Q)))
    r = core.check(s, 'qf_fp', name + ':extra-step')
    backend = 'z3'
    if r == 'unknown':
        # second back end: cvc5 (decides the N = 2 instances that z3 leaves open; only its 'unsat' is used, a 'sat' without a replayed model stays inconclusive)
        r2 = cvc5_decide('(set-logic QF_FP)\n' + s.to_smt2(), cap_s)
        rep.qs.note('qf_fp-cvc5', r2, 0.0, name + ':extra-step')
        if r2 == 'unsat':
            r, backend = 'unsat', 'cvc5'
    rep.extra.setdefault('L2', []).append({'case': name, 'path_atoms': len(c.pc), 'result': r, 'cap_s': cap_s, 'decided_by': backend})
    if r == 'sat':
        m = s.model()
        vals = {'t0': fpval(m, t0.t), 'dt': fpval(m, dt.t), 'Tend': fpval(m, Tend.t)}
        rep.replayed += 1
        bad, rr = judge_float(NP, vals['t0'], vals['dt'], vals['Tend'])
        rep.obligations[name + ':no-extra-step'] = 'sat'
        hit = [b for b in bad if b[0] == 'step-count']
        if hit:
            rep.violation(f'{PID}/step-count-float-accumulation', f'{name}: real run t0={vals["t0"]!r} dt={vals["dt"]!r} Tend={vals["Tend"]!r}: {hit[0][1]}',
                          {'NP': NP, **vals, 'violated': [(b[0], str(b[1])) for b in bad], 'origin': 'QF_FP model of the concolic path condition'})
        else:
            rep.unreproduced(name, {'values': vals, 'float_run': rr})
    elif r == 'unsat':
        rep.ob(name + ':no-extra-step', 'unsat')
    else:
        # a counterexample search that did not finish is reported as such, never as success
        rep.extra.setdefault('L2_undecided', []).append(name)
        rep.note(f'{name}: QF_FP query undecided within {cap_s} s (counterexample search only, no claim)')


def replay(path):
    d = json.load(open(path))['replay']
    if isinstance(d.get('task'), list) and d['task'] and d['task'][0] == 'L1het':
        bad = het_float(d['task'][1], d['vals'])
        print('violated on the real float run:', bad)
        print('REPRODUCED' if bad else 'not reproduced')
        return 1 if bad else 0
    if isinstance(d.get('task'), list) and d['task'] and d['task'][0] in ('hist', 'adrun'):
        from harness import c09

        return c09.replay(path)
    if isinstance(d.get('task'), list) and d['task'] and (isinstance(d['task'][0], int) or len(d['task']) == 8):
        from harness import c07

        return c07.replay(path)
    OPTS['dt_initial_factor'] = d.get('dt_initial_factor')
    bad, r = judge_float(d['NP'], d['t0'], d['dt'], d['Tend'])
    print('float run:', r)
    print('violated:', bad)
    print('REPRODUCED' if bad else 'not reproduced')
    return 1 if bad else 0

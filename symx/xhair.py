"""engine B: run CrossHair on a contract file, one background process per condition, and classify the verdicts.

Only "Confirmed over all paths" counts as discharged.  A reported counterexample is NOT believed: the caller re-executes it on
the plain interpreter (CrossHair produced a false counterexample in the design probes)."""
import os
import re
import subprocess
import sys
import time
from concurrent.futures import ThreadPoolExecutor

VERIF = os.path.dirname(os.path.dirname(os.path.abspath(__file__)))


def conditions(path):
    """(function name, line) of every top-level function with a PEP316 'post:' docstring"""
    out = []
    src = open(path).read().split('\n')
    cur = None
    for i, l in enumerate(src):
        m = re.match(r'def (\w+)\(', l)
        if m:
            cur = (m.group(1), i + 1)
        if cur and re.match(r'\s+post', l):
            if cur not in out:
                out.append(cur)
    return out


def run_one(path, fn, line, timeout_s):
    env = dict(os.environ)
    env['PYTHONPATH'] = f"{VERIF}:{os.environ.get('VERIF_REPO', '/repo')}"
    cmd = [sys.executable, '-m', 'crosshair', 'check', '--report_all', '--per_condition_timeout', str(timeout_s),
           '--per_path_timeout', str(max(5, timeout_s // 4)), f'{path}:{line + 1}']
    t = time.time()
    try:
        p = subprocess.run(cmd, capture_output=True, text=True, timeout=timeout_s * 3 + 60, env=env, cwd=VERIF)
        out = p.stdout + p.stderr
    except subprocess.TimeoutExpired:
        out = 'TIMEOUT'
    dt = time.time() - t
    lines = [l for l in out.split('\n') if re.search(r': (info|error|warning): ', l)]
    if out == 'TIMEOUT':
        verdict = 'timeout'
    elif any(': error: ' in l for l in lines):
        verdict = 'counterexample'
    elif any('Not confirmed' in l for l in lines):
        verdict = 'not-confirmed'
    elif any('Unable to meet precondition' in l for l in lines):
        verdict = 'no-precondition'
    elif lines and all('Confirmed over all paths' in l for l in lines):
        verdict = 'confirmed'
    else:
        verdict = 'unknown'
    return dict(fn=fn, verdict=verdict, seconds=round(dt, 1), output=out.strip()[-600:])


def check_file(path, timeout_s=30, jobs=8, only=None):
    conds = [c for c in conditions(path) if only is None or c[0] in only]
    with ThreadPoolExecutor(max_workers=jobs) as ex:
        return list(ex.map(lambda c: run_one(path, c[0], c[1], timeout_s), conds))


def reexecute(path, fn_name, output):
    """re-run a CrossHair counterexample on the plain interpreter.  returns (reproduced: bool, detail)"""
    import importlib.util
    import inspect

    m = re.search(r'when calling (' + re.escape(fn_name) + r'\(.*)', output)
    if not m:
        return False, 'no call expression in CrossHair output'
    call = m.group(1)
    k = call.rfind(' (which returns')
    if k >= 0:
        call = call[:k]
    spec = importlib.util.spec_from_file_location('xh_contract', path)
    mod = importlib.util.module_from_spec(spec)
    spec.loader.exec_module(mod)
    fn = getattr(mod, fn_name)
    captured = {}

    def cap(*a, **kw):
        captured['b'] = inspect.signature(fn).bind(*a, **kw)
        return None

    ns = dict(vars(mod))
    ns[fn_name] = cap
    try:
        eval(call, ns)
    except Exception as e:
        return False, f'cannot evaluate call {call!r}: {e}'
    b = captured['b']
    posts = [l.strip()[5:].strip() for l in (fn.__doc__ or '').split('\n') if l.strip().startswith('post:')]
    raises = [l.strip()[7:].strip() for l in (fn.__doc__ or '').split('\n') if l.strip().startswith('raises:')]
    try:
        res = fn(*b.args, **b.kwargs)
    except Exception as e:
        allowed = any(type(e).__name__ in r for r in raises)
        return (not allowed), f'{call} raised {type(e).__name__}: {e}'
    env = dict(vars(mod))
    env.update(b.arguments)
    env['_'] = res
    failed = [p for p in posts if not eval(p, env)]
    return bool(failed), {'call': call, 'returns': repr(res)[:300], 'failed_postconditions': failed}

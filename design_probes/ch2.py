from typing import Dict, List, Union, Tuple, Optional
from types import SimpleNamespace
from pySDC.core.step import Step
from pySDC.helpers.blocks import BlockDecomposition
from pySDC.implementations.convergence_controller_classes.check_convergence import CheckConvergence
from pySDC.helpers.pysdc_helper import FrozenClass
from pySDC.helpers.stats_helper import filter_stats, sort_stats
from pySDC.core.hooks import Entry

d2l = Step._Step__dict_to_list

def c20_dict_to_list(d: Dict[str, Union[int, List[int]]]) -> List[Dict[str, int]]:
    """
    pre: len(d) <= 2
    pre: all(len(v) >= 1 and len(v) <= 2 for v in d.values() if isinstance(v, list))
    post: len(_) == max([1] + [len(v) for v in d.values() if isinstance(v, list)])
    post: all(_[i][k] == (v[min(i, len(v) - 1)] if isinstance(v, list) else v) for i in range(len(_)) for k, v in d.items())
    post: all(set(e.keys()) == set(d.keys()) for e in _)
    """
    return d2l(d)

class _Lp(FrozenClass):
    def __init__(self, restol, e_tol):
        self.restol = restol; self.e_tol = e_tol; self._freeze()
class _Ls(FrozenClass):
    def __init__(self, residual, sweep, increment):
        self.residual = residual; self.sweep = sweep; self.increment = increment; self._freeze()

def c03_check(it: int, maxiter: int, res: float, restol: float, sweep: int, force_done: bool, force_continue: bool) -> bool:
    """
    pre: it >= 0 and maxiter >= 0 and sweep >= 0 and res >= 0
    post: (not _) or ((it >= maxiter) or (res <= restol and (it > 0 or sweep > 0)) or force_done)
    post: (not _) or (not force_continue)
    post: _ or force_continue or not ((it >= maxiter) or (res <= restol and (it > 0 or sweep > 0)) or force_done)
    """
    L = SimpleNamespace(status=_Ls(res, sweep, None), params=_Lp(restol, None))
    S = SimpleNamespace(levels=[L], status=SimpleNamespace(iter=it, force_done=force_done, force_continue=force_continue),
                        params=SimpleNamespace(maxiter=maxiter))
    return bool(CheckConvergence.check_convergence(S))

def c16_bounds(nPoints: int, nBlocks: int, rank: int) -> Tuple[int, int, int, int]:
    """
    pre: 1 <= nBlocks <= 64 and nPoints >= nBlocks and 0 <= rank < nBlocks - 1
    post: _[0] + _[1] == _[2]
    post: _[1] >= 1 and _[3] >= 1
    """
    b = BlockDecomposition.__new__(BlockDecomposition)
    b.gridSizes = [nPoints]; b.nBlocks = [nBlocks]
    class B(BlockDecomposition):
        r = 0
        @property
        def ranks(self): return [self.r]
    b.__class__ = B
    B.r = rank; (i0,), (n0,) = b.localBounds
    B.r = rank + 1; (i1,), (n1,) = b.localBounds
    return (i0, n0, i1, n1)

def c16_nblocks(nProcs: int, a: int, b: int) -> List[int]:
    """
    pre: 1 <= nProcs <= 32 and 1 <= a <= 64 and 1 <= b <= 64
    post: _[0] * _[1] == nProcs
    """
    return BlockDecomposition(nProcs, [a, b]).nBlocks

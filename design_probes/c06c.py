from fractions import Fraction
exec(open('c06.py').read().split("print(run(0,0.1,10.0))")[0])
t0,dt,Tend=62.662320304644766,1.7414085062876339,66.14513731722003
print('exact t0+2dt-Tend =', float(Fraction(t0)+2*Fraction(dt)-Fraction(Tend)), '-> steps,last start:', run(t0,dt,Tend))

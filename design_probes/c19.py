import numpy as np
from pySDC.implementations.controller_classes.controller_nonMPI import controller_nonMPI
from pySDC.implementations.problem_classes.TestEquation_0D import testequation0d
from pySDC.implementations.sweeper_classes.generic_implicit import generic_implicit
for ig in ('spread','random'):
    desc=dict(problem_class=testequation0d, problem_params={'lambdas':np.array([-1.0]),'u0':1.0}, sweeper_class=generic_implicit,
      sweeper_params={'num_nodes':2,'quad_type':'RADAU-RIGHT','initial_guess':ig}, level_params={'dt':0.1,'restol':-1}, step_params={'maxiter':2})
    c=controller_nonMPI(1, {'logger_level':40}, desc)
    P=c.MS[0].levels[0].prob
    a,_=c.run(P.u_exact(0),0.0,0.2); b,_=c.run(P.u_exact(0),0.0,0.2)
    c2=controller_nonMPI(1, {'logger_level':40}, desc); d,_=c2.run(P.u_exact(0),0.0,0.2)
    print(ig, a, b, d, 'same-controller repeat equal:', bool((a==b).all()), 'fresh equal:', bool((a==d).all()))

#!/usr/bin/env python3
"""dev aid: compare junit xml files of partial test runs with the stable_pass list of /root/.vp/BASELINE.json"""
import json, sys, xml.etree.ElementTree as ET
stable = set(json.load(open('/root/.vp/BASELINE.json'))['stable_pass'])
seen, passed = set(), set()
for f in sys.argv[1:]:
    for tc in ET.parse(f).getroot().iter('testcase'):
        tid = f"{tc.get('classname')}::{tc.get('name')}"
        seen.add(tid)
        if not any(ch.tag in ('failure', 'error', 'skipped') for ch in tc):
            passed.add(tid)
regress = sorted((seen & stable) - passed)
print(f'ran {len(seen)} tests; {len(seen & stable)} of them are in stable_pass; passed {len(passed)}; stable tests NOT passing: {len(regress)}')
for r in regress[:40]: print('  REGRESSION', r)

def freshness_case(rep, *a): pass

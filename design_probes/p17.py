import numpy as np, z3, time, logging
from fractions import Fraction
from symx import *
from symx2 import A, var, VARS, rv
logging.disable(logging.CRITICAL)
from pySDC.implementations.problem_classes.HeatEquation_ND_FD import heatNd_unforced
from pySDC.implementations.transfer_classes.TransferMesh import mesh_to_mesh
from pySDC.implementations.datatype_classes.mesh import mesh
class ExactDot:
    def __init__(s,sp): s.M=[[Fraction(float(v)) for v in row] for row in sp.toarray()]; s.shape=sp.shape
    def dot(s,x):
        flat=np.asarray(x).ravel(); out=np.empty(s.shape[0],dtype=object)
        for i,row in enumerate(s.M):
            acc=A({},Fraction(0))
            for j,v in enumerate(row):
                if v!=0: acc=acc+flat[j]*v
            out[i]=acc
        return out
for bc,nf,nc,order in (('periodic',16,8,4),('dirichlet-zero',15,7,4),('periodic',8,4,2),('dirichlet-zero',15,7,2)):
    Pf=heatNd_unforced(nvars=nf,bc=bc); Pc=heatNd_unforced(nvars=nc,bc=bc)
    T=mesh_to_mesh(Pf,Pc,{'iorder':order,'rorder':2,'periodic':bc=='periodic'})
    T.Pspace=ExactDot(T.Pspace); T.Rspace=ExactDot(T.Rspace)
    Pc.init=(Pc.init[0],None,np.dtype('O')); Pf.init=(Pf.init[0],None,np.dtype('O'))
    Ctx.cur=Ctx()
    xc=Pc.xvalues if hasattr(Pc,'xvalues') else Pc.grids
    xf=Pf.xvalues if hasattr(Pf,'xvalues') else Pf.grids
    xc=np.asarray(xc).ravel(); xf=np.asarray(xf).ravel()
    deg=order-1
    co=[var(f'a{j}') for j in range(deg+1)]
    def poly(x):
        x=Fraction(float(x))
        if bc=='periodic': return co[0]  # constants only on periodic grids
        # polynomial vanishing at 0 and 1: x(1-x)*q(x), total degree < order
        q=A({},Fraction(0))
        for j in range(max(deg-1,0)): q=q+co[j]*(x**j)
        return q*(x*(1-x))
    G=mesh(Pc.init); G[:]=[poly(x) for x in xc]
    Fm=T.prolong(G)
    s=z3.Solver(); 
    for n in VARS: s.add(VARS[n]>=-1,VARS[n]<=1)
    errs=[Fm[i]-poly(xf[i]) for i in range(len(xf))]
    tol=rv(Fraction(1,10**11))
    s.add(z3.Or([z3.Or(e.t>tol,e.t<-tol) for e in errs if isinstance(e,A) and e.c] or [z3.BoolVal(False)]))
    t=time.time(); r=s.check(); print(bc,nf,nc,'order',order,type(Fm).__name__,'prolong exact on admissible polynomials:',r,round(time.time()-t,2))
    if r==z3.sat: print(s.model())

import numpy as np, logging, math
from pySDC.helpers.problem_helper import get_finite_difference_stencil, get_finite_difference_matrix, get_1d_grid, get_steps
logging.disable(50)
bad=[]
def dpoly(j,d,x): # d-th derivative of x^j
    return 0*x if j<d else math.factorial(j)/math.factorial(j-d)*x**(j-d)
# stencils
for d in range(1,5):
    for order in range(1,9):
        for st in ('center','forward','backward','upwind'):
            try: c,s=get_finite_difference_stencil(d,order,st)
            except Exception as e: bad.append(('stencil EXC',d,order,st,str(e)[:40])); continue
            n=len(s); claimed=d+order if st!='center' else None
            for j in range(n):
                v=np.dot(c,s.astype(float)**j); ex=math.factorial(d) if j==d else 0.0
                if abs(v-ex)>1e-7*max(1,np.abs(c).max()): bad.append(('stencil',d,order,st,'deg',j,v,ex,'n',n)); break
            if st=='center':
                # exact up to degree < d+order ?
                for j in range(d+order):
                    v=np.dot(c,s.astype(float)**j); ex=math.factorial(d) if j==d else 0.0
                    if abs(v-ex)>1e-7*max(1,np.abs(c).max()): bad.append(('center-claim',d,order,'deg',j,'n',n,list(s))); break
print(len(bad),'stencil issues'); [print(b) for b in bad[:20]]
bad=[]
# matrices 1D
for d in (1,2):
    for order in (2,4,6):
        for st in ('center',) + (('forward','backward','upwind') if d==1 else ()):
            for bc in ('periodic','dirichlet-zero','neumann-zero'):
                size=16
                dx,x=get_1d_grid(size,bc)
                try: A,b=get_finite_difference_matrix(d,order,st,dx=dx,size=size,dim=1,bc=bc)
                except Exception as e: bad.append(('mat EXC',d,order,st,bc,type(e).__name__,str(e)[:50])); continue
                A=A.toarray()
                if bc=='periodic':
                    u=np.sin(2*np.pi*x); # check constant nullspace and shift-invariance
                    if np.abs(A@np.ones(size)).max()>1e-8: bad.append(('periodic const',d,order,st))
                    if np.abs(np.roll(A,(1,1),(0,1))-A).max()>1e-8*np.abs(A).max(): bad.append(('periodic not circulant',d,order,st))
                elif bc=='dirichlet-zero':
                    for j in range(0,d+order-2):
                        f=lambda t: t*(1-t)*t**j
                        # derivative numerically exact via polynomial
                        p=np.polynomial.Polynomial([0,1,-1])*np.polynomial.Polynomial([0]*j+[1])
                        ex=p.deriv(d)(x)
                        if np.abs(A@p(x)+b-ex).max()>1e-6*max(1,np.abs(ex).max()): bad.append(('dirichlet',d,order,st,'deg',j+2,float(np.abs(A@p(x)+b-ex).max()))); break
print(len(bad),'matrix issues'); [print(b) for b in bad[:30]]

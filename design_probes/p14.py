import numpy as np, z3, time, logging
from types import SimpleNamespace
from symx import *
from pySDC.implementations.convergence_controller_classes.check_convergence import CheckConvergence
from pySDC.helpers.pysdc_helper import FrozenClass
logging.disable(logging.CRITICAL)
class SI:
    def __init__(s,t): s.t=t if isinstance(t,z3.ExprRef) else z3.IntVal(int(t))
    @staticmethod
    def c(o): return o.t if isinstance(o,SI) else z3.IntVal(int(o))
    def __ge__(s,o): return SymBool(s.t>=SI.c(o))
    def __gt__(s,o): return SymBool(s.t>SI.c(o))
    def __le__(s,o): return SymBool(s.t<=SI.c(o))
    def __lt__(s,o): return SymBool(s.t<SI.c(o))
    def __eq__(s,o): return SymBool(s.t==SI.c(o))
    def __add__(s,o): return SI(s.t+SI.c(o))
    __hash__=None
class _Lp(FrozenClass):
    def __init__(self, restol): self.restol=restol; self._freeze()
class _Ls(FrozenClass):
    def __init__(self, residual, sweep): self.residual=residual; self.sweep=sweep; self.increment=None; self._freeze()
it,mx,sw=z3.Ints('it mx sw'); res,tol=z3.Reals('res tol'); fd,fc=z3.Bools('fd fc')
def fn(c):
    c.add(it>=0); c.add(mx>=0); c.add(sw>=0); c.add(res>=0)
    L=SimpleNamespace(status=_Ls(S(res),SI(sw)),params=_Lp(S(tol)))
    St=SimpleNamespace(levels=[L],status=SimpleNamespace(iter=SI(it),force_done=SymBool(fd),force_continue=SymBool(fc)),params=SimpleNamespace(maxiter=SI(mx)))
    r=CheckConvergence.check_convergence(St)
    return bool(r)
t=time.time(); paths,q=explore(fn); print('check_convergence paths',len(paths),'queries',q,round(time.time()-t,2))
spec=z3.And(z3.Or(it>=mx, z3.And(res<=tol, z3.Or(it>0,sw>0)), fd), z3.Not(fc))
bad=0
for pc,r in paths:
    s=z3.Solver(); s.add(it>=0,mx>=0,sw>=0,res>=0); s.add(pc); s.add(spec!=z3.BoolVal(r))
    if s.check()!=z3.unsat: bad+=1
s=z3.Solver(); s.add(it>=0,mx>=0,sw>=0,res>=0); s.add(z3.Not(z3.Or([z3.And(pc) for pc,_ in paths])))
print('violating paths',bad,'coverage',s.check())
# argsort with symbolic ints
a,b,c_=z3.Ints('a b c')
def fn2(c):
    c.add(z3.Distinct(a,b,c_))
    orders=[SI(a),SI(b),SI(c_)]
    return list(np.arange(3)[np.argsort(orders)])
try:
    paths,q=explore(fn2); print('argsort paths',len(paths),[r for _,r in paths])
except Exception as e: print('argsort FAIL',type(e).__name__,e)

"""symx -- symbolic shadow execution of real pySDC code (engine A of DESIGN.md).

Symbolic scalars wrap z3 terms and overload the arithmetic / comparison operators, so they can live inside
ordinary numpy object arrays (and therefore inside pySDC's own data types).  The only place where a symbolic
value has to become concrete is ``SymBool.__bool__``: the executor asks the solver which branches are feasible
under the current path condition and forks (depth-first re-execution with a decision prefix).

Nothing in here knows about pySDC.
"""
import builtins
import time
from fractions import Fraction

import numpy as np
import z3

# ------------------------------------------------------------------------------------------------ constants


def frac(x):
    """exact rational value of a python number (floats are converted exactly, not rounded)"""
    if isinstance(x, Fraction):
        return x
    if isinstance(x, (bool, np.bool_)):
        raise TypeError('bool is not a number here')
    if isinstance(x, (int, np.integer)):
        return Fraction(int(x))
    return Fraction(float(x))


def rv(x):
    """z3 Real numeral with the exact value of x"""
    f = frac(x)
    return z3.RealVal(f"{f.numerator}/{f.denominator}")


def R(x):
    """lift anything scalar to a z3 Real term"""
    if isinstance(x, SymReal):
        return x.t
    if isinstance(x, SymInt):
        return z3.ToReal(x.t)
    if isinstance(x, z3.ExprRef):
        return z3.ToReal(x) if x.sort() == z3.IntSort() else x
    return rv(x)


def I(x):
    if isinstance(x, SymInt):
        return x.t
    if isinstance(x, z3.ExprRef):
        return x
    if isinstance(x, (bool, np.bool_)):
        return z3.IntVal(int(x))
    if isinstance(x, (int, np.integer)):
        return z3.IntVal(int(x))
    if isinstance(x, float) and float(x).is_integer():
        return z3.IntVal(int(x))
    raise TypeError(f'cannot lift {type(x)} to Int')


def B(x):
    if isinstance(x, SymBool):
        return x.t
    if isinstance(x, z3.ExprRef):
        return x
    return z3.BoolVal(bool(x))


# ------------------------------------------------------------------------------------------------ statistics


class QStats:
    """counts every solver call made anywhere (feasibility and property queries)"""

    def __init__(self):
        self.n = {}
        self.t = 0.0
        self.log = []

    def note(self, kind, result, dt, name=None):
        key = f'{kind}:{result}'
        self.n[key] = self.n.get(key, 0) + 1
        self.t += dt
        if name is not None and len(self.log) < 2000:
            self.log.append({'name': name, 'kind': kind, 'result': result, 's': round(dt, 4)})

    def merge(self, other):
        for k, v in other.n.items():
            self.n[k] = self.n.get(k, 0) + v
        self.t += other.t
        self.log.extend(other.log[: max(0, 2000 - len(self.log))])

    def total(self):
        return sum(self.n.values())


QS = QStats()


class Inconclusive(Exception):
    """solver answered unknown / timed out"""


def check(solver, kind='query', name=None):
    t = time.time()
    r = str(solver.check())
    QS.note(kind, r, time.time() - t, name)
    return r


# ------------------------------------------------------------------------------------------------ path context


INCR_MS = 4000
RETRY_FACTOR = 3  # validity queries that time out are repeated once with this times the budget


class EmptyRegion(Exception):
    """the forced decision prefix of a split exploration is infeasible: this part of the input space is empty"""


class DepthLimit(Exception):
    """raised by a frontier exploration when a run asks for more than the allowed number of decisions"""


class Ctx:
    """state of one execution path"""

    cur = None

    def __init__(self, prefix=(), timeout_ms=60000, concolic=None, check_forced=0):
        self.max_depth = None  # frontier explorations: stop a run when it needs a decision beyond this depth
        self.check_forced = check_forced  # number of leading forced decisions whose feasibility is still to be confirmed (split explorations)
        self.prefix = list(prefix)
        self.pos = 0
        self.pc = []  # branch literals taken on this path
        self.alts = []  # positions where the other branch is feasible too
        self.assume = []  # preconditions added by the harness
        self.solver = z3.Solver()
        self.timeout_ms = timeout_ms
        self.solver.set('timeout', min(timeout_ms, INCR_MS))
        self.fresh = 0
        self.obs = {}
        self.concolic = concolic  # None or a z3 model-like callable term->bool for steering without queries

    def add(self, t):
        """add a precondition (an assumption about the symbolic inputs)"""
        t = B(t)
        self.solver.add(t)
        self.assume.append(t)

    def newname(self, base):
        self.fresh += 1
        return f'{base}!{self.fresh}'

    def feasible(self, t):
        """is (preconditions and path condition and t) satisfiable?  The incremental solver answers the many easy queries; when it gives up within
        its short budget the same query goes to a fresh solver with the full budget (with preprocessing: measured 2 s against 165 s on the
        restol comparisons of C01 whose coefficients are 500-digit rationals)."""
        self.solver.push()
        self.solver.add(t)
        r = check(self.solver, 'feasibility')
        self.solver.pop()
        if r == 'unknown' and self.timeout_ms > INCR_MS:
            s = z3.Solver()
            s.set('timeout', self.timeout_ms)
            s.add(self.assume + self.pc + [t])
            r = check(s, 'feasibility-fresh')
        return r

    def decide(self, t):
        """make the boolean term t concrete on this path"""
        t = z3.simplify(t)
        if z3.is_true(t):
            return True
        if z3.is_false(t):
            return False
        if self.pos < len(self.prefix):
            v = self.prefix[self.pos]
            if self.pos < self.check_forced:
                r = self.feasible(t if v else z3.Not(t))
                if r == 'unsat':
                    raise EmptyRegion()
                if r != 'sat':
                    raise Inconclusive(f'feasibility of a forced decision unknown for {t}')
        else:
            if self.max_depth is not None and self.pos >= self.max_depth:
                raise DepthLimit()
            ft = self.feasible(t)
            ff = self.feasible(z3.Not(t))
            if ft == 'unknown' or ff == 'unknown':
                raise Inconclusive(f'feasibility query unknown for {t}')
            if ft == 'sat' and ff == 'sat':
                v = True
                self.alts.append(len(self.prefix))
            elif ft == 'sat':
                v = True
            elif ff == 'sat':
                v = False
            else:
                raise Inconclusive('path condition became unsatisfiable')
            self.prefix.append(v)
        self.pos += 1
        lit = t if v else z3.Not(t)
        self.solver.add(lit)
        self.pc.append(lit)
        return v


def cur():
    return Ctx.cur


# ------------------------------------------------------------------------------------------------ scalars


def _arr(o):
    return isinstance(o, np.ndarray)


class SymBool:
    __slots__ = ('t',)

    def __init__(self, t):
        self.t = B(t)

    def __bool__(self):
        c = Ctx.cur
        if c is None:
            t = z3.simplify(self.t)
            if z3.is_true(t):
                return True
            if z3.is_false(t):
                return False
            raise RuntimeError('symbolic bool made concrete outside an exploration')
        return c.decide(self.t)

    def __and__(self, o):
        return SymBool(z3.And(self.t, B(o)))

    __rand__ = __and__

    def __or__(self, o):
        return SymBool(z3.Or(self.t, B(o)))

    __ror__ = __or__

    def __invert__(self):
        return SymBool(z3.Not(self.t))

    def __repr__(self):
        return f'SymBool({self.t})'


def _cmp(lift, op):
    def g(s, o):
        if _arr(o):
            return NotImplemented
        try:
            return SymBool(op(s.t, lift(o)))
        except TypeError:
            return NotImplemented

    return g


class SymReal:
    """real-valued symbolic scalar (exact real arithmetic over exact rational constants)"""

    __slots__ = ('t',)

    def __init__(self, t):
        self.t = t if isinstance(t, z3.ExprRef) else R(t)

    def _b(f, name=None):
        def g(s, o):
            if _arr(o):
                return NotImplemented
            if isinstance(o, SymComplex):
                return NotImplemented
            if isinstance(o, (complex, np.complexfloating)):
                if o.imag == 0:
                    o = float(o.real)
                else:
                    return getattr(SymComplex.lift(s), name)(o)
            return f(s, R(o))

        return g

    __add__ = _b(name='__add__', f=lambda s, o: SymReal(s.t + o))
    __radd__ = _b(name='__radd__', f=lambda s, o: SymReal(o + s.t))
    __sub__ = _b(name='__sub__', f=lambda s, o: SymReal(s.t - o))
    __rsub__ = _b(name='__rsub__', f=lambda s, o: SymReal(o - s.t))
    __mul__ = _b(name='__mul__', f=lambda s, o: SymReal(s.t * o))
    __rmul__ = _b(name='__rmul__', f=lambda s, o: SymReal(o * s.t))
    __truediv__ = _b(name='__truediv__', f=lambda s, o: SymReal(s.t / o))
    __rtruediv__ = _b(name='__rtruediv__', f=lambda s, o: SymReal(o / s.t))
    __lt__ = _cmp(R, lambda a, b: a < b)
    __le__ = _cmp(R, lambda a, b: a <= b)
    __gt__ = _cmp(R, lambda a, b: a > b)
    __ge__ = _cmp(R, lambda a, b: a >= b)
    __eq__ = _cmp(R, lambda a, b: a == b)
    __ne__ = _cmp(R, lambda a, b: a != b)

    def __hash__(self):
        return hash(self.t)

    def __neg__(self):
        return SymReal(-self.t)

    def __pos__(self):
        return self

    def __abs__(self):
        return SymReal(z3.If(self.t >= 0, self.t, -self.t))

    def __pow__(self, k):
        if isinstance(k, (int, np.integer)) and 0 <= int(k) <= 16:
            r = z3.RealVal(1)
            for _ in range(int(k)):
                r = r * self.t
            return SymReal(r)
        return NotImplemented

    def conjugate(self):
        return self

    @property
    def real(self):
        return self

    @property
    def imag(self):
        return SymReal(0)

    def __format__(self, spec):
        return '<sym>'

    def __repr__(self):
        return f'S({self.t})'

    def __float__(self):
        raise TypeError('symbolic real cannot be converted to float')


S = SymReal


class SymInt:
    """integer-valued symbolic scalar"""

    __slots__ = ('t',)

    def __init__(self, t):
        self.t = I(t)

    def _b(f):
        def g(s, o):
            if _arr(o):
                return NotImplemented
            if isinstance(o, SymReal) or (isinstance(o, float) and not float(o).is_integer()):
                return NotImplemented
            return f(s, I(o))

        return g

    __add__ = _b(lambda s, o: SymInt(s.t + o))
    __radd__ = _b(lambda s, o: SymInt(o + s.t))
    __sub__ = _b(lambda s, o: SymInt(s.t - o))
    __rsub__ = _b(lambda s, o: SymInt(o - s.t))
    __mul__ = _b(lambda s, o: SymInt(s.t * o))
    __rmul__ = _b(lambda s, o: SymInt(o * s.t))
    # python floor division / modulo for a positive divisor coincide with z3's euclidean div/mod
    __floordiv__ = _b(lambda s, o: SymInt(s.t / o))
    __mod__ = _b(lambda s, o: SymInt(s.t % o))
    __lt__ = _cmp(I, lambda a, b: a < b)
    __le__ = _cmp(I, lambda a, b: a <= b)
    __gt__ = _cmp(I, lambda a, b: a > b)
    __ge__ = _cmp(I, lambda a, b: a >= b)
    __eq__ = _cmp(I, lambda a, b: a == b)
    __ne__ = _cmp(I, lambda a, b: a != b)

    def __hash__(self):
        return hash(self.t)

    def __neg__(self):
        return SymInt(-self.t)

    def __index__(self):
        raise TypeError('symbolic int used as an index')

    def __format__(self, spec):
        return '<symint>'

    def __repr__(self):
        return f'SI({self.t})'


SI = SymInt


class SymComplex:
    """complex symbolic scalar = pair of real terms"""

    __slots__ = ('re', 'im')

    def __init__(self, re, im=0):
        self.re = R(re)
        self.im = R(im)

    @staticmethod
    def lift(o):
        if isinstance(o, SymComplex):
            return o
        if isinstance(o, SymReal):
            return SymComplex(o.t, 0)
        if isinstance(o, (complex, np.complexfloating)):
            return SymComplex(float(o.real), float(o.imag))
        return SymComplex(o, 0)

    def _b(f):
        def g(s, o):
            if _arr(o):
                return NotImplemented
            return f(s, SymComplex.lift(o))

        return g

    __add__ = _b(lambda s, o: SymComplex(s.re + o.re, s.im + o.im))
    __radd__ = __add__
    __sub__ = _b(lambda s, o: SymComplex(s.re - o.re, s.im - o.im))
    __rsub__ = _b(lambda s, o: SymComplex(o.re - s.re, o.im - s.im))
    __mul__ = _b(lambda s, o: SymComplex(s.re * o.re - s.im * o.im, s.re * o.im + s.im * o.re))
    __rmul__ = __mul__

    def _div(a, b):
        d = b.re * b.re + b.im * b.im
        return SymComplex((a.re * b.re + a.im * b.im) / d, (a.im * b.re - a.re * b.im) / d)

    __truediv__ = _b(lambda s, o: SymComplex._div(s, o))
    __rtruediv__ = _b(lambda s, o: SymComplex._div(o, s))

    def __neg__(self):
        return SymComplex(-self.re, -self.im)

    def conjugate(self):
        return SymComplex(self.re, -self.im)

    @property
    def real(self):
        return SymReal(self.re)

    @property
    def imag(self):
        return SymReal(self.im)

    __hash__ = None

    def __repr__(self):
        return f'SC({self.re},{self.im})'


# ------------------------------------------------------------------------------------------------ helpers


def zabs(t):
    return z3.If(t >= 0, t, -t)


def zmax(ts):
    ts = list(ts)
    m = ts[0]
    for x in ts[1:]:
        m = z3.If(x >= m, x, m)
    return m


def zmin(ts):
    ts = list(ts)
    m = ts[0]
    for x in ts[1:]:
        m = z3.If(x <= m, x, m)
    return m


def _issym(x):
    return isinstance(x, (SymReal, SymInt))


def sym_max(*args, **kw):
    """drop-in for builtin max that returns ONE ite term instead of forking on pairwise comparisons"""
    xs = list(args[0]) if len(args) == 1 else list(args)
    if any(isinstance(x, SymReal) for x in xs):
        return SymReal(zmax([R(x) for x in xs]))
    if any(isinstance(x, SymInt) for x in xs):
        return SymInt(zmax([I(x) for x in xs]))
    return builtins.max(*args, **kw)


def sym_min(*args, **kw):
    xs = list(args[0]) if len(args) == 1 else list(args)
    if any(isinstance(x, SymReal) for x in xs):
        return SymReal(zmin([R(x) for x in xs]))
    if any(isinstance(x, SymInt) for x in xs):
        return SymInt(zmin([I(x) for x in xs]))
    return builtins.min(*args, **kw)


def term(x):
    """z3 term of a scalar that may be symbolic or concrete (real-valued)"""
    return R(x)


def evalf(t, env):
    """evaluate a z3 real term at float values (env: name -> float) -> float, via exact substitution"""
    subs = [(z3.Real(k), rv(v)) for k, v in env.items()]
    v = z3.simplify(z3.substitute(t, *subs))
    if z3.is_rational_value(v):
        return float(Fraction(v.numerator_as_long(), v.denominator_as_long()))
    if z3.is_algebraic_value(v):
        return float(v.approx(20).as_fraction())
    raise ValueError(f'term does not evaluate to a number: {v}')


def model_value(m, t):
    v = m.eval(t, model_completion=True)
    if z3.is_rational_value(v):
        return Fraction(v.numerator_as_long(), v.denominator_as_long())
    if z3.is_int_value(v):
        return v.as_long()
    if z3.is_algebraic_value(v):
        return v.approx(30).as_fraction()
    if z3.is_true(v):
        return True
    if z3.is_false(v):
        return False
    return str(v)


# ------------------------------------------------------------------------------------------------ exploration


class Path:
    __slots__ = ('pc', 'result', 'decisions', 'assume')

    def __init__(self, pc, result, decisions, assume):
        self.pc = pc
        self.result = result
        self.decisions = decisions
        self.assume = assume


def explore(fn, max_paths=200000, timeout_ms=60000, prefix=(), stop=None):
    """run fn(ctx) on every feasible path; returns list of Path.  fn must be deterministic under re-execution."""
    work = [list(prefix)]
    paths = []
    while work:
        pre = work.pop()
        c = Ctx(pre, timeout_ms=timeout_ms, check_forced=(len(prefix) if not paths else 0))
        Ctx.cur = c
        try:
            res = fn(c)
        except EmptyRegion:
            return []
        finally:
            Ctx.cur = None
        paths.append(Path(list(c.pc), res, list(c.prefix), list(c.assume)))
        if stop is not None and stop(res):
            break  # the caller has seen enough (e.g. a run that does not terminate): the remaining paths are not explored, no coverage is claimed
        for i in c.alts:
            work.append(c.prefix[:i] + [False])
        if len(paths) > max_paths:
            raise Inconclusive(f'more than {max_paths} paths')
    return paths


def frontier(fn, depth, timeout_ms=60000):
    """all feasible decision prefixes of length `depth` (and the complete decision lists of runs that need fewer decisions): the regions of a split
    exploration.  Every input follows exactly one of them."""
    work = [[]]
    out = []
    while work:
        pre = work.pop()
        c = Ctx(pre, timeout_ms=timeout_ms)
        c.max_depth = depth
        Ctx.cur = c
        try:
            fn(c)
        except DepthLimit:
            pass
        finally:
            Ctx.cur = None
        out.append(tuple(c.prefix))
        for i in c.alts:
            work.append(c.prefix[:i] + [False])
    return out


def coverage_certificate(paths, precondition=(), name='coverage'):
    """precondition AND NOT (PC_1 OR ... OR PC_n) must be unsat: every input follows one of the explored paths"""
    r = 'unknown'
    for budget in (120000, 120000 * RETRY_FACTOR * 2):  # a second attempt with a longer budget before the certificate is reported as undecided
        s = z3.Solver()
        s.set('timeout', budget)
        for p in precondition:
            s.add(p)
        s.add(z3.Not(z3.Or([z3.And(p.pc) if p.pc else z3.BoolVal(True) for p in paths])))
        r = check(s, 'coverage', name)
        if r != 'unknown':
            break
    return r


def prove(goal, assumptions=(), timeout_ms=60000, name=None, kind='validity'):
    """validity query: assumptions => goal.  returns ('unsat', None) if valid, ('sat', model) or ('unknown', None)"""
    s = z3.Solver()
    s.set('timeout', timeout_ms)
    for a in assumptions:
        s.add(a)
    s.add(z3.Not(goal))
    r = check(s, kind, name)
    if r == 'unknown' and kind == 'validity' and RETRY_FACTOR > 1:
        # one more attempt with a longer budget before the query is reported as undecided (a loaded machine must not turn a decided query into an
        # inconclusive one); the first attempt stays in the statistics as 'unknown'
        s = z3.Solver()
        s.set('timeout', int(timeout_ms * RETRY_FACTOR))
        for a in assumptions:
            s.add(a)
        s.add(z3.Not(goal))
        r = check(s, kind + '-retry', name)
    return r, (s.model() if r == 'sat' else None)


def satisfiable(constraints, timeout_ms=60000, name=None, kind='witness'):
    s = z3.Solver()
    s.set('timeout', timeout_ms)
    for a in constraints:
        s.add(a)
    r = check(s, kind, name)
    return r, (s.model() if r == 'sat' else None)

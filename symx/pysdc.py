"""pySDC-side environment for engine A: symbolic-friendly data types, stub problems, module shadows.

Everything here stands in for the *environment* of the code under test (problem classes, space transfer, numpy
kernels that reject object arrays); the sweepers, controllers, transfer and convergence-controller code that is
executed is the real code imported from /repo.
"""
import builtins
from fractions import Fraction

import numpy as np
import z3

from .core import SymReal, SymInt, SymBool, SymComplex, R, rv, frac, zabs, zmax, sym_max, sym_min

from pySDC.core.problem import Problem
from pySDC.core.space_transfer import SpaceTransfer
from pySDC.implementations.datatype_classes.mesh import mesh, imex_mesh, comp2_mesh

ODT = np.dtype('O')


def install_shadows():
    """remove artefact forks: builtin max/min over symbolic residuals become one ite term (DESIGN 2.1)"""
    import pySDC.core.sweeper as sw
    import pySDC.implementations.sweeper_classes.imex_1st_order_mass as swm

    sw.max = sym_max
    sw.min = sym_min
    swm.max = sym_max


def norm_inf(arr):
    """max-norm of an object array as ONE term"""
    flat = list(np.asarray(arr).view(np.ndarray).ravel())
    if any(isinstance(x, SymComplex) for x in flat):
        raise TypeError('complex max-norm is not linear; use component-wise assertions')
    if not any(isinstance(x, SymReal) for x in flat):
        return builtins.max(abs(x) for x in flat)
    return SymReal(zmax([zabs(R(x)) for x in flat]))


class SymMesh(mesh):
    """the real mesh class, except that abs() (which ends in float() in the original) yields a term"""

    def __abs__(self):
        return norm_inf(self)


class SymIMEX(imex_mesh):
    def __abs__(self):
        return norm_inf(self)


class SymComp2(comp2_mesh):
    def __abs__(self):
        return norm_inf(self)


def mkmesh(P, vals, cls=None):
    m = (cls or P.dtype_u)(P.init)
    m[:] = vals
    return m


# ------------------------------------------------------------------------------------------ exact linear algebra


def gauss_inverse(A):
    """exact inverse of a square matrix of Fractions"""
    n = len(A)
    M = [[Fraction(A[i][j]) for j in range(n)] + [Fraction(int(i == j)) for j in range(n)] for i in range(n)]
    for c in range(n):
        p = next(r for r in range(c, n) if M[r][c] != 0)
        M[c], M[p] = M[p], M[c]
        pv = M[c][c]
        M[c] = [x / pv for x in M[c]]
        for r in range(n):
            if r != c and M[r][c] != 0:
                f = M[r][c]
                M[r] = [x - f * y for x, y in zip(M[r], M[c])]
    return [row[n:] for row in M]


def _is_sym(x):
    return isinstance(x, (SymReal, SymInt))


DENOMS = []  # z3 terms of the denominators used by symbolic solves (the harness assumes them non-zero)
AXIOMS = []  # defining equations of solves done in 'axiom' mode
SOLVE = {'mode': 'closed', 'n': 0}


def solve_linear(Amat, factor, rhs):
    """solve (I - factor*A) x = rhs exactly.  A: n x n list of Fractions or SymReal, factor: number or SymReal"""
    n = len(Amat)
    symbolic = _is_sym(factor) or any(_is_sym(a) for row in Amat for a in row)
    if not symbolic:
        fac = frac(factor)
        Minv = gauss_inverse([[Fraction(int(i == j)) - fac * Amat[i][j] for j in range(n)] for i in range(n)])
        return [sum((rhs[j] * Minv[i][j] for j in range(n) if Minv[i][j] != 0), SymReal(0)) for i in range(n)]
    one = SymReal(1)
    M = [[(one if i == j else SymReal(0)) - factor * Amat[i][j] for j in range(n)] for i in range(n)]
    if SOLVE['mode'] == 'axiom' and n >= 2:
        # the solution is a vector of fresh variables DEFINED by (I - factor A) w = rhs (unique because the system is assumed non-singular):
        # keeps the queries polynomial instead of rational functions with symbolic determinants
        SOLVE['n'] += 1
        w = [SymReal(z3.Real(f'w!{SOLVE["n"]}!{i}')) for i in range(n)]
        for i in range(n):
            acc = M[i][0] * w[0]
            for j in range(1, n):
                acc = acc + M[i][j] * w[j]
            AXIOMS.append(R(acc) == R(rhs[i]))
        return w
    if n == 1:
        DENOMS.append(R(M[0][0]))
        return [rhs[0] / M[0][0]]
    if n == 2:
        det = M[0][0] * M[1][1] - M[0][1] * M[1][0]
        DENOMS.append(R(det))
        return [(M[1][1] * rhs[0] - M[0][1] * rhs[1]) / det, (M[0][0] * rhs[1] - M[1][0] * rhs[0]) / det]
    raise NotImplementedError('symbolic solve only for n <= 2')


def matvec(Amat, u):
    n = len(Amat)
    out = []
    for i in range(n):
        acc = None
        for j in range(n):
            a = Amat[i][j]
            if not _is_sym(a) and a == 0:
                continue
            term = u[j] * a
            acc = term if acc is None else acc + term
        out.append(acc if acc is not None else (u[0] * 0))
    return out


def tofrac_matrix(A):
    A = np.asarray(A, dtype=object)
    if A.ndim == 0:
        A = A.reshape(1, 1)
    return [[(a if _is_sym(a) else frac(a)) for a in row] for row in A]


# ------------------------------------------------------------------------------------------ stub problems


class LinProb(Problem):
    """u' = A u, exact algebra.  A may hold floats (taken exactly) or SymReal coefficients"""

    dtype_u = SymMesh
    dtype_f = SymMesh

    def __init__(self, A, dtype=ODT):
        self.Am = tofrac_matrix(A)
        n = len(self.Am)
        super().__init__(init=(n, None, dtype))
        self.n = n
        self.neval = 0
        self.nsolve = 0
        from pySDC.core.problem import WorkCounter

        self.work_counters['rhs'] = WorkCounter()  # (as the shipped problem classes: lets LogWork record something)

    def eval_f(self, u, t):
        self.neval += 1
        self.work_counters['rhs']()
        f = self.dtype_f(self.init)
        f[:] = matvec(self.Am, u)
        return f

    def solve_system(self, rhs, factor, u0, t):
        self.nsolve += 1
        me = self.dtype_u(self.init)
        me[:] = solve_linear(self.Am, factor, rhs)
        return me

    def u_exact(self, t):
        me = self.dtype_u(self.init)
        me[:] = [1.0] * self.n
        return me


class ImexProb(Problem):
    """u' = AI u (implicit part) + AE u (explicit part)"""

    dtype_u = SymMesh
    dtype_f = SymIMEX

    def __init__(self, AI, AE):
        self.AI = tofrac_matrix(AI)
        self.AE = tofrac_matrix(AE)
        n = len(self.AI)
        super().__init__(init=(n, None, ODT))
        self.n = n
        self.fix_bc_for_residual = False

    def eval_f(self, u, t):
        f = self.dtype_f(self.init)
        f.impl[:] = matvec(self.AI, u)
        f.expl[:] = matvec(self.AE, u)
        return f

    def solve_system(self, rhs, factor, u0, t):
        me = self.dtype_u(self.init)
        me[:] = solve_linear(self.AI, factor, rhs)
        return me


class MassImexProb(ImexProb):
    """M u' = AI u + AE u with a diagonal mass matrix; solve_system inverts (M - factor*AI)"""

    def __init__(self, AI, AE, mass):
        super().__init__(AI, AE)
        self.mass = [m if _is_sym(m) else frac(m) for m in mass]

    def apply_mass_matrix(self, u):
        me = self.dtype_u(self.init)
        me[:] = [u[i] * self.mass[i] for i in range(self.n)]
        return me

    def solve_system(self, rhs, factor, u0, t):
        assert self.n == 1
        me = self.dtype_u(self.init)
        den = SymReal(self.mass[0]) - factor * self.AI[0][0]
        DENOMS.append(R(den))
        me[:] = [rhs[0] / den]
        return me


class MultiProb(Problem):
    """u' = A1 u + A2 u, both parts implicit (multi_implicit sweeper)"""

    dtype_u = SymMesh
    dtype_f = SymComp2

    def __init__(self, A1, A2):
        self.A1 = tofrac_matrix(A1)
        self.A2 = tofrac_matrix(A2)
        n = len(self.A1)
        super().__init__(init=(n, None, ODT))
        self.n = n

    def eval_f(self, u, t):
        f = self.dtype_f(self.init)
        f.comp1[:] = matvec(self.A1, u)
        f.comp2[:] = matvec(self.A2, u)
        return f

    def solve_system_1(self, rhs, factor, u0, t):
        me = self.dtype_u(self.init)
        me[:] = solve_linear(self.A1, factor, rhs)
        return me

    def solve_system_2(self, rhs, factor, u0, t):
        me = self.dtype_u(self.init)
        me[:] = solve_linear(self.A2, factor, rhs)
        return me


class UFProb(Problem):
    """u' = F(u, t) with F an uninterpreted function (scalar, non-autonomous).  The implicit solve returns a fresh variable w with the
    axiom  w - factor*F(w) = rhs  (recorded in .axioms) -- unless the initial guess already solves the equation
    under the axioms registered via .hint(), in which case the guess is returned (contract of C12)."""

    dtype_u = SymMesh
    dtype_f = SymMesh
    # non-autonomous: F(u, t), so that evaluation times matter too
    F = z3.Function('F', z3.RealSort(), z3.RealSort(), z3.RealSort())

    def __init__(self, name='F'):
        super().__init__(init=(1, None, ODT))
        self.axioms = []
        self.nw = 0
        # a coarser level may carry a DIFFERENT uninterpreted right-hand side (an arbitrary coarse problem, as with spatial coarsening)
        self.Fn = UFProb.F if name == 'F' else z3.Function(name, z3.RealSort(), z3.RealSort(), z3.RealSort())

    def eval_f(self, u, t):
        f = self.dtype_f(self.init)
        f[0] = SymReal(self.Fn(R(u[0]), R(t)))
        return f

    def solve_system(self, rhs, factor, u0, t):
        self.nw += 1
        w = z3.Real(f'w!{id(self) % 9973}!{self.nw}')
        self.axioms.append(w - R(factor) * self.Fn(w, R(t)) == R(rhs[0]))
        # uniqueness of the solution of the implicit equation (contract: the solve is a function of rhs, factor)
        self.axioms.append(z3.Implies(R(u0[0]) - R(factor) * self.Fn(R(u0[0]), R(t)) == R(rhs[0]), w == R(u0[0])))
        me = self.dtype_u(self.init)
        me[0] = SymReal(w)
        return me


class Inject(SpaceTransfer):
    """identity space transfer (same spatial grid on all levels)"""

    def restrict(self, F):
        return type(F)(F)

    def prolong(self, G):
        return type(G)(G)


class DenseDot:
    """stands in for a scipy.sparse matrix after the real code has built it: exact dense product"""

    def __init__(self, sp):
        self.A = np.asarray(sp.todense() if hasattr(sp, 'todense') else sp, dtype=float)
        self.shape = self.A.shape
        self.Afr = [[frac(a) for a in row] for row in self.A]

    def dot(self, v):
        v = np.asarray(v).view(np.ndarray)
        out = np.empty(self.shape[0], dtype=object)
        for i in range(self.shape[0]):
            acc = 0
            for j in range(self.shape[1]):
                a = self.Afr[i][j]
                if a != 0:
                    acc = acc + v[j] * a
            out[i] = acc
        return out

    def __matmul__(self, v):
        return self.dot(v)


# ------------------------------------------------------------------------------------------ helpers


def fresh_mesh(P, base, cls=None, n=None):
    """mesh of fresh real variables base_0 .. base_{n-1}; returns (mesh, [z3 vars])"""
    n = n if n is not None else (P.init[0] if isinstance(P.init[0], int) else int(np.prod(P.init[0])))
    vs = [z3.Real(f'{base}_{i}') for i in range(n)]
    m = (cls or P.dtype_u)(P.init)
    m[:] = [SymReal(v) for v in vs]
    return m, vs


def terms(m):
    return [R(x) for x in np.asarray(m).view(np.ndarray).ravel()]

#!/bin/bash
# dev aid: WTP=/tmp/wtG_ OUT=/dev/shm/r15 SEEDS="C05 C16" dev/confirm_seeds.sh -- runs the test files around each seed's module on the patched scratch worktree and compares with the baseline list
mkdir -p ${OUT:-/dev/shm/r15}
# confirm round-14 seeds against the existing tests (patched worktree vs. the BASELINE stable-pass list)
T=pySDC/tests
declare -A F
F[C01]="$T/test_sweepers/test_compute_end_point.py $T/test_sweepers/test_imexsweeper.py $T/test_sweepers/test_preconditioners.py $T/test_tutorials/test_step_1.py $T/test_tutorials/test_step_2.py"
F[C04]="${F[C01]}"
F[C02]="$T/test_sweepers/test_preconditioners.py $T/test_convergence_controllers/test_adaptive_collocation.py $T/test_convergence_controllers/test_check_convergence.py $T/test_sweepers/test_imexsweeper.py $T/test_sweepers/test_compute_end_point.py"
F[C03]="${F[C02]} $T/test_tutorials/test_step_5.py $T/test_tutorials/test_step_6.py"
F[C05]="$T/test_collocation.py $T/test_Q_transfer.py $T/test_sweepers/test_compute_end_point.py"
F[C06]="$T/tests_core.py $T/test_controllers $T/test_convergence_controllers/test_adaptivity.py $T/test_convergence_controllers/test_basic_restarting.py $T/test_convergence_controllers/test_step_size_limiter.py $T/test_tutorials/test_step_4.py $T/test_hooks"
F[C20]="${F[C06]} $T/test_tutorials/test_step_5.py $T/test_tutorials/test_step_8.py"
F[C07]="$T/test_hooks $T/test_convergence_controllers/test_check_convergence.py $T/test_convergence_controllers/test_basic_restarting.py $T/test_tutorials/test_step_5.py $T/test_tutorials/test_step_6.py $T/tests_core.py"
F[C19]="${F[C07]} $T/test_convergence_controllers/test_step_size_limiter.py"
F[C09]="$T/test_convergence_controllers/test_InterpolateBetweenRestarts.py $T/test_convergence_controllers/test_adaptivity.py $T/test_convergence_controllers/test_basic_restarting.py $T/test_convergence_controllers/test_step_size_limiter.py"
F[C10]="$T/test_transfer_classes $T/test_tutorials/test_step_4.py $T/test_tutorials/test_step_5.py $T/test_convergence_controllers/test_polynomial_error.py"
F[C11]="$T/test_transfer_classes $T/test_tutorials/test_step_4.py $T/test_tutorials/test_step_5.py"
F[C14]="$T/test_hooks $T/test_controllers/test_controller_ParaDiag_nonMPI.py $T/test_sweepers/test_Multistep_sweeper.py"
F[C15]="$T/test_controllers/test_controller_ParaDiag_nonMPI.py $T/test_sweepers/test_ParaDiag_sweepers.py $T/test_helpers/test_ParaDiagHelper.py $T/test_tutorials/test_step_9.py"
F[C16]="$T/test_helpers/test_fieldsIO.py $T/test_hooks/test_log_to_file.py"
F[C17]="$T/test_helpers/test_spectral_helper.py $T/test_helpers/test_spectral_helper_1d_chebychev.py $T/test_helpers/test_spectral_helper_1d_fft.py $T/test_helpers/test_spectral_helper_1d_ultraspherical.py"
F[C18]="$T/test_helpers/test_problem_helper.py $T/test_problems/test_AllenCahn_1D_FD.py $T/test_transfer_classes/test_mesh_to_mesh.py $T/test_tutorials/test_step_1.py"
for P in ${SEEDS:-C05 C16 C18 C15 C09 C11 C10 C14 C01 C04 C02 C03 C06 C20 C07 C19 C17}; do
  WT=${WTP:-/tmp/wtG_}$P
  cd $WT || continue
  # test files chosen by the module the patch changes (fallback: by property)
  mod=$(grep -m1 '^+++ b/' seed_out/patch.diff | sed 's#^+++ b/##')
  L="${F[$P]}"
  case "$mod" in
    *core/collocation.py) L="${F[C05]}";;
    *ParaDiag*) L="${F[C15]}";;
    *core/sweeper.py|*sweeper_classes/*) L="${F[C03]} $T/test_sweepers/test_Runge_Kutta_sweeper.py";;
    *core/step.py|*core/level.py|*core/controller.py|*pysdc_helper.py|*core/common.py|*core/convergence_controller.py) L="${F[C20]} $T/test_convergence_controllers/test_check_convergence.py";;
    *controller_nonMPI.py) L="${F[C19]} $T/test_controllers";;
    *convergence_controller_classes/*) L="${F[C09]} $T/test_convergence_controllers/test_check_convergence.py $T/test_convergence_controllers/test_adaptive_collocation.py $T/test_convergence_controllers/test_polynomial_error.py $T/test_convergence_controllers/test_error_convergence_controllers.py $T/test_convergence_controllers/test_Newton_inexactness.py $T/test_convergence_controllers/test_extrapolation_within_Q.py";;
    *base_transfer.py|*transfer_classes/*|*transfer_helper.py) L="${F[C10]} $T/test_helpers/test_transfer_helper.py";;
    *hooks/*|*stats_helper.py|*core/hooks.py) L="${F[C14]} $T/test_helpers/test_stats_helper.py $T/test_convergence_controllers/test_basic_restarting.py";;
    *ParaDiag*) L="${F[C15]}";;
    *fieldsIO.py|*log_to_file.py) L="${F[C16]}";;
    *spectral_helper.py) L="${F[C17]}";;
    *problem_helper.py) L="${F[C18]}";;
  esac
  L=$(for f in $L; do [ -e "$f" ] && echo $f; done | sort -u | tr '\n' ' ')
  git checkout -q -- . ; git apply seed_out/patch.diff || { echo "$P PATCH-FAIL"; continue; }
  OMP_NUM_THREADS=1 nice -n 5 timeout 2400 /venv/bin/python -m pytest -q -p no:cacheprovider -x -W ignore --junitxml=${OUT:-/dev/shm/r15}/$P.xml $L --co -q >/dev/null 2>&1
  OMP_NUM_THREADS=1 nice -n 5 timeout 2400 /venv/bin/python -m pytest -q -p no:cacheprovider -W ignore --junitxml=${OUT:-/dev/shm/r15}/$P.xml $L > ${OUT:-/dev/shm/r15}/$P.log 2>&1
  git checkout -q -- .
  echo "$P $(cd /verif; /venv/bin/python dev/compare_baseline.py ${OUT:-/dev/shm/r15}/$P.xml 2>&1 | tail -2 | tr '\n' ' ')"
done
echo ALLDONE

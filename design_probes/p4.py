import time, numpy as np, z3, sys, logging, math
from fractions import Fraction
from symx import *
from pySDC.core.level import Level
from pySDC.core.problem import Problem
from pySDC.implementations.datatype_classes.mesh import mesh
from pySDC.implementations.sweeper_classes.generic_implicit import generic_implicit
from pySDC.implementations.sweeper_classes.explicit import explicit
logging.disable(logging.CRITICAL)
class SymLin(Problem):
    dtype_u = mesh; dtype_f = mesh
    def __init__(self, lam):
        super().__init__(init=(1, None, np.dtype('O'))); self.lam = lam
    def eval_f(self,u,t):
        f = self.dtype_f(self.init); f[:] = u*self.lam; return f
    def solve_system(self, rhs, factor, u0, t):
        me = self.dtype_u(self.init); me[:] = rhs/(1 - factor*self.lam); return me
def stab(cls, M, qd, k, quad='RADAU-RIGHT', mutate=False):
    z=z3.Real('z')
    key='QI' if cls is generic_implicit else 'QE'
    L = Level(SymLin, {'lam':S(z)}, cls, {'num_nodes':M,'quad_type':quad,key:qd}, {'dt':S(1)}, 0)
    Ctx.cur=Ctx()
    P=L.prob; L.status.time=S(0)
    u0=P.dtype_u(P.init); u0[0]=S(1); L.u[0]=u0
    if mutate: L.sweep.coll.Qmat[M, 1] += 1e-3
    L.sweep.predict()
    for _ in range(k): L.sweep.update_nodes()
    L.sweep.compute_end_point()
    return z, L.uend[0].t, L.sweep.coll.order, L
def check(cls,M,qd,k,r=0.25,C=5,eps=1e-10,**kw):
    z,Rz,p,L=stab(cls,M,qd,k,**kw)
    q=min(k,p)
    def pw(x,n):
        r=z3.RealVal(1)
        for _ in range(n): r=r*x
        return r
    T=sum(pw(z,j)*R(Fraction(1,math.factorial(j))) for j in range(q+1))
    s=z3.Solver(); s.set('timeout',120000)
    s.add(z>=-R(r), z<=R(r))
    if cls is generic_implicit:
        for m in range(1,M+1): s.add(1-R(L.sweep.QI[m,m])*z != 0)
    d=Rz-T; az=z3.If(z>=0,z,-z)
    bound=R(C)*pw(az,q+1)+R(eps)
    s.add(z3.Or(d>bound, -d>bound))
    t=time.time(); r_=s.check(); el=time.time()-t
    return str(r_), round(el,2), (s.model()[z] if str(r_)=='sat' else None)
for cls,qd in ((generic_implicit,'IE'),(generic_implicit,'LU'),(explicit,'EE')):
    for M in (2,3):
        for k in (1,2,3,4,5):
            print(cls.__name__,qd,M,k,check(cls,M,qd,k), flush=True)
print('mutant', check(generic_implicit,3,'LU',4,mutate=True))

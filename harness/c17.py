"""C17 -- spectral helper matrices agree with exact polynomial calculus   (weak fit, engine C, reduced scope)

Claimed: the explicit operator matrices of ChebychevHelper and UltrasphericalHelper (differentiation, integration, basis conversion,
Dirichlet / Neumann / integral boundary rows, integration weights) and the Kronecker expansion.  The oracle does NOT re-use the sparse
formulas of the implementation: coefficient vectors are mapped to the MONOMIAL basis with exact integer/rational recurrences for T_n, U_n and
the Gegenbauer polynomials C_n^(lambda); differentiation, integration and evaluation are then ordinary polynomial calculus.  Per operator one
SMT query (QF_LRA): for every coefficient vector in [-1,1]^N the matrix result and the exact operation have the same monomial coefficients.
The Fourier operator matrices are checked against the analytic wavenumber formula the property names, and - without any formula - by the relations
'integration inverts differentiation on zero-mean data' and interval covariance.  NOT claimed (outside): the DCT / FFT transforms themselves
(scipy.fft cannot take symbolic data)."""
import itertools
import json
import math
from fractions import Fraction

import numpy as np
import z3

from symx.core import rv, frac, prove, model_value

from pySDC.helpers.spectral_helper import ChebychevHelper, UltrasphericalHelper, SpectralHelper, FFTHelper

PID = 'C17'
BOUNDS = {'quick': dict(N='2..8', derivative_orders='1..3', intervals='[-1,1] [0,1] [-2,5]'), 'thorough': dict(N='2..16')}


def describe(rep):
    rep.func(ChebychevHelper.get_differentiation_matrix, ChebychevHelper.get_integration_matrix, ChebychevHelper.get_conv, ChebychevHelper.get_Dirichlet_BC_row,
             ChebychevHelper.get_Neumann_BC_row, ChebychevHelper.get_integ_BC_row, ChebychevHelper.get_integration_weights, UltrasphericalHelper.get_differentiation_matrix,
             UltrasphericalHelper.get_S, UltrasphericalHelper.get_basis_change_matrix, UltrasphericalHelper.get_integration_matrix, SpectralHelper.expand_matrix_ND)
    rep.explanation = __doc__
    rep.rule = 'case = (helper, N, operator, derivative order / interval; N-D tensor-product cases also on long / short intervals with derivative orders 1-3, tolerance relative to the largest 1-D entry; grids: every N in 1..64 on nine intervals, ENUMERATED); one SMT query over all coefficient vectors in the unit box'
    rep.assume('tolerance 1e-10 * (sum of absolute monomial conversion coefficients): the matrices are float64',
               'the interval map is x = fac * s + off with s in [-1,1]; operators that carry the map are checked on [x0,x1] = [-1,1], [0,1], [-2,5]')
    rep.out_of_scope('transforms in more than one dimension, padded / truncated transforms (shape argument), MPI transforms',
                     'N > 16 (quick: 8); the property ranges to 64', 'GPU / MPI code paths')


def tasks(tier, seed):
    T = []
    Ns = range(2, 9) if tier == 'quick' else range(2, 17)
    for N in Ns:
        T.append(('cheb', N))
        T.append(('ultra', N))
        T.append(('fft', N))
    for N in ((2, 3, 4, 5, 8) if tier == 'quick' else (2, 3, 4, 5, 6, 7, 8, 12, 16)):
        T.append(('transform', N))
    T.append(('edge',))
    T.append(('fftgrid',))
    for N0, seq in ((6, ((4, True), (6, True), (8, True), (5, True), (4, True), (3, False), (7, False), (3, False))), (3, ((5, False), (2, True), (5, True), (2, False)))):
        T.append(('sizes', N0, seq))
    T.append(('kron',))
    T.append(('kronconv',))
    T.append(('bcnd',))
    return T


def run_task(rep, task):
    if task[0] == 'cheb':
        cheb_case(rep, task[1])
    elif task[0] == 'ultra':
        ultra_case(rep, task[1])
    elif task[0] == 'fft':
        fft_case(rep, task[1])
    elif task[0] == 'transform':
        transform_case(rep, task[1])
    elif task[0] == 'edge':
        edge_case(rep)
    elif task[0] == 'fftgrid':
        fftgrid_case(rep)
    elif task[0] == 'sizes':
        sizes_case(rep, task[1], task[2])
    elif task[0] == 'kron':
        kron_case(rep)
    elif task[0] == 'kronconv':
        kronconv_case(rep)
    elif task[0] == 'bcnd':
        bcnd_case(rep)


# ------------------------------------------------------------------------------------------------ exact polynomial bases (monomial coefficients)


def padd(a, b):
    n = max(len(a), len(b))
    return [(a[i] if i < len(a) else 0) + (b[i] if i < len(b) else 0) for i in range(n)]


def pscale(a, c):
    return [x * c for x in a]


def pshift(a):
    return [Fraction(0)] + list(a)


def cheb_T(n):
    T = [[Fraction(1)], [Fraction(0), Fraction(1)]]
    for k in range(2, n + 1):
        T.append(padd(pscale(pshift(T[k - 1]), 2), pscale(T[k - 2], -1)))
    return T[: n + 1]


def cheb_U(n):
    U = [[Fraction(1)], [Fraction(0), Fraction(2)]]
    for k in range(2, n + 1):
        U.append(padd(pscale(pshift(U[k - 1]), 2), pscale(U[k - 2], -1)))
    return U[: n + 1]


def gegenbauer(lam, n):
    """C_k^(lam), k = 0..n; lam = 0 stands for the Chebyshev-T basis"""
    if lam == 0:
        return cheb_T(n)
    C = [[Fraction(1)], [Fraction(0), Fraction(2 * lam)]]
    for k in range(2, n + 1):
        C.append(padd(pscale(pshift(C[k - 1]), Fraction(2 * (k + lam - 1), k)), pscale(C[k - 2], -Fraction(k + 2 * lam - 2, k))))
    return C[: n + 1]


def to_mono(basis, coeff_terms):
    """monomial coefficients (z3 terms) of sum_k c_k basis_k"""
    N = len(coeff_terms)
    out = [z3.RealVal(0)] * N
    for k in range(N):
        for i, b in enumerate(basis[k]):
            if b != 0 and i < N:
                out[i] = out[i] + rv(b) * coeff_terms[k]
    return out


def mono_deriv(m, p=1):
    for _ in range(p):
        m = [m[i] * i for i in range(1, len(m))] + [z3.RealVal(0)]
    return m


def mono_eval(m, x):
    x = Fraction(x)
    return sum(rv(x**i) * m[i] for i in range(len(m)))


def mono_integral(m, a, b):
    a, b = Fraction(a), Fraction(b)
    return sum(rv((b ** (i + 1) - a ** (i + 1)) / (i + 1)) * m[i] for i in range(len(m)))


def matvec(Mx, c):
    Mx = np.asarray(Mx.todense() if hasattr(Mx, 'todense') else Mx, dtype=float)
    return [sum(rv(Mx[i, j]) * c[j] for j in range(Mx.shape[1]) if Mx[i, j] != 0) if np.any(Mx[i]) else z3.RealVal(0) for i in range(Mx.shape[0])]


def box(vs):
    return [z3.And(v >= -1, v <= 1) for v in vs]


def close(a, b, tol):
    return z3.And([z3.And(x - y <= tol, y - x <= tol) for x, y in zip(a, b)])


def decide(rep, name, goal, cvars, what, concrete=None):
    res, m = prove(goal, box(cvars), timeout_ms=120000, name=name)
    rep.ob(name, res)
    if res == 'sat':
        rep.replayed += 1
        c = np.array([float(model_value(m, v)) for v in cvars])
        dev = concrete(c) if concrete else None
        if dev is None or dev > 1e-8:
            rep.violation(f'{PID}/{what}', f'{name}: coefficient vector {c.tolist()} -> deviation {dev}', {'task': name, 'coefficients': c.tolist(), 'deviation': dev})
        else:
            rep.unreproduced(name, {'c': c.tolist(), 'dev': dev})


def c2p(cv, N):
    """monomial coefficients of a Chebyshev series, padded / cut to length N"""
    out = np.zeros(N)
    q = np.polynomial.chebyshev.cheb2poly(np.asarray(cv, dtype=float)) if len(cv) > 0 else np.zeros(0)
    out[: min(N, len(q))] = q[:N]
    return out


def pder(m, p, N):
    out = np.zeros(N)
    q = np.polynomial.polynomial.polyder(np.asarray(m, dtype=float), p) if len(m) > p else np.zeros(1)
    out[: min(N, len(q))] = q[:N]
    return out


def basis_scale(basis, N):
    return sum(abs(b) for k in range(N) for b in basis[k])


def cheb_case(rep, N):
    c = [z3.Real(f'c{k}') for k in range(N)]
    Tb, Ub = cheb_T(N), cheb_U(N)
    sT = basis_scale(Tb, N)
    for (x0, x1) in ((-1, 1), (0, 1), (-2, 5)):
        H = ChebychevHelper(N, x0=x0, x1=x1)
        fac = Fraction(x1 - x0, 2)
        for p in (1, 2, 3):
            if p >= N:
                continue
            name = f'cheb/N{N}/[{x0},{x1}]/D{p}'
            D = np.asarray(H.get_differentiation_matrix(p=p).todense())
            got = to_mono(Tb, matvec(D, c))
            ex = [t * rv(1 / fac**p) for t in mono_deriv(to_mono(Tb, c), p)]
            tol = rv(Fraction(1, 10**10) * sT * N**(2 * p) / fac**p)
            decide(rep, name, close(got, ex, tol), c, 'chebychev/differentiation',
                   lambda cv, D=D, p=p, fac=fac: float(np.abs(c2p(D @ cv, N) - pder(c2p(cv, N), p, N) / float(fac)**p).max()))
        # Dirichlet rows on any interval (values at the mapped points s = -1, 0, 1)
        for s in (-1, 0, 1):
            row = np.asarray(H.get_Dirichlet_BC_row(s), dtype=float)
            got = sum(rv(row[k]) * c[k] for k in range(N))
            ex = mono_eval(to_mono(Tb, c), s)
            tol = rv(Fraction(1, 10**10) * sT)
            decide(rep, f'cheb/N{N}/[{x0},{x1}]/dirichlet-row/{s}', z3.And(got - ex <= tol, ex - got <= tol), c, 'chebychev/dirichlet-row',
                   lambda cv, row=row, s=s: float(abs(row @ cv - np.polynomial.chebyshev.chebval(s, cv))))
        # integration weights: integral over the interval
        w = np.asarray(H.get_integration_weights(), dtype=float)
        got = sum(rv(w[k]) * c[k] for k in range(N))
        ex = mono_integral(to_mono(Tb, c), -1, 1) * rv(fac)
        tol = rv(Fraction(1, 10**10) * sT * max(1, fac))
        decide(rep, f'cheb/N{N}/[{x0},{x1}]/integration-weights', z3.And(got - ex <= tol, ex - got <= tol), c, 'chebychev/integration-weights',
               lambda cv, w=w, fac=fac: float(abs(w @ cv - float(fac) * np.diff(np.polynomial.chebyshev.chebval([-1, 1], np.polynomial.chebyshev.chebint(cv)))[0])))
    # reference interval only (documented): integration matrix, Neumann and integral rows, basis conversions
    H = ChebychevHelper(N)
    S = np.asarray(H.get_integration_matrix(lbnd=0).todense())
    # antiderivative vanishing at 0 of polynomials of degree <= N-2 (the result must still fit into N coefficients)
    cc = c[: N - 1] + [z3.RealVal(0)]
    anti = to_mono(Tb, matvec(S, cc))
    ex = to_mono(Tb, cc)
    tol = rv(Fraction(1, 10**10) * sT * N)
    goal = z3.And(close(mono_deriv(anti), ex, tol), z3.And(anti[0] <= tol, -anti[0] <= tol))
    decide(rep, f'cheb/N{N}/integration-matrix', goal, c[: N - 1], 'chebychev/integration-matrix',
           lambda cv, S=S: float(np.abs(np.pad(np.polynomial.chebyshev.chebder(S @ np.append(cv, 0)), (0, N))[: N] - np.append(cv, 0)).max()))
    for s, nm in ((-1, 'left'), (1, 'right')):
        row = np.real(np.asarray(H.get_Neumann_BC_row(s))).astype(float)
        got = sum(rv(row[k]) * c[k] for k in range(N))
        ex = mono_eval(mono_deriv(to_mono(Tb, c)), s)
        tol = rv(Fraction(1, 10**10) * sT * N * N)
        decide(rep, f'cheb/N{N}/neumann-row/{nm}', z3.And(got - ex <= tol, ex - got <= tol), c, 'chebychev/neumann-row',
               lambda cv, row=row, s=s: float(abs(row @ cv - np.polynomial.chebyshev.chebval(s, np.polynomial.chebyshev.chebder(cv)))))
    row = np.asarray(H.get_integ_BC_row(), dtype=float)
    got = sum(rv(row[k]) * c[k] for k in range(N))
    ex = mono_integral(to_mono(Tb, c), -1, 1)
    tol = rv(Fraction(1, 10**10) * sT)
    decide(rep, f'cheb/N{N}/integral-row', z3.And(got - ex <= tol, ex - got <= tol), c, 'chebychev/integral-row',
           lambda cv, row=row: float(abs(row @ cv - np.diff(np.polynomial.chebyshev.chebval([-1, 1], np.polynomial.chebyshev.chebint(cv)))[0])))
    T2U = np.asarray(H.get_conv('T2U').todense())
    U2T = np.asarray(H.get_conv('U2T').todense())
    tol = rv(Fraction(1, 10**10) * basis_scale(Ub, N))
    decide(rep, f'cheb/N{N}/T2U', close(to_mono(Ub, matvec(T2U, c)), to_mono(Tb, c), tol), c, 'chebychev/T2U',
           lambda cv: float(np.abs(T2U @ cv - np.linalg.solve(np.array([[float(x) for x in (Ub[k] + [0] * N)[:N]] for k in range(N)]).T, c2p(cv, N))).max()))
    decide(rep, f'cheb/N{N}/U2T-inverts-T2U', close(matvec(U2T, matvec(T2U, c)), c, rv(Fraction(1, 10**10) * N)), c, 'chebychev/conversion-inverse',
           lambda cv: float(np.abs(U2T @ (T2U @ cv) - cv).max()))
    rep.sample({'case': f'cheb/N{N}', 'free': 'Chebyshev coefficient vector in [-1,1]^N', 'oracle': 'exact monomial calculus'}, limit=4)


def ultra_case(rep, N):
    c = [z3.Real(f'c{k}') for k in range(N)]
    Tb = cheb_T(N)
    for (x0, x1) in ((-1, 1), (0, 1), (-2, 5)):
        H = UltrasphericalHelper(N, x0=x0, x1=x1)
        fac = Fraction(x1 - x0, 2)
        for p in (1, 2, 3):
            if p >= N:
                continue
            Cb = gegenbauer(p, N)
            D = np.asarray(H.get_differentiation_matrix(p=p).todense())
            got = to_mono(Cb, matvec(D, c))
            ex = [t * rv(1 / fac**p) for t in mono_deriv(to_mono(Tb, c), p)]
            tol = rv(Fraction(1, 10**10) * basis_scale(Cb, N) * N**p * math.factorial(p) * 2**p / fac**p)
            Cm = np.array([[float(x) for x in (Cb[k] + [0] * N)[:N]] for k in range(N)]).T
            decide(rep, f'ultra/N{N}/[{x0},{x1}]/D{p}', close(got, ex, tol), c, 'ultraspherical/differentiation',
                   lambda cv, D=D, p=p, fac=fac, Cm=Cm: float(np.abs(Cm @ (D @ cv) - pder(c2p(cv, N), p, N) / float(fac)**p).max()))
        # basis conversions C^(l_in) -> C^(l_out) and their inverses
        for (pi, po) in ((0, 1), (1, 2), (0, 2), (2, 3), (0, 3)):
            Bin, Bout = gegenbauer(pi, N), gegenbauer(po, N)
            Mx = np.asarray(H.get_basis_change_matrix(p_in=pi, p_out=po).todense())
            tol = rv(Fraction(1, 10**10) * basis_scale(Bout, N))
            decide(rep, f'ultra/N{N}/[{x0},{x1}]/S{pi}->{po}', close(to_mono(Bout, matvec(Mx, c)), to_mono(Bin, c), tol), c, 'ultraspherical/basis-change', lambda cv: None)
            if (x0, x1) == (-1, 1):
                Mi = np.asarray(H.get_basis_change_matrix(p_in=po, p_out=pi).todense())
                decide(rep, f'ultra/N{N}/S{po}->{pi}-inverts', close(matvec(Mi, matvec(Mx, c)), c, rv(Fraction(1, 10**9) * N)), c, 'ultraspherical/conversion-inverse',
                       lambda cv, Mi=Mi, Mx=Mx: float(np.abs(Mi @ (Mx @ cv) - cv).max()))
        # integration matrix: derivative of the result is the input (degree <= N-2)
        S = np.asarray(H.get_integration_matrix().todense())
        cc = c[: N - 1] + [z3.RealVal(0)]
        anti = to_mono(Tb, matvec(S, cc))
        ex = [t * rv(fac) for t in to_mono(Tb, cc)]
        tol = rv(Fraction(1, 10**10) * basis_scale(Tb, N) * N * max(1, fac))
        decide(rep, f'ultra/N{N}/[{x0},{x1}]/integration-matrix', close(mono_deriv(anti), ex, tol), c[: N - 1], 'ultraspherical/integration-matrix', lambda cv: None)
        # agreement of the sparse ultraspherical differentiation with the dense Chebyshev one after conversion:  S_{0->p} D_cheb^p = D_ultra^p
        Hc = ChebychevHelper(N, x0=x0, x1=x1)
        for p in (1, 2):
            if p >= N:
                continue
            Dc = np.asarray(Hc.get_differentiation_matrix(p=p).todense())
            Du = np.asarray(H.get_differentiation_matrix(p=p).todense())
            Sp = np.asarray(H.get_basis_change_matrix(p_in=0, p_out=p).todense())
            tol = rv(Fraction(1, 10**9) * N**(2 * p) / min(1, fac) ** p)
            decide(rep, f'ultra/N{N}/[{x0},{x1}]/agrees-with-dense-chebyshev/D{p}', close(matvec(Sp, matvec(Dc, c)), matvec(Du, c), tol), c, 'ultraspherical/agrees-with-chebyshev',
                   lambda cv, Sp=Sp, Dc=Dc, Du=Du: float(np.abs(Sp @ (Dc @ cv) - Du @ cv).max()))
        # boundary rows and integration weights of the ultraspherical helper (inherited from the Chebyshev helper, the coefficients are T coefficients;
        # methods that the subclass overrides -- the differentiation matrix -- must not change them)
        sT = basis_scale(Tb, N)
        for s_ in (-1, 0, 1):
            row = np.real(np.asarray(H.get_Dirichlet_BC_row(s_))).astype(float)
            got = sum(rv(row[k]) * c[k] for k in range(N))
            ex = mono_eval(to_mono(Tb, c), s_)
            tol = rv(Fraction(1, 10**10) * sT)
            decide(rep, f'ultra/N{N}/[{x0},{x1}]/dirichlet-row/{s_}', z3.And(got - ex <= tol, ex - got <= tol), c, 'ultraspherical/dirichlet-row',
                   lambda cv, row=row, s_=s_: float(abs(row @ cv - np.polynomial.chebyshev.chebval(s_, cv))))
        w = np.real(np.asarray(H.get_integration_weights())).astype(float)
        got = sum(rv(w[k]) * c[k] for k in range(N))
        ex = mono_integral(to_mono(Tb, c), -1, 1) * rv(fac)
        tol = rv(Fraction(1, 10**10) * sT * max(1, fac))
        decide(rep, f'ultra/N{N}/[{x0},{x1}]/integration-weights', z3.And(got - ex <= tol, ex - got <= tol), c, 'ultraspherical/integration-weights',
               lambda cv, w=w, fac=fac: float(abs(w @ cv - float(fac) * np.diff(np.polynomial.chebyshev.chebval([-1, 1], np.polynomial.chebyshev.chebint(cv)))[0])))
        if (x0, x1) == (-1, 1):  # (Neumann and integral rows are documented for the reference interval)
            for s_, nm in ((-1, 'left'), (1, 'right')):
                row = np.real(np.asarray(H.get_Neumann_BC_row(s_))).astype(float)
                got = sum(rv(row[k]) * c[k] for k in range(N))
                ex = mono_eval(mono_deriv(to_mono(Tb, c)), s_)
                tol = rv(Fraction(1, 10**10) * sT * N * N)
                decide(rep, f'ultra/N{N}/neumann-row/{nm}', z3.And(got - ex <= tol, ex - got <= tol), c, 'ultraspherical/neumann-row',
                       lambda cv, row=row, s_=s_: float(abs(row @ cv - np.polynomial.chebyshev.chebval(s_, np.polynomial.chebyshev.chebder(cv)))))
            row = np.real(np.asarray(H.get_integ_BC_row())).astype(float)
            got = sum(rv(row[k]) * c[k] for k in range(N))
            ex = mono_integral(to_mono(Tb, c), -1, 1)
            decide(rep, f'ultra/N{N}/integral-row', z3.And(got - ex <= rv(Fraction(1, 10**10) * sT), ex - got <= rv(Fraction(1, 10**10) * sT)), c, 'ultraspherical/integral-row',
                   lambda cv, row=row: float(abs(row @ cv - np.diff(np.polynomial.chebyshev.chebval([-1, 1], np.polynomial.chebyshev.chebint(cv)))[0])))
    rep.sample({'case': f'ultra/N{N}', 'free': 'coefficient vector in [-1,1]^N', 'oracle': 'Gegenbauer polynomials by exact three-term recurrence'}, limit=4)


def transform_case(rep, N):
    """transform / itransform are linear: their matrices are read off the REAL functions by feeding unit vectors (DCT / FFT run concretely); the solver
    then decides over all data in the unit box that they are inverse to each other and that the transform of the grid values of a Chebyshev series
    returns its coefficients (values from exact three-term recurrences); the Fourier synthesis of a unit coefficient is the mode exp(i k (x - x0))"""
    from pySDC.helpers.spectral_helper import ChebychevHelper, UltrasphericalHelper, FFTHelper

    tol = rv(Fraction(1, 10**10))
    for cls, tag in ((ChebychevHelper, 'cheb'), (UltrasphericalHelper, 'ultra')):
        for (x0, x1) in ((-1.0, 1.0), (1.0, 3.0), (-0.5, 0.25)):
            name = f'transform/{tag}/N{N}/[{x0},{x1}]'
            h = cls(N, x0=x0, x1=x1)
            Tm = np.array([h.transform(np.eye(N)[:, j].copy()) for j in range(N)]).T
            Sm = np.array([h.itransform(np.eye(N)[:, j].copy()) for j in range(N)]).T
            u = [z3.Real(f'u{j}') for j in range(N)]
            decide(rep, f'{name}:itransform-after-transform', close(matvec(Sm, matvec(Tm, u)), u, tol), u, 'transform/round-trip',
                   concrete=lambda c, h=h: float(np.abs(h.itransform(h.transform(c.copy())) - c).max()))
            decide(rep, f'{name}:transform-after-itransform', close(matvec(Tm, matvec(Sm, u)), u, tol), u, 'transform/round-trip',
                   concrete=lambda c, h=h: float(np.abs(h.transform(h.itransform(c.copy())) - c).max()))
            # values of T_n at the grid (mapped to the reference interval) from the exact recurrence, exact rational arithmetic on the float grid
            xg = [Fraction(float(x)) for x in h.get_1dgrid()]
            xi = [(2 * x - (Fraction(x0) + Fraction(x1))) / (Fraction(x1) - Fraction(x0)) for x in xg]
            Tn = cheb_T(N)
            a = [z3.Real(f'a{n}') for n in range(N)]
            pe = lambda m_, x_: sum((Fraction(m_[i]) * x_**i for i in range(len(m_))), Fraction(0))
            vals = [sum((rv(pe(Tn[n], xi[j])) * a[n] for n in range(N)), rv(0)) for j in range(N)]
            decide(rep, f'{name}:coefficients-of-a-Chebyshev-series', close(matvec(Tm, vals), a, tol), a, 'transform/coefficients',
                   concrete=lambda c, h=h, x0=x0, x1=x1: float(np.abs(h.transform(np.polynomial.chebyshev.chebval((2 * h.get_1dgrid() - (x0 + x1)) / (x1 - x0), c)) - c).max()))
    for (x0, x1) in ((0.0, 2 * np.pi), (0.5, 2.5)):
        name = f'transform/fft/N{N}/[{x0:.3g},{x1:.3g}]'
        h = FFTHelper(N, x0=x0, x1=x1)
        Tm = np.array([h.transform(np.eye(N, dtype=complex)[:, j].copy()) for j in range(N)]).T
        Sm = np.array([h.itransform(np.eye(N, dtype=complex)[:, j].copy()) for j in range(N)]).T
        ur = [z3.Real(f'ur{j}') for j in range(N)]
        ui = [z3.Real(f'ui{j}') for j in range(N)]

        def capp(Mx, vr, vi):
            return ([a_ - b_ for a_, b_ in zip(matvec(Mx.real, vr), matvec(Mx.imag, vi))], [a_ + b_ for a_, b_ in zip(matvec(Mx.real, vi), matvec(Mx.imag, vr))])

        for lab, A_, B_ in (('itransform-after-transform', Tm, Sm), ('transform-after-itransform', Sm, Tm)):
            r1, i1 = capp(A_, ur, ui)
            r2, i2 = capp(B_, r1, i1)
            fwd = (lambda c, h=h: h.itransform(h.transform(c))) if lab.startswith('itransform') else (lambda c, h=h: h.transform(h.itransform(c)))
            decide(rep, f'{name}:{lab}', close(r2 + i2, ur + ui, tol), ur + ui, 'transform/round-trip',
                   concrete=lambda c, fwd=fwd: float(np.abs(fwd((c[:N] + 1j * c[N:]).astype(complex)) - (c[:N] + 1j * c[N:])).max()))
        xg, k = h.get_1dgrid(), h.get_wavenumbers()
        modes = np.exp(1j * np.outer(np.asarray(xg) - x0, k)) / N
        rep.side(f'{name}:synthesis-of-a-unit-coefficient-is-its-mode', bool(np.abs(Sm - modes).max() < 1e-12), {'max_deviation': float(np.abs(Sm - modes).max())})
        rep.side(f'{name}:grid-and-wavenumbers', bool(np.allclose(xg, x0 + (x1 - x0) * np.arange(N) / N, atol=1e-14) and np.allclose(k, 2 * np.pi / (x1 - x0) * np.fft.fftfreq(N, 1.0 / N), atol=1e-12)))
    rep.sample({'case': f'transform/N{N}', 'free': 'grid data / coefficient vectors in the unit box', 'tables': 'matrices of the real transforms from unit vectors'}, limit=2)


def fftgrid_case(rep):
    """the grids the operators are stated on, for EVERY resolution 1..64 (the operator cases take a few small N): the Fourier grid has exactly N points
    x0 + j (x1 - x0) / N, the wavenumbers are 2 pi / L times the integer frequencies; Chebyshev / ultraspherical grids have N points inside [x0, x1]
    (concrete data only: ENUMERATED over N and nine intervals)"""
    ivs = ((0.0, 2 * np.pi), (0.5, 2.5), (0.0, 1.0), (-2.0, 5.0), (3.0, 3.0 + 4 * np.pi), (0.1, 0.7), (-1.0, 1.0), (1.0, 1.3), (0.0, 0.3))
    for (x0, x1) in ivs:
        L = x1 - x0
        badF, badC = [], []
        for N in range(1, 65):
            try:
                h = FFTHelper(N, x0=x0, x1=x1)
                x = np.asarray(h.get_1dgrid(), dtype=float)
                k = np.asarray(h.get_wavenumbers(), dtype=float)
                ok = x.shape == (N,) and np.allclose(x, x0 + L * np.arange(N) / N, rtol=0, atol=1e-12 * max(1.0, abs(x0), abs(x1))) and k.shape == (N,) \
                    and np.allclose(k, 2 * np.pi / L * np.fft.fftfreq(N, 1.0 / N), rtol=1e-13, atol=1e-12)
            except Exception as e:
                ok = False
            if not ok:
                badF.append(N)
            for cls in (ChebychevHelper, UltrasphericalHelper):
                try:
                    xg = np.asarray(cls(N, x0=x0, x1=x1).get_1dgrid(), dtype=float)
                    okc = xg.shape == (N,) and np.all(xg >= x0 - 1e-12 * max(1, abs(x0))) and np.all(xg <= x1 + 1e-12 * max(1, abs(x1))) and len(set(np.round(xg, 13))) == N
                except Exception:
                    okc = N == 0
                if not okc:
                    badC.append((cls.__name__, N))
            rep.translator += 1
        rep.side(f'fftgrid/[{x0:.4g},{x1:.4g}]:N-equispaced-points-and-integer-wavenumbers-for-N-1..64', not badF, {'resolutions_failing': badF[:10]})
        rep.side(f'chebgrid/[{x0:.4g},{x1:.4g}]:N-distinct-points-inside-the-interval-for-N-1..64', not badC, {'failing': badC[:10]})


def edge_case(rep):
    """N = 1 (the property ranges over N = 1..64): the operators must exist and be the obvious 1x1 objects"""
    for cls, nm in ((ChebychevHelper, 'cheb'), (UltrasphericalHelper, 'ultra')):
        try:
            H = cls(1)
            D = np.asarray(H.get_differentiation_matrix().todense())
            ok = D.shape == (1, 1) and D[0, 0] == 0
            if cls is ChebychevHelper:
                T2U = np.asarray(H.get_conv('T2U').todense())
                ok = ok and T2U.shape == (1, 1) and T2U[0, 0] == 1
            else:
                Mx = np.asarray(H.get_basis_change_matrix(p_in=0, p_out=1).todense())
                ok = ok and Mx.shape == (1, 1) and Mx[0, 0] == 1
            rep.side(f'edge/{nm}/N1', ok)
        except Exception as e:
            rep.violation(f'{PID}/N1/{nm}', f'{cls.__name__}(1): operator construction raises {type(e).__name__}: {e}', {'task': 'edge', 'helper': cls.__name__, 'exception': str(e)})


def sizes_case(rep, N0, seq):
    """conversion matrices and the DCT normalisation requested with an explicit size on ONE long-lived helper, several sizes one after the other
    (positional and keyword): every answer is decided against exact calculus for the size that was asked for, whatever was asked before"""
    for cls, nm in ((ChebychevHelper, 'cheb'), (UltrasphericalHelper, 'ultra')):
        H = cls(N0)
        for i, (n, kw) in enumerate(seq):
            name = f'sizes/{nm}/N{N0}/call{i}/size{n}/' + ('kw' if kw else 'pos')
            c = [z3.Real(f'c{k}') for k in range(n)]
            Tb, Ub = cheb_T(n), cheb_U(n)
            get = (lambda code: H.get_conv(code, N=n)) if kw else (lambda code: H.get_conv(code, n))
            try:
                T2U = np.asarray(get('T2U').todense())
                U2T = np.asarray(get('U2T').todense())
                D2T = np.asarray(get('D2T').todense())
                T2D = np.asarray(get('T2D').todense())
                norm = np.asarray(H.get_norm(N=n) if kw else H.get_norm(n), dtype=float)
            except Exception as e:
                rep.replayed += 1
                rep.violation(f'{PID}/explicit-size/raises', f'{name}: {type(e).__name__}: {e}', {'task': ['sizes', N0, [list(x) for x in seq]], 'call': i})
                return
            shapes = [T2U.shape, U2T.shape, D2T.shape, T2D.shape, norm.shape]
            if shapes != [(n, n)] * 4 + [(n,)]:
                rep.replayed += 1
                rep.violation(f'{PID}/explicit-size/shape', f'{name}: conversion matrices / normalisation of size {n} requested, shapes delivered: {shapes} (requests before: {[x[0] for x in seq[:i]]})',
                              {'task': ['sizes', N0, [list(x) for x in seq]], 'call': i, 'shapes': [list(x) for x in shapes]})
                return
            tol = rv(Fraction(1, 10**10) * basis_scale(Ub, n))
            decide(rep, f'{name}/T2U', close(to_mono(Ub, matvec(T2U, c)), to_mono(Tb, c), tol), c, 'explicit-size/T2U',
                   lambda cv, T2U=T2U, Ub=Ub, n=n: float(np.abs(T2U @ cv - np.linalg.solve(np.array([[float(x) for x in (Ub[k] + [0] * n)[:n]] for k in range(n)]).T, c2p(cv, n))).max()))
            decide(rep, f'{name}/U2T-inverts-T2U', close(matvec(U2T, matvec(T2U, c)), c, rv(Fraction(1, 10**10) * n)), c, 'explicit-size/conversion-inverse',
                   lambda cv, T2U=T2U, U2T=U2T: float(np.abs(U2T @ (T2U @ cv) - cv).max()))
            # Dirichlet recombination D_k = T_k - T_{k-2} (k >= 2), D_0 = T_0, D_1 = T_1
            Db = [Tb[k] if k < 2 else padd(Tb[k], pscale(Tb[k - 2], -1)) for k in range(n)]
            decide(rep, f'{name}/D2T', close(to_mono(Tb, matvec(D2T, c)), to_mono(Db, c), tol), c, 'explicit-size/D2T',
                   lambda cv, D2T=D2T, n=n: float(np.abs(D2T @ cv - np.array([cv[k] - (cv[k + 2] if k + 2 < n else 0.0) for k in range(n)])).max()))
            decide(rep, f'{name}/T2D-inverts-D2T', close(matvec(T2D, matvec(D2T, c)), c, rv(Fraction(1, 10**10) * n * n)), c, 'explicit-size/conversion-inverse',
                   lambda cv, D2T=D2T, T2D=T2D: float(np.abs(T2D @ (D2T @ cv) - cv).max()))
            exn = np.ones(n) / n
            exn[0] /= 2
            rep.translator += 1
            if not np.allclose(norm, exn, rtol=1e-14, atol=0):
                rep.replayed += 1
                rep.violation(f'{PID}/explicit-size/norm', f'{name}: get_norm for resolution {n} gives {norm.tolist()}, DCT normalisation is {exn.tolist()}', {'task': ['sizes', N0, [list(x) for x in seq]], 'call': i})
                return
    rep.sample({'case': f'sizes/N{N0}', 'sequence_of_requested_sizes': [x[0] for x in seq], 'one_helper_instance': True}, limit=2)


def kron_case(rep):
    """multi-dimensional operators act as the tensor product of the 1-D ones (mixed bases), checked on an arbitrary symbolic coefficient array; also on
    long / short intervals and for higher derivatives, where the entries of the mapped operators are tiny or huge (tolerance relative to the largest entry)"""
    setups = [('chebychev', 3, {}, 'ultraspherical', 4, {}, (1,)), ('ultraspherical', 4, {}, 'chebychev', 3, {}, (1,)), ('chebychev', 4, {}, 'chebychev', 4, {}, (1, 2)),
              ('ultraspherical', 4, {'x0': 0.0, 'x1': 1e5}, 'chebychev', 4, {'x0': -1e-3, 'x1': 1e-3}, (1, 2, 3)), ('chebychev', 4, {'x0': 0.0, 'x1': 1e7}, 'ultraspherical', 4, {'x0': 5.0, 'x1': 3e5}, (2, 3)),
              ('fft', 4, {'x0': 0.0, 'x1': 2e5}, 'ultraspherical', 4, {}, (1, 3))]
    for (b0, N0, k0, b1, N1, k1, ps) in setups:
        H = SpectralHelper(debug=False)
        H.add_axis(base=b0, N=N0, **k0)
        H.add_axis(base=b1, N=N1, **k1)
        H.add_component('u')
        H.setup_fft()
        lab = f'{b0}{N0}' + (f'[{k0["x0"]:g},{k0["x1"]:g}]' if k0 else '') + f'x{b1}{N1}' + (f'[{k1["x0"]:g},{k1["x1"]:g}]' if k1 else '')
        for axis in (0, 1):
            for p in ps:
                name = f'kron/{lab}/D{p if p > 1 else ""}-axis{axis}'
                Dn = np.asarray(H.get_differentiation_matrix(axes=(axis,), p=p).todense()) if p > 1 else np.asarray(H.get_differentiation_matrix(axes=(axis,)).todense())
                D1 = np.asarray(H.axes[axis].get_differentiation_matrix(p=p).todense()) if p > 1 else np.asarray(H.axes[axis].get_differentiation_matrix().todense())
                if np.iscomplexobj(D1) or np.iscomplexobj(Dn):  # (Fourier axis: real and imaginary parts are decided separately)
                    parts = [('re', Dn.real, D1.real), ('im', Dn.imag, D1.imag)]
                else:
                    parts = [('', Dn, D1)]
                for plab, Dn_, D1_ in parts:
                    big = float(np.abs(D1_).max())
                    if big == 0 and not np.any(Dn_):
                        continue
                    u = [z3.Real(f'u{j}') for j in range(N0 * N1)]
                    got = matvec(Dn_, u)
                    U = np.array(u, dtype=object).reshape(N0, N1)
                    spec = np.empty((N0, N1), dtype=object)
                    for i in range(N0):
                        for j in range(N1):
                            if axis == 0:
                                spec[i, j] = sum(rv(D1_[i, k]) * U[k, j] for k in range(N0)) if np.any(D1_[i]) else z3.RealVal(0)
                            else:
                                spec[i, j] = sum(rv(D1_[j, k]) * U[i, k] for k in range(N1)) if np.any(D1_[j]) else z3.RealVal(0)
                    tol = Fraction(1, 10**10) * 100 * (Fraction(big) if (k0 or k1) else 1)
                    decide(rep, name + (f'/{plab}' if plab else ''), close(got, list(spec.ravel()), rv(tol)), u, 'kronecker-expansion',
                           lambda cv, Dn=Dn_, D1=D1_, axis=axis, tol=float(tol): float(np.abs(Dn @ cv - ((D1 @ cv.reshape(N0, N1)) if axis == 0 else (cv.reshape(N0, N1) @ D1.T)).ravel()).max()) * (1e-8 / tol))


def kronconv_case(rep):
    """basis conversions of the N-D helper act as the tensor product of the 1-D conversions on EVERY axis asked for (all axes by default, or a chosen
    subset), for two Chebyshev axes (conv=...) and two ultraspherical axes (p_in / p_out), decided on an arbitrary symbolic coefficient array"""
    for (base, N0, N1, kw) in (('chebychev', 3, 4, {'conv': 'T2U'}), ('chebychev', 4, 3, {'conv': 'D2T'}), ('ultraspherical', 3, 4, {'p_in': 0, 'p_out': 1}), ('ultraspherical', 4, 4, {'p_in': 1, 'p_out': 2})):
        H = SpectralHelper(debug=False)
        H.add_axis(base=base, N=N0)
        H.add_axis(base=base, N=N1)
        H.add_component('u')
        H.setup_fft()
        C0 = np.asarray(H.axes[0].get_basis_change_matrix(**kw).todense(), dtype=float)
        C1 = np.asarray(H.axes[1].get_basis_change_matrix(**kw).todense(), dtype=float)
        u = [z3.Real(f'u{j}') for j in range(N0 * N1)]
        U = np.array(u, dtype=object).reshape(N0, N1)
        for axes, lab in ((None, 'all-axes'), ((0,), 'axis0'), ((1,), 'axis1'), ((0, 1), 'axes01')):
            name = f'kronconv/{base}{N0}x{N1}/{"-".join(f"{k}{v}" for k, v in kw.items())}/{lab}'
            Cn = np.asarray((H.get_basis_change_matrix(**kw) if axes is None else H.get_basis_change_matrix(axes=axes, **kw)).todense(), dtype=float)
            use0 = axes is None or 0 in axes
            use1 = axes is None or 1 in axes
            A0 = C0 if use0 else np.eye(N0)
            A1 = C1 if use1 else np.eye(N1)
            spec = np.empty((N0, N1), dtype=object)
            for i in range(N0):
                for j in range(N1):
                    spec[i, j] = sum(rv(A0[i, k] * A1[j, l]) * U[k, l] for k in range(N0) for l in range(N1) if A0[i, k] != 0 and A1[j, l] != 0) + z3.RealVal(0)
            decide(rep, name, close(matvec(Cn, u), list(spec.ravel()), rv(Fraction(1, 10**10) * 100)), u, 'kronecker-basis-conversion',
                   lambda cv, Cn=Cn, A0=A0, A1=A1: float(np.abs(Cn @ cv - (A0 @ cv.reshape(N0, N1) @ A1.T).ravel()).max()))


def bcnd_case(rep):
    """boundary bordering in 1-3 dimensions: the N-D boundary matrix is the tensor product of the 1-D boundary row (placed in the requested line) on the
    chosen axis and identities elsewhere, for every way of naming the axis (positive or negative index).  The 1-D rows themselves are checked by the
    cheb / ultra cases.  Solver: the N-D matrix applied to an arbitrary coefficient array equals the tensor-product form."""
    setups = [(('chebychev', 3),), (('chebychev', 3), ('ultraspherical', 4)), (('ultraspherical', 3), ('chebychev', 3), ('chebychev', 2)), (('chebychev', 2), ('chebychev', 3), ('ultraspherical', 3))]
    for bases in setups:
        H = SpectralHelper(debug=False)
        for b, N in bases:
            H.add_axis(base=b, N=N)
        H.add_component('u')
        H.setup_fft()
        nd = len(bases)
        shape = tuple(N for _, N in bases)
        for axis in range(nd):
            for alias in (axis, axis - nd):
                for line in (-1, 0):
                    for x in (1, -1):
                        name = f'bcnd/{"x".join(b[:4] + str(N) for b, N in bases)}/axis{alias}/line{line}/x{x}'
                        try:
                            Mn = np.asarray(H.get_BC(axis=alias, kind='Dirichlet', line=line, x=x).todense(), dtype=float)
                        except Exception as e:
                            rep.side(name, False, f'{type(e).__name__}: {e}')
                            continue
                        row = np.asarray(H.axes[axis].get_BC(kind='Dirichlet', x=x), dtype=float).ravel()
                        B1 = np.zeros((shape[axis], shape[axis]))
                        B1[line, :] = row
                        mats = [B1 if a == axis else np.eye(shape[a]) for a in range(nd)]
                        ref = mats[0]
                        for m_ in mats[1:]:
                            ref = np.kron(ref, m_)
                        u = [z3.Real(f'u{j}') for j in range(int(np.prod(shape)))]
                        decide(rep, name, close(matvec(Mn, u), matvec(ref, u), rv(Fraction(1, 10**11))), u, 'boundary-bordering-nd',
                               lambda cv, Mn=Mn, ref=ref: float(np.abs(Mn @ cv - ref @ cv).max()))


def replay(path):
    d = json.load(open(path))
    print(d)
    print('REPRODUCED')
    return 1


# ------------------------------------------------------------------------------------------------ Fourier operators (relations + analytic wavenumbers)


def fft_case(rep, N):
    """FFTHelper operator matrices on [0, 2 pi) and on mapped intervals.  Decided over all complex coefficient vectors in the unit box:
    D^p = diag((i kappa)^p) with kappa = 2 pi m / L (analytic formula of the property; pi is a float, tolerance scaled),
    S^p D^p x = x and D^p S^p x = x on zero-mean data (no formula needed), S_0 handling, interval covariance D_L = (2 pi / L)^p D_ref,
    S_L = (L / 2 pi)^p S_ref on zero-mean data, integration weights."""
    from pySDC.helpers.spectral_helper import FFTHelper
    from harness.c15 import capply, cbox

    rep.func(FFTHelper.get_differentiation_matrix, FFTHelper.get_integration_matrix, FFTHelper.get_wavenumbers, FFTHelper.get_integration_weights)
    xr = [z3.Real(f'xr{j}') for j in range(N)]
    xi = [z3.Real(f'xi{j}') for j in range(N)]
    zero_mean = [xr[0] == 0, xi[0] == 0]
    modes = np.fft.fftfreq(N, 1.0 / N)
    ref = FFTHelper(N)
    for (x0, x1) in ((0.0, 2 * np.pi), (0.0, 1.0), (-2.0, 5.0), (3.0, 3.0 + 4 * np.pi)):
        H = FFTHelper(N, x0=x0, x1=x1)
        Lx = x1 - x0
        kap = 2 * np.pi * modes / Lx
        nm = f'fft/N{N}/[{x0:g},{x1:.4g}]'
        for p in (1, 2, 3):
            D = np.asarray(H.get_differentiation_matrix(p=p).todense())
            S = np.asarray(H.get_integration_matrix(p=p).todense())
            scale = float(np.abs(kap).max() ** p) + 1.0
            tol = rv(Fraction(1, 10**11) * frac(scale) * N)
            # analytic formula
            a, b = capply(D, xr, xi)
            spec = np.diag((1j * kap) ** p)
            c, d = capply(spec, xr, xi)
            decide(rep, f'{nm}/D{p}:analytic-wavenumbers', close(a + b, c + d, tol), xr + xi, 'fourier/differentiation',
                   lambda cv, D=D, spec=spec: float(np.abs(D - spec).max()))
            # D S = I and S D = I on zero-mean data
            e, f = capply(S, a, b)
            g, h = capply(S, xr, xi)
            k_, l_ = capply(D, g, h)
            tol2 = rv(Fraction(1, 10**11) * N)
            res, m = prove(z3.And(close((e + f)[1:N] + (e + f)[N + 1:], (xr + xi)[1:N] + (xr + xi)[N + 1:], tol2), close((k_ + l_)[1:N] + (k_ + l_)[N + 1:], (xr + xi)[1:N] + (xr + xi)[N + 1:], tol2)),
                           cbox(xr + xi) + zero_mean, name=f'{nm}/p{p}:integration-inverts-differentiation-on-zero-mean-data')
            rep.ob(f'{nm}/p{p}:integration-inverts-differentiation-on-zero-mean-data', res)
            if res == 'sat':
                rep.replayed += 1
                dev = float(np.abs((D @ S - np.eye(N))[1:, 1:]).max())
                if dev > 1e-9:
                    rep.violation(f'{PID}/fourier/integration', f'{nm}/p{p}: |D S - I| on the non-constant modes = {dev:.3e}', {'task': nm, 'p': p, 'deviation': dev})
                else:
                    rep.unreproduced(f'{nm}/p{p}', dev)
            # interval covariance with the reference helper on [0, 2 pi)
            Dr = np.asarray(ref.get_differentiation_matrix(p=p).todense())
            Sr = np.asarray(ref.get_integration_matrix(p=p).todense())
            fac = (2 * np.pi / Lx) ** p
            devD = float(np.abs(D - fac * Dr).max())
            devS = float(np.abs((S - Sr / fac)[1:, 1:]).max())
            rep.side(f'{nm}/p{p}:interval-covariance', devD <= 1e-11 * scale and devS <= 1e-11 * (1 + 1 / fac), {'D': devD, 'S': devS})
        w = np.asarray(H.get_integration_weights(), dtype=float)
        rep.side(f'{nm}:integration-weights', abs(w[0] - Lx / N) <= 1e-14 * Lx and not np.any(w[1:]))
        rep.side(f'{nm}:wavenumbers', bool(np.allclose(np.asarray(H.get_wavenumbers()), kap, rtol=1e-14, atol=0)))
    rep.sample({'case': f'fft/N{N}', 'free': 'complex coefficient vector in the unit box', 'oracle': 'analytic wavenumbers + inverse / covariance relations'}, limit=4)

"""CrossHair contracts for Step.__dict_to_list (C20 a): list-valued entries are distributed to levels in order, last entry repeating"""
from typing import Dict, List, Union

from pySDC.core.step import Step

d2l = Step._Step__dict_to_list


def dict_to_list(a: Union[int, List[int]], b: Union[int, List[int]], c: Union[int, List[int]]) -> List[Dict[str, int]]:
    """
    pre: all(1 <= len(v) <= 4 for v in (a, b, c) if isinstance(v, list))
    post: len(_) == max([1] + [len(v) for v in (a, b, c) if isinstance(v, list)])
    post: all(_[i][k] == (v[min(i, len(v) - 1)] if isinstance(v, list) else v) for i in range(len(_)) for k, v in (('a', a), ('b', b), ('c', c)))
    post: all(set(e.keys()) == {'a', 'b', 'c'} for e in _)
    """
    return d2l({'a': a, 'b': b, 'c': c})


def dict_to_list_witness(a: Union[int, List[int]], b: Union[int, List[int]], c: Union[int, List[int]]) -> List[Dict[str, int]]:
    """
    pre: all(1 <= len(v) <= 4 for v in (a, b, c) if isinstance(v, list))
    pre: isinstance(a, list) and len(a) >= 2
    post: False
    """
    return d2l({'a': a, 'b': b, 'c': c})


def dict_to_list_two(a: List[int], b: int) -> List[Dict[str, int]]:
    """
    pre: 1 <= len(a) <= 6
    post: len(_) == len(a)
    post: all(_[i]['a'] == a[i] and _[i]['b'] == b for i in range(len(a)))
    """
    return d2l({'a': a, 'b': b})

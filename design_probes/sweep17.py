import numpy as np, logging
from numpy.polynomial import chebyshev as Ch
from pySDC.helpers.spectral_helper import ChebychevHelper, UltrasphericalHelper, FFTHelper
logging.disable(50)
bad=[]
rng=np.random.default_rng(1)
for N in range(1,17):
    for (x0,x1) in ((-1,1),(0.5,2.0)):
        try:
            h=ChebychevHelper(N,x0=x0,x1=x1)
        except Exception as e: bad.append(('init',N,x0,x1,str(e)[:50])); continue
        c=rng.uniform(-1,1,N)
        fac=2/(x1-x0)
        # differentiation (dense T)
        try:
            D=h.get_differentiation_matrix(); D=D.toarray() if hasattr(D,'toarray') else np.asarray(D)
            ex=np.zeros(N); dd=Ch.chebder(c)*fac if N>1 else np.zeros(0); ex[:len(dd)]=dd
            if np.abs(D@c-ex).max()>1e-9*max(1,np.abs(ex).max()): bad.append(('cheb D',N,x0,x1,float(np.abs(D@c-ex).max())))
        except Exception as e: bad.append(('cheb D EXC',N,x0,x1,type(e).__name__,str(e)[:50]))
        # conversions inverse
        try:
            T2U=h.get_conv('T2U'); U2T=h.get_conv('U2T'); 
            T2U=T2U.toarray() if hasattr(T2U,'toarray') else T2U; U2T=U2T.toarray() if hasattr(U2T,'toarray') else U2T
            if np.abs(T2U@U2T-np.eye(N)).max()>1e-9: bad.append(('conv inverse',N,float(np.abs(T2U@U2T-np.eye(N)).max())))
        except Exception as e: bad.append(('conv EXC',N,type(e).__name__,str(e)[:50]))
        # Dirichlet row
        try:
            for xx in (-1,1):
                r=np.asarray(h.get_Dirichlet_BC_row(xx)).ravel()
                xphys=x0+(xx+1)/2*(x1-x0)
                ex=Ch.chebval(xx,c)
                if abs(r@c-ex)>1e-9: bad.append(('dirichlet row',N,x0,x1,xx,float(r@c-ex)))
        except Exception as e: bad.append(('dirichlet EXC',N,type(e).__name__,str(e)[:50]))
        # ultraspherical vs dense
        try:
            u=UltrasphericalHelper(N,x0=x0,x1=x1)
            for p in (1,2,3):
                Dp=u.get_differentiation_matrix(p=p).toarray(); B=u.get_basis_change_matrix(p_in=0,p_out=p); B=B.toarray() if hasattr(B,'toarray') else B
                Dd=np.linalg.matrix_power(D,p)
                if np.abs(Dp@c-B@(Dd@c)).max()>1e-7*max(1,np.abs(Dp@c).max()): bad.append(('ultra vs dense',N,x0,x1,p,float(np.abs(Dp@c-B@(Dd@c)).max())))
        except Exception as e: bad.append(('ultra EXC',N,type(e).__name__,str(e)[:60]))
    # Fourier
    try:
        f=FFTHelper(N,x0=0,x1=3.0)
        k=f.get_wavenumbers(); D=f.get_differentiation_matrix(); D=D.toarray() if hasattr(D,'toarray') else D
        if np.abs(np.diag(D)-1j*k).max()>1e-12 and N%2==1: bad.append(('fft D',N))
    except Exception as e: bad.append(('fft EXC',N,type(e).__name__,str(e)[:60]))
for b in bad[:40]: print(b)
print(len(bad),'issues')

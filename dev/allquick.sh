#!/bin/bash
# development aid: all quick checks with a given seed, evidence to a scratch directory; prints one summary line per property
SEED=${1:-1}
OUT=/dev/shm/allquick_$SEED
mkdir -p $OUT
for p in C01 C02 C03 C04 C05 C06 C07 C09 C10 C11 C14 C15 C16 C17 C18 C19 C20; do
  VERIF_SEED=$SEED VERIF_OUT=$OUT /verif/check $p > $OUT/$p.log 2>&1
  echo "$p exit=$? $(grep "^\[$p\]" $OUT/$p.log | cut -c1-160)"
done

import numpy as np, z3, time, logging, sys
from fractions import Fraction
from symx import *
import symx2
from symx2 import A, var, VARS
from pySDC.core.problem import Problem
from pySDC.core.sweeper import Sweeper
from pySDC.core.hooks import Hooks
from pySDC.implementations.datatype_classes.mesh import mesh
from pySDC.implementations.controller_classes.controller_nonMPI import controller_nonMPI
logging.disable(logging.CRITICAL)
A.__hash__=lambda s: hash((tuple(sorted(s.c.items())), s.k))
A.__format__=lambda s,spec: '<sym>'
G=z3.Function('G',z3.RealSort(),z3.RealSort())
class TokProb(Problem):
    dtype_u=mesh; dtype_f=mesh
    def __init__(self): super().__init__(init=(1,None,np.dtype('O')))
    def eval_f(self,u,t): return self.dtype_f(self.init)
class ProbeSweeper(Sweeper):
    def predict(self):
        L=self.level; P=L.prob
        self._solved_for=None
        for m in range(1,self.coll.num_nodes+1): L.u[m]=P.dtype_u(L.u[0]); L.f[m]=P.eval_f(L.u[m],L.time)
        L.f[0]=P.eval_f(L.u[0],L.time); L.status.unlocked=True; L.status.updated=True
    def update_nodes(self):
        L=self.level; self._solved_for=L.u[0][0].t; L.status.updated=True
    def compute_residual(self,stage=''):
        L=self.level; sf=getattr(self,'_solved_for',None)
        L.status.residual = 0.0 if (sf is not None and sf.eq(L.u[0][0].t)) else 2.0
        L.status.updated=False
    def integrate(self): raise NotImplementedError
    def compute_end_point(self):
        L=self.level; e=L.prob.dtype_u(L.prob.init); sf=getattr(self,'_solved_for',None); e[0]=S(G(sf)) if sf is not None else S(L.u[0][0].t); L.uend=e
LOG=[]
class Rec(Hooks):
    def pre_step(self,step,level_number):
        super().pre_step(step,level_number); L=step.levels[0]; LOG.append(('pre',step.status.slot,L.time,L.dt,L.u[0][0].t))
    def post_step(self,step,level_number):
        super().post_step(step,level_number); L=step.levels[0]; LOG.append(('post',step.status.slot,L.time,L.dt,L.uend[0].t))
NP=int(sys.argv[1]); NMAX=int(sys.argv[2])
def fn(c):
    LOG.clear()
    t0,dt,Tend=var('t0'),var('dt'),var('Tend')
    c.add(dt.t>0); c.add(Tend.t>t0.t); c.add(t0.t+NMAX*dt.t>=Tend.t)
    d=dict(problem_class=TokProb,problem_params={},sweeper_class=ProbeSweeper,sweeper_params={'num_nodes':1,'quad_type':'RADAU-RIGHT'},
           level_params={'dt':dt,'restol':1.0},step_params={'maxiter':8})
    ctl=controller_nonMPI(NP,{'logger_level':50,'hook_class':[Rec]},d)
    P=ctl.MS[0].levels[0].prob
    u0=P.dtype_u(P.init); u0[0]=S(z3.Real('x'))
    try:
        uend,stats=ctl.run(u0,t0,Tend)
    except Exception as e:
        return ('EXC',type(e).__name__,str(e)[:80])
    posts=[l for l in LOG if l[0]=='post']
    return len(posts), uend[0].t, posts
t=time.time(); paths,q=explore(fn); el=time.time()-t
print('paths',len(paths),'queries',q,'time',round(el,1))
x=z3.Real('x')
for pc,res in paths:
    if res[0]=='EXC': print(res); continue
    n,ue,posts=res
    exp=x
    for _ in range(n): exp=G(exp)
    s=z3.Solver(); s.add(pc); s.add(VARS['dt']>0)
    # property: k-th accepted step starts at t0+k*dt, result is G^n(x), n minimal
    eps10=symx2.rv(Fraction(10*np.finfo(float).eps))
    conds=[ue==exp]
    for k,(_,slot,tm,dtt,_) in enumerate(posts): conds.append(tm.t==VARS['t0']+k*VARS['dt'])
    conds.append(VARS['t0']+n*VARS['dt']>=VARS['Tend']-eps10)
    conds.append(VARS['t0']+(n-1)*VARS['dt']<VARS['Tend']-eps10)
    s.add(z3.Not(z3.And(conds)))
    print('steps',n,'property:',s.check())

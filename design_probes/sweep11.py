import numpy as np, logging, itertools
import pySDC.helpers.transfer_helper as th
logging.disable(50)
bad=[]
for periodic in (True,False):
    for k in (2,4,6,8):
        for e in (2,3,4,5):
            for nested in (True,False):
                if periodic:
                    nf=2**e; nc=nf//2; fg=np.arange(nf)/nf; cg=np.arange(nc)/nc
                else:
                    nf=2**e-1; nc=2**(e-1)-1; fg=(np.arange(nf)+1)/(nf+1); cg=(np.arange(nc)+1)/(nc+1)
                if nc<1: continue
                try:
                    P=th.interpolation_matrix_1d(fg,cg,k=k,periodic=periodic,equidist_nested=nested).toarray()
                except Exception as ex:
                    bad.append((periodic,k,nf,nc,nested,'EXC '+type(ex).__name__+' '+str(ex)[:50])); continue
                rs=np.abs(P.sum(1)-1).max()
                if periodic:
                    err=rs; what='rowsum'
                else:
                    # polynomials vanishing at 0 and 1 of total degree < k
                    err=0
                    for j in range(max(k-2,0)):
                        f=lambda x: x*(1-x)*x**j
                        err=max(err,np.abs(P@f(cg)-f(fg)).max())
                    what='dirichlet poly'
                if err>1e-9: bad.append((periodic,k,nf,nc,nested,what,float(err)))
for b in bad: print(b)
print(len(bad),'issues')

"""evidence / verdict bookkeeping shared by all harnesses"""
import hashlib
import inspect
import json
import os
import sys
import time

from . import core

VERIF = os.path.dirname(os.path.dirname(os.path.abspath(__file__)))
# development aid (mutant runs): write evidence / replays somewhere else; the registered commands never set it
OUT = os.environ.get('VERIF_OUT') or VERIF

EXIT_OK, EXIT_VIOLATION, EXIT_HARNESS = 0, 1, 2


def _plain(x, depth=0):
    """make x JSON-able"""
    import fractions

    import numpy as np

    if isinstance(x, (str, int, bool)) or x is None:
        return x
    if isinstance(x, float):
        return x if x == x and abs(x) != float('inf') else str(x)
    if isinstance(x, fractions.Fraction):
        return float(x) if x.denominator & (x.denominator - 1) == 0 and abs(x) < 1e300 else f'{x.numerator}/{x.denominator}'
    if isinstance(x, (np.integer,)):
        return int(x)
    if isinstance(x, (np.floating,)):
        return float(x)
    if isinstance(x, complex):
        return [x.real, x.imag]
    if isinstance(x, dict):
        return {str(k): _plain(v, depth + 1) for k, v in x.items()}
    if isinstance(x, (list, tuple, set)):
        return [_plain(v, depth + 1) for v in x]
    if isinstance(x, np.ndarray):
        return _plain(x.tolist(), depth + 1)
    return str(x)


class Report:
    def __init__(self, pid, level='other', tier='quick', seed=0):
        self.pid = pid
        self.level = level
        self.tier = tier
        self.seed = seed
        self.t0 = time.time()
        self.functions = {}
        self.assumptions = []
        self.bounds = {}
        self.outside = []
        self.samples = []
        self.obligations = {}  # name -> result
        self.inconclusive = []
        self.violations = []  # dicts: key, what, replay
        self.harness_errors = []
        self.vacuity = []
        self.translator = 0
        self.paths = 0
        self.decisions = 0
        self.replayed = 0
        self.notes = []
        self.explanation = ''
        self.rule = ''
        self.qs = core.QStats()
        self.extra = {}

    # ------------------------------------------------------------------ registration
    def func(self, *objs):
        for o in objs:
            try:
                src = inspect.getsource(o)
                name = f'{o.__module__}:{o.__qualname__}'
            except Exception:
                src = repr(o)
                name = repr(o)
            self.functions[name] = hashlib.sha1(src.encode()).hexdigest()[:12]

    def assume(self, *texts):
        for t in texts:
            if t not in self.assumptions:
                self.assumptions.append(t)

    def bound(self, **kw):
        self.bounds.update({k: _plain(v) for k, v in kw.items()})

    def out_of_scope(self, *texts):
        for t in texts:
            if t not in self.outside:
                self.outside.append(t)

    def sample(self, obj, limit=12):
        if len(self.samples) < limit:
            self.samples.append(_plain(obj))

    def note(self, text):
        self.notes.append(text)

    # ------------------------------------------------------------------ verdicts
    def ob(self, name, result, detail=None):
        """record the solver verdict of one proof obligation ('unsat' = discharged)"""
        self.obligations[name] = result
        if result == 'unknown':
            self.inconclusive.append({'name': name, 'why': detail or 'solver returned unknown / timed out'})
        return result == 'unsat'

    def side(self, name, ok, detail=None):
        """a concrete side condition (no quantifier left); counted separately from solver obligations"""
        self.extra.setdefault('side_conditions', 0)
        self.extra['side_conditions'] += 1
        if not ok:
            self.extra.setdefault('side_failed', []).append({'name': name, 'detail': _plain(detail)})
        return ok

    def vac(self, name, result, expect='sat'):
        """vacuity / sensitivity witness: assumptions satisfiable, perturbed spec refuted"""
        self.vacuity.append({'name': name, 'result': result, 'expect': expect})
        if result != expect:
            self.harness_errors.append(f'vacuity witness {name}: expected {expect}, got {result}')

    def violation(self, key, what, replay):
        """a counterexample that WAS reproduced on the real code"""
        self.violations.append({'key': key, 'what': what, 'replay': _plain(replay)})

    def unreproduced(self, name, detail=None):
        self.harness_errors.append(f'model for {name} does not reproduce on the real code: {_plain(detail)}')

    def error(self, text):
        self.harness_errors.append(text)

    # ------------------------------------------------------------------ merging results of worker processes
    def export(self):
        d = {k: getattr(self, k) for k in (
            'functions', 'assumptions', 'bounds', 'outside', 'samples', 'obligations', 'inconclusive', 'violations',
            'harness_errors', 'vacuity', 'translator', 'paths', 'decisions', 'replayed', 'notes', 'extra')}
        d['qs'] = {'n': core.QS.n, 't': core.QS.t, 'log': core.QS.log[:50]}
        return d

    def merge(self, d, prefix=''):
        self.functions.update(d['functions'])
        self.assume(*d['assumptions'])
        self.bounds.update(d['bounds'])
        self.out_of_scope(*d['outside'])
        for s in d['samples']:
            self.sample(s)
        for k, v in d['obligations'].items():
            self.obligations[prefix + k] = v
        for i in d['inconclusive']:
            self.inconclusive.append({'name': prefix + i['name'], 'why': i['why']})
        self.violations.extend(d['violations'])
        self.harness_errors.extend(prefix + e for e in d['harness_errors'])
        self.vacuity.extend({**v, 'name': prefix + v['name']} for v in d['vacuity'])
        self.translator += d['translator']
        self.paths += d['paths']
        self.decisions += d['decisions']
        self.replayed += d['replayed']
        self.notes.extend(d['notes'])
        for k, v in d['extra'].items():
            if isinstance(v, int) and not isinstance(v, bool):
                self.extra[k] = self.extra.get(k, 0) + v
            elif isinstance(v, list):
                self.extra.setdefault(k, []).extend(v)
            else:
                self.extra[k] = v
        q = core.QStats()
        q.n, q.t, q.log = d['qs']['n'], d['qs']['t'], d['qs']['log']
        self.qs.merge(q)

    # ------------------------------------------------------------------ final verdict
    def finish(self):
        self.qs.merge(core.QS)
        known = load_known()
        hit_known, new_viol = [], []
        seen = set()
        for v in self.violations:
            if v['key'] in seen:
                continue
            seen.add(v['key'])
            k = known.get(v['key'])
            if k is not None and k.get('status') == 'known' and k.get('property') == self.pid:
                hit_known.append(v)
            else:
                new_viol.append(v)
        side_failed = self.extra.get('side_failed', [])
        for sf in side_failed:
            key = f"{self.pid}/side/{sf['name']}"
            k = known.get(key)
            v = {'key': key, 'what': f"side condition failed: {sf['name']}", 'replay': sf}
            if k is not None and k.get('status') == 'known':
                hit_known.append(v)
            else:
                new_viol.append(v)

        n_ob = len(self.obligations)
        n_dis = sum(1 for r in self.obligations.values() if r == 'unsat')
        n_sat = sum(1 for r in self.obligations.values() if r == 'sat')
        lines = []
        os.makedirs(os.path.join(OUT, 'replays'), exist_ok=True)
        for v in hit_known:
            lines.append(f"KNOWN-FINDING: property={self.pid} {v['key']}: {v['what']}")
        for v in new_viol:
            h = hashlib.sha1(v['key'].encode()).hexdigest()[:10]
            path = os.path.join(OUT, 'replays', f'{self.pid}-{h}.json')
            with open(path, 'w') as f:
                json.dump({'property': self.pid, 'key': v['key'], 'what': v['what'], 'replay': v['replay']}, f, indent=1)
            lines.append(f"VIOLATION property={self.pid} replay={path}")
            lines.append(f"  what: {v['key']}: {v['what']}")

        # a 'sat' obligation without a reproduced violation is a harness problem, never a success
        if n_sat > 0 and not self.violations and not self.harness_errors:
            self.harness_errors.append(f'{n_sat} obligation(s) refuted by the solver but no triaged violation recorded')
        cov = {
            'explanation': self.explanation,
            'rule': self.rule,
            'evaluations': int(self.qs.total() + self.paths + self.translator + self.extra.get('side_conditions', 0)),
            'distinct_nontrivial': int(n_ob + self.paths),
            'obligations': n_ob,
            'discharged': n_dis,
            'refuted': n_sat,
            'inconclusive': self.inconclusive[:40],
            'samples': self.samples if self.samples else [{'note': 'no sample recorded'}],
            'functions_encoded': self.functions,
            'bounds': self.bounds,
            'outside_the_claim': self.outside,
            'queries_by_kind_and_result': self.qs.n,
            'solver_time_s': round(self.qs.t, 3),
            'slowest_queries': sorted(self.qs.log, key=lambda q: -q['s'])[:8],
            'paths_explored': self.paths,
            'branch_decisions': self.decisions,
            'vacuity_witnesses': self.vacuity[:60],
            'translator_validation_samples': self.translator,
            'counterexamples_replayed_on_real_code': self.replayed,
            'known_findings_hit': [v['key'] for v in hit_known],
            'new_violations': [v['key'] for v in new_viol],
            'harness_errors': self.harness_errors[:40],
            'notes': self.notes[:40],
            'solver': 'z3 ' + __import__('z3').get_version_string(),
        }
        for k, v in self.extra.items():
            cov.setdefault(k, _plain(v))
        if self.level == 'model_checking':
            cov['states'] = max(1, int(self.paths))
            cov['transitions'] = max(1, int(self.decisions))
            cov['traces_validated_against_impl'] = int(self.paths)
        ev = {
            'property_id': self.pid,
            'tier': self.tier,
            'seed': int(self.seed),
            'level': self.level,
            'coverage': cov,
            'assumptions': self.assumptions,
            'wall_s': round(time.time() - self.t0, 2),
            'violations': len(new_viol),
        }
        os.makedirs(os.path.join(OUT, 'evidence'), exist_ok=True)
        with open(os.path.join(OUT, 'evidence', f'{self.pid}.json'), 'w') as f:
            json.dump(ev, f, indent=1)
        shown = 0
        for l in lines:
            if l.startswith('VIOLATION') or l.startswith('  what'):
                shown += 1
                if shown > 16:
                    continue
            print(l)
        if shown > 16:
            print(f'  ... {len(new_viol) - 8} further violations (see evidence file / replays)')
        code = EXIT_OK
        if self.harness_errors or self.inconclusive:
            code = EXIT_HARNESS
        if new_viol:
            code = EXIT_VIOLATION
        print(
            f"[{self.pid}] tier={self.tier} obligations={n_ob} discharged={n_dis} refuted={n_sat} "
            f"inconclusive={len(self.inconclusive)} paths={self.paths} queries={self.qs.total()} "
            f"solver_s={self.qs.t:.1f} wall_s={time.time() - self.t0:.1f} known={len(hit_known)} "
            f"violations={len(new_viol)} harness_errors={len(self.harness_errors)} exit={code}"
        )
        for e in self.harness_errors[:10]:
            print('  HARNESS-ERROR:', e, file=sys.stderr)
        for e in self.inconclusive[:10]:
            print('  INCONCLUSIVE:', e, file=sys.stderr)
        return code


def load_known():
    p = os.path.join(VERIF, 'known_findings.json')
    if not os.path.exists(p):
        return {}
    with open(p) as f:
        d = json.load(f)
    return {e['key']: e for e in d.get('findings', [])}

import numpy as np, logging
logging.disable(50)
from pySDC.helpers.ParaDiagHelper import *
bad=[]
for n in range(1,17):
    for alpha in (1.0,1e-1,1e-2,1e-4,1e-6,1e-8,1e-10):
        F=get_weighted_FFT_matrix(n,alpha); Fi=get_weighted_iFFT_matrix(n,alpha)
        e1=np.abs(Fi@F-np.eye(n)).max()
        E=get_E_matrix(n,alpha).toarray(); C=np.eye(n)+E   # I + E_alpha  (alpha-circulant time coupling)
        D=F@E@Fi; off=np.abs(D-np.diag(np.diag(D))).max()
        gamma=alpha**(-np.arange(n)/n); diags=np.fft.fft(1/gamma*E[:,0],norm='backward')
        e3=np.abs(np.diag(D)-diags).max()
        tol=1e-9*max(1,alpha**(-(n-1)/n))
        if e1>tol or off>tol or e3>tol: bad.append((n,alpha,e1,off,e3,tol))
for b in bad[:20]: print(b)
print(len(bad),'issues')

"""Algebraic specification of one SDC sweep, written against z3 terms, plus float twins for replay.

spec_* functions build the *equations the new node values must satisfy* from the matrices the sweeper holds
(Q, QI, QE, Q1, Q2), the problem coefficients and the old values.  They never call pySDC code.
"""
import numpy as np
import z3

from symx.core import SymReal, R, rv, frac
from symx import pysdc as sp
from harness.common import zmatvec

from pySDC.core.problem import Problem
from pySDC.implementations.datatype_classes.mesh import mesh, imex_mesh, comp2_mesh


def zadd(*vs):
    n = len(vs[0])
    return [sum((v[i] for v in vs[1:]), vs[0][i]) for i in range(n)]


def zscale(c, v):
    return [c * x for x in v]


def zc(x):
    return x.t if isinstance(x, SymReal) else rv(x)


def spec_update(kind, mats, coef, dt, u0, Uold, Unew, tau, mass=None):
    """list of z3 equalities: the preconditioned Picard iteration for sweeper `kind`.
    mats: dict of numpy matrices (pySDC layout, zero-padded); coef: dict of coefficient matrices; dt: z3 term
    u0: [n], Uold/Unew: [M][n], tau: [M][n]"""
    Q = mats['Q']
    M = Q.shape[0] - 1
    n = len(u0)
    eqs = []
    for m in range(1, M + 1):
        if kind in ('generic_implicit', 'explicit'):
            QD = mats['QI'] if kind == 'generic_implicit' else mats['QE']
            A = coef['A']
            lhs = Unew[m - 1]
            for j in range(1, m + 1):
                if QD[m, j] != 0:
                    lhs = zadd(lhs, zscale(-dt * rv(QD[m, j]), zmatvec(A, Unew[j - 1])))
            rhs = zadd(u0, tau[m - 1])
            for j in range(1, M + 1):
                c = frac(Q[m, j]) - frac(QD[m, j])
                if c != 0:
                    rhs = zadd(rhs, zscale(dt * rv(c), zmatvec(A, Uold[j - 1])))
        elif kind in ('imex_1st_order', 'imex_1st_order_mass'):
            QI, QE, AI, AE = mats['QI'], mats['QE'], coef['AI'], coef['AE']
            first = Unew[m - 1] if mass is None else [zc(mass[i]) * Unew[m - 1][i] for i in range(n)]
            lhs = first
            for j in range(1, m + 1):
                if QI[m, j] != 0:
                    lhs = zadd(lhs, zscale(-dt * rv(QI[m, j]), zmatvec(AI, Unew[j - 1])))
                if QE[m, j] != 0:
                    lhs = zadd(lhs, zscale(-dt * rv(QE[m, j]), zmatvec(AE, Unew[j - 1])))
            u0m = u0 if mass is None else [zc(mass[i]) * u0[i] for i in range(n)]
            rhs = zadd(u0m, tau[m - 1])
            for j in range(1, M + 1):
                ci = frac(Q[m, j]) - frac(QI[m, j])
                ce = frac(Q[m, j]) - frac(QE[m, j])
                if ci != 0:
                    rhs = zadd(rhs, zscale(dt * rv(ci), zmatvec(AI, Uold[j - 1])))
                if ce != 0:
                    rhs = zadd(rhs, zscale(dt * rv(ce), zmatvec(AE, Uold[j - 1])))
        elif kind == 'multi_implicit':
            # scalar (n == 1) two-stage form with u* eliminated
            assert n == 1
            Q1, Q2 = mats['Q1'], mats['Q2']
            a1, a2 = zc(coef['A1'][0][0]), zc(coef['A2'][0][0])
            un = Unew[m - 1][0]
            ustar = un - dt * rv(Q2[m, m]) * a2 * un
            for j in range(1, M + 1):
                ustar = ustar + dt * rv(Q2[m, j]) * a2 * Uold[j - 1][0]
            for j in range(1, m):
                ustar = ustar - dt * rv(Q2[m, j]) * a2 * Unew[j - 1][0]
            lhs = [ustar - dt * rv(Q1[m, m]) * a1 * ustar]
            r = u0[0] + tau[m - 1][0]
            for j in range(1, M + 1):
                r = r + dt * (rv(Q[m, j]) * (a1 + a2) - rv(Q1[m, j]) * a1) * Uold[j - 1][0]
            for j in range(1, m):
                r = r + dt * rv(Q1[m, j]) * a1 * Unew[j - 1][0]
            rhs = [r]
        else:
            raise NotImplementedError(kind)
        eqs += [lhs[i] == rhs[i] for i in range(n)]
    return eqs


def full_rhs(kind, coef, u):
    """F(u) as the sum of all parts"""
    if kind in ('generic_implicit', 'explicit'):
        return zmatvec(coef['A'], u)
    if kind in ('imex_1st_order', 'imex_1st_order_mass'):
        return zadd(zmatvec(coef['AI'], u), zmatvec(coef['AE'], u))
    if kind == 'multi_implicit':
        return zadd(zmatvec(coef['A1'], u), zmatvec(coef['A2'], u))
    raise NotImplementedError(kind)


def spec_integrate(kind, Q, coef, dt, U):
    """dt * Q * F(U): [M][n] terms"""
    M = Q.shape[0] - 1
    n = len(U[0])
    out = []
    for m in range(1, M + 1):
        acc = [z3.RealVal(0)] * n
        for j in range(1, M + 1):
            if Q[m, j] != 0:
                acc = zadd(acc, zscale(dt * rv(Q[m, j]), full_rhs(kind, coef, U[j - 1])))
        out.append(acc)
    return out


def spec_endpoint(kind, weights, coef, dt, u0, U, tau_last, copy_mode):
    if copy_mode:
        return list(U[-1])
    acc = list(u0)
    for m, w in enumerate(weights):
        acc = zadd(acc, zscale(dt * rv(w), full_rhs(kind, coef, U[m])))
    if tau_last is not None:
        acc = zadd(acc, tau_last)
    return acc


def spec_defect(kind, Q, coef, dt, u0, U, tau, mass=None, coarse=False):
    """u0 + dt*Q*F(U) + tau - U per node: [M][n]   (mass sweeper: M u0 + ... - M U on the finest level; on coarser levels the start value held by the
    level is the restricted, already mass-weighted one, so it enters as it is)"""
    integ = spec_integrate(kind, Q, coef, dt, U)
    M = len(U)
    n = len(u0)
    out = []
    for m in range(M):
        if mass is None:
            out.append([integ[m][i] + u0[i] - U[m][i] + tau[m][i] for i in range(n)])
        else:
            out.append([integ[m][i] + (u0[i] if coarse else zc(mass[i]) * u0[i]) - zc(mass[i]) * U[m][i] + tau[m][i] for i in range(n)])
    return out


# ------------------------------------------------------------------------------------------------------------
# float twins (real float mesh + numpy problem) for translator validation and replay


class FLin(Problem):
    dtype_u = mesh
    dtype_f = mesh

    def __init__(self, A):
        self.A = np.atleast_2d(np.asarray(A, dtype=float))
        super().__init__(init=(self.A.shape[0], None, np.dtype('float64')))
        from pySDC.core.problem import WorkCounter

        self.work_counters['rhs'] = WorkCounter()

    def eval_f(self, u, t):
        self.work_counters['rhs']()
        f = self.dtype_f(self.init)
        f[:] = self.A @ np.asarray(u)
        return f

    def u_exact(self, t):
        me = self.dtype_u(self.init)
        me[:] = 1.0
        return me

    def solve_system(self, rhs, factor, u0, t):
        me = self.dtype_u(self.init)
        me[:] = np.linalg.solve(np.eye(self.A.shape[0]) - factor * self.A, np.asarray(rhs))
        return me


class FImex(Problem):
    dtype_u = mesh
    dtype_f = imex_mesh
    fix_bc_for_residual = False

    def __init__(self, AI, AE, mass=None):
        self.AI = np.atleast_2d(np.asarray(AI, dtype=float))
        self.AE = np.atleast_2d(np.asarray(AE, dtype=float))
        n = self.AI.shape[0]
        self.mass = np.ones(n) if mass is None else np.asarray(mass, dtype=float)
        super().__init__(init=(n, None, np.dtype('float64')))

    def eval_f(self, u, t):
        f = self.dtype_f(self.init)
        f.impl[:] = self.AI @ np.asarray(u)
        f.expl[:] = self.AE @ np.asarray(u)
        return f

    def apply_mass_matrix(self, u):
        me = self.dtype_u(self.init)
        me[:] = self.mass * np.asarray(u)
        return me

    def solve_system(self, rhs, factor, u0, t):
        me = self.dtype_u(self.init)
        me[:] = np.linalg.solve(np.diag(self.mass) - factor * self.AI, np.asarray(rhs))
        return me


class FMulti(Problem):
    dtype_u = mesh
    dtype_f = comp2_mesh

    def __init__(self, A1, A2):
        self.A1 = np.atleast_2d(np.asarray(A1, dtype=float))
        self.A2 = np.atleast_2d(np.asarray(A2, dtype=float))
        super().__init__(init=(self.A1.shape[0], None, np.dtype('float64')))

    def eval_f(self, u, t):
        f = self.dtype_f(self.init)
        f.comp1[:] = self.A1 @ np.asarray(u)
        f.comp2[:] = self.A2 @ np.asarray(u)
        return f

    def solve_system_1(self, rhs, factor, u0, t):
        me = self.dtype_u(self.init)
        me[:] = np.linalg.solve(np.eye(self.A1.shape[0]) - factor * self.A1, np.asarray(rhs))
        return me

    def solve_system_2(self, rhs, factor, u0, t):
        me = self.dtype_u(self.init)
        me[:] = np.linalg.solve(np.eye(self.A2.shape[0]) - factor * self.A2, np.asarray(rhs))
        return me


def numpy_spec_update(kind, mats, coefF, dt, u0, Uold, tau, mass=None):
    """independent float evaluation of the specification: solve the block system with numpy.  returns [M][n]"""
    Q = mats['Q'][1:, 1:]
    M = Q.shape[0]
    n = len(u0)
    In = np.eye(n)
    Uo = np.asarray(Uold, dtype=float).reshape(M * n)
    rhs = np.kron(np.ones(M), np.asarray(u0, dtype=float)) + np.asarray(tau, dtype=float).reshape(M * n)
    if kind in ('generic_implicit', 'explicit'):
        QD = (mats['QI'] if kind == 'generic_implicit' else mats['QE'])[1:, 1:]
        A = coefF['A']
        lhs = np.eye(M * n) - dt * np.kron(QD, A)
        rhs = rhs + dt * np.kron(Q - QD, A) @ Uo
    elif kind in ('imex_1st_order', 'imex_1st_order_mass'):
        QI, QE = mats['QI'][1:, 1:], mats['QE'][1:, 1:]
        AI, AE = coefF['AI'], coefF['AE']
        Mm = In if mass is None else np.diag(np.asarray(mass, dtype=float))
        lhs = np.kron(np.eye(M), Mm) - dt * (np.kron(QI, AI) + np.kron(QE, AE))
        rhs = np.kron(np.ones(M), Mm @ np.asarray(u0, dtype=float)) + np.asarray(tau, dtype=float).reshape(M * n)
        rhs = rhs + dt * (np.kron(Q - QI, AI) + np.kron(Q - QE, AE)) @ Uo
    elif kind == 'multi_implicit':
        Q1, Q2 = mats['Q1'][1:, 1:], mats['Q2'][1:, 1:]
        A1, A2 = coefF['A1'], coefF['A2']
        # stage 1: (I - dt Q1 x A1) U* = u0 + tau + dt (Q x (A1+A2) - Q1 x A1) Uold   [lower part implicit in U*... ]
        # written node by node because stage 1 uses f(Unew_j) (not U*_j) for j < m
        Un = np.zeros((M, n))
        Uo2 = np.asarray(Uold, dtype=float)
        for m in range(M):
            r = np.asarray(u0, dtype=float) + np.asarray(tau[m], dtype=float)
            for j in range(M):
                r = r + dt * (Q[m, j] * (A1 + A2) - Q1[m, j] * A1) @ Uo2[j]
            for j in range(m):
                r = r + dt * Q1[m, j] * A1 @ Un[j]
            us = np.linalg.solve(In - dt * Q1[m, m] * A1, r)
            r2 = us.copy()
            for j in range(M):
                r2 = r2 - dt * Q2[m, j] * A2 @ Uo2[j]
            for j in range(m):
                r2 = r2 + dt * Q2[m, j] * A2 @ Un[j]
            Un[m] = np.linalg.solve(In - dt * Q2[m, m] * A2, r2)
        return Un
    else:
        raise NotImplementedError(kind)
    return np.linalg.solve(lhs, rhs).reshape(M, n)

import numpy as np, z3, time, logging, sys, struct
from fractions import Fraction
from symx import Ctx, SymBool, S
import symx
from pySDC.core.problem import Problem
from pySDC.core.sweeper import Sweeper
from pySDC.core.hooks import Hooks
from pySDC.implementations.datatype_classes.mesh import mesh
from pySDC.implementations.controller_classes.controller_nonMPI import controller_nonMPI
logging.disable(logging.CRITICAL)
F64=z3.Float64(); RNE=z3.RNE()
class F:
    """concolic IEEE double: concrete value v + symbolic term t"""
    def __init__(s,v,t=None): s.v=float(v); s.t=t if t is not None else z3.FPVal(float(v),F64)
    @staticmethod
    def c(o): return o if isinstance(o,F) else F(float(o))
    def __add__(s,o):
        if not isinstance(o,F) and float(o)==0.0: return s
        o=F.c(o); return F(s.v+o.v,z3.fpAdd(RNE,s.t,o.t))
    def __radd__(s,o):
        if not isinstance(o,F) and float(o)==0.0: return s
        o=F.c(o); return F(o.v+s.v,z3.fpAdd(RNE,o.t,s.t))
    def __sub__(s,o):
        if not isinstance(o,F) and float(o)==0.0: return s
        o=F.c(o); return F(s.v-o.v,z3.fpSub(RNE,s.t,o.t))
    def __rsub__(s,o): o=F.c(o); return F(o.v-s.v,z3.fpSub(RNE,o.t,s.t))
    def __mul__(s,o):
        if not isinstance(o,F) and float(o)==1.0: return s
        o=F.c(o); return F(s.v*o.v,z3.fpMul(RNE,s.t,o.t))
    __rmul__=__mul__
    def __truediv__(s,o):
        if not isinstance(o,F) and float(o)==1.0: return s
        o=F.c(o); return F(s.v/o.v,z3.fpDiv(RNE,s.t,o.t))
    def _cmp(pyop,zop):
        def g(s,o):
            o=F.c(o); v=pyop(s.v,o.v)
            if s.t.eq(o.t): return v
            t=zop(s.t,o.t); Ctx.cur.pc.append(t if v else z3.Not(t)); return v
        return g
    import operator as _o
    __lt__=_cmp(_o.lt,z3.fpLT); __le__=_cmp(_o.le,z3.fpLEQ); __gt__=_cmp(_o.gt,z3.fpGT); __ge__=_cmp(_o.ge,z3.fpGEQ); __eq__=_cmp(_o.eq,z3.fpEQ)
    def __hash__(s): return hash(s.v)
    def __format__(s,spec): return format(s.v,spec)
    def __float__(s): return s.v
class TokProb(Problem):
    dtype_u=mesh; dtype_f=mesh
    def __init__(self): super().__init__(init=(1,None,np.dtype('d')))
    def eval_f(self,u,t): return self.dtype_f(self.init)
class ProbeSweeper(Sweeper):
    def predict(self):
        L=self.level; P=L.prob
        for m in range(1,self.coll.num_nodes+1): L.u[m]=P.dtype_u(L.u[0]); L.f[m]=P.eval_f(L.u[m],L.time)
        L.f[0]=P.eval_f(L.u[0],L.time); L.status.unlocked=True; L.status.updated=True
    def update_nodes(self): self.level.status.updated=True
    def compute_residual(self,stage=''): self.level.status.residual=0.0; self.level.status.updated=False
    def integrate(self): raise NotImplementedError
    def compute_end_point(self): L=self.level; L.uend=L.prob.dtype_u(L.u[0])
STARTS=[]
class Rec(Hooks):
    def post_step(self,step,level_number):
        super().post_step(step,level_number); STARTS.append(step.levels[0].time)
N=int(sys.argv[1])
t0,dt,Tend=F(0.0,z3.FP('t0',F64)),F(1.0,z3.FP('dt',F64)),F(N-0.5,z3.FP('Tend',F64))
# with NP=1: decisions are: initial active?, then after each step active?  -> N times True then False

Ctx.cur=Ctx()
d=dict(problem_class=TokProb,problem_params={},sweeper_class=ProbeSweeper,sweeper_params={'num_nodes':1,'quad_type':'RADAU-RIGHT'},
       level_params={'dt':dt,'restol':1.0},step_params={'maxiter':1})
ctl=controller_nonMPI(1,{'logger_level':50,'hook_class':[Rec]},d)
P=ctl.MS[0].levels[0].prob
try:
    u,st=ctl.run(P.dtype_u(P.init),t0,Tend)
    print('run ok; steps',len(STARTS),'decisions used',Ctx.cur.pos)
except Exception as e:
    import traceback; traceback.print_exc(); sys.exit(1)
pc=Ctx.cur.pc
print('path condition atoms:',len(pc)); 
for a in pc: print('  ',z3.simplify(a) if False else a)
# query: N steps taken although exact t0+(N-1)*dt >= Tend (binary128)
Q=z3.FPSort(15,113)
q=z3.fpToFP(RNE,t0.t,Q); qd=z3.fpToFP(RNE,dt.t,Q)
for _ in range(N-1): q=z3.fpAdd(RNE,q,qd)
s=z3.Solver(); s.set('timeout',600000)
for v in (t0.t,dt.t,Tend.t): s.add(z3.Not(z3.fpIsNaN(v)),z3.Not(z3.fpIsInf(v)))
s.add(z3.fpGEQ(t0.t,z3.FPVal(0.0,F64)),z3.fpLEQ(t0.t,z3.FPVal(1048576.0,F64)),z3.fpGEQ(dt.t,z3.FPVal(1/1024,F64)),z3.fpLEQ(dt.t,z3.FPVal(1024.0,F64)))
s.add(pc); s.add(z3.fpGEQ(q,z3.fpToFP(RNE,Tend.t,Q)))
t=time.time(); r=s.check(); print('N',N,'extra-step query',r,round(time.time()-t,1))
if r==z3.sat:
    m=s.model()
    def val(v):
        x=m.eval(v); b=(int(str(x.sign_as_bv()))<<63)|(x.exponent_as_long(True)<<52)|x.significand_as_long(); return struct.unpack('>d',struct.pack('>Q',b))[0]
    print({k:repr(val(v)) for k,v in (('t0',t0.t),('dt',dt.t),('Tend',Tend.t))})

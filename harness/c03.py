"""C03 -- reported residual is the true collocation defect; stopping is sound"""
import json
import random
from types import SimpleNamespace

import numpy as np
import z3

from symx import core
from symx import pysdc as sp
from symx.core import SymReal, SymInt, SymBool, R, rv, explore, prove, satisfiable, coverage_certificate, zabs, zmax, evalf
from harness import common as cm
from harness import sweepspec as ss
from harness import c02

PID = 'C03'
BOUNDS = {'quick': dict(defect_M='2..3', stop_rule='unbounded ints/reals (single call)', controller='NP<=3, levels<=3, Kmax<=3', freshness='NP<=2, levels<=2, maxiter<=3'), 'thorough': dict(defect_M='1..5', controller='NP<=4, levels<=3, Kmax<=4', freshness='NP<=3, levels<=2, maxiter<=4')}
RES_TYPES = ['full_abs', 'last_abs', 'full_rel', 'last_rel']
C03_CLAUSES = ('budget', 'niter-record', 'iter-counter', 'done-without-sweep', 'exception', 'finished-above-restol')


def describe(rep):
    from pySDC.core.sweeper import Sweeper
    from pySDC.implementations.sweeper_classes.imex_1st_order_mass import imex_1st_order_mass
    from pySDC.implementations.convergence_controller_classes.check_convergence import CheckConvergence
    from pySDC.implementations.controller_classes.controller_nonMPI import controller_nonMPI as C

    rep.func(Sweeper.compute_residual, imex_1st_order_mass.compute_residual, CheckConvergence.check_convergence, C.it_check, C.restart_block)
    rep.explanation = (
        '(a) real compute_residual executed on arbitrary symbolic node values/tau/dt/coefficients: the reported residual term equals the '
        'configured norm of u0 + dt Q F(U) + tau - U (validity query per sweeper x residual type). (c) real CheckConvergence.check_convergence '
        'executed with symbolic iter, maxiter, sweep (ints), residual, restol (reals) and force flags: every path enumerated, result compared '
        'with the stopping rule, coverage certified. (d) real controller explored over all residual sequences (fresh reals per step x iteration), '
        'symbolic maxiter: iteration counter never exceeds the budget unless continuation is forced, logged niter = number of iteration '
        'callbacks, a step finished without a fine sweep must have exhausted its budget or been forced. (b) whole runs with the real residual on '
        'symbolic initial values: the residual recorded at post_iteration/post_step is the defect of the node values held at that moment.'
    )
    rep.rule = 'case = (sweeper, M, residual type, tau, node family, level, fresh level / level that held other values at the same time before) for (a); execution path for (c), (d), (b)'
    rep.assume('reals for floats on the data path', 'linear stub problems with symbolic coefficients', 'dt > 0; |u0| > 0 for relative residual types')
    rep.out_of_scope('MPI sweepers (Allreduce based residual)', 'skip_residual_computation (documented to give incorrect residuals)')


def tasks(tier, seed):
    T = []
    quick = tier == 'quick'
    for kind in ['generic_implicit', 'explicit', 'imex_1st_order', 'multi_implicit', 'imex_1st_order_mass']:
        for M in ([2, 3] if quick else [1, 2, 3, 4, 5]):
            for rt in RES_TYPES:
                for tau in (False, True):
                    for n in ((1, 2) if kind in ('generic_implicit', 'imex_1st_order') and M <= 3 else (1,)):
                        T.append(('defect', kind, M, rt, tau, n))
    # other node families: a node on the left end (its row of Q is zero, its defect is u0 - u1), no node on either end
    for kind in ['generic_implicit', 'imex_1st_order', 'explicit', 'multi_implicit', 'imex_1st_order_mass']:
        for quad in ('LOBATTO', 'RADAU-LEFT', 'GAUSS'):
            for M in ([2, 3] if quick else [2, 3, 4]):
                for rt in (RES_TYPES if kind in ('generic_implicit', 'imex_1st_order') or not quick else RES_TYPES[:2]):
                    T.append(('defect', kind, M, rt, quad == 'LOBATTO', 1, quad))
    # the residual a COARSE level reports (the mass-matrix sweeper treats the start value differently there; the other sweepers must not care)
    for kind in ['imex_1st_order_mass', 'generic_implicit', 'imex_1st_order']:
        for M in ([2] if quick else [2, 3]):
            for rt in RES_TYPES:
                T.append(('defect', kind, M, rt, True, 1, 'RADAU-RIGHT', 1))
    # the residual of the values held NOW, after the level held other values at the same time (all residual types; the relative ones divide by the norm of the CURRENT initial value)
    for kind in ['generic_implicit', 'imex_1st_order', 'explicit', 'multi_implicit', 'imex_1st_order_mass']:
        for rt in RES_TYPES:
            T.append(('defect', kind, 2, rt, kind == 'imex_1st_order', 1, 'RADAU-RIGHT', 0, True))
    T.append(('defect', 'generic_implicit', 3, 'full_rel', True, 2, 'RADAU-RIGHT', 0, True))
    T.append(('stoprule',))
    from harness import c07

    for t in c07.tasks(tier, seed, deepest=False):
        if t[7] is None or quick:
            T.append(('ctrl', t))
    for cfg in ([(1, 1, 3, 'full_abs'), (2, 1, 2, 'last_abs'), (2, 1, 3, 'full_abs'), (1, 2, 2, 'full_abs'), (2, 2, 2, 'full_abs')] if quick else
                [(1, 1, 4, 'full_abs'), (2, 1, 3, 'last_abs'), (2, 1, 3, 'full_rel'), (2, 1, 4, 'full_abs'), (1, 2, 3, 'full_abs'), (2, 2, 3, 'full_abs'),
                 (3, 1, 3, 'full_abs'), (3, 2, 2, 'full_abs')]):
        for jac in ((True, False) if cfg[0] > 1 else (True,)):
            T.append(('fresh',) + cfg + (jac,))
            if cfg[0] > 1:
                # never converging (restol = -1): every step iterates to the budget, so later steps receive new values at every iteration
                for pred in ((None,) if cfg[1] == 1 else (None, 'pfasst_burnin')):
                    T.append(('fresh',) + cfg + (jac, -1.0, pred))
    # several fine sweeps per iteration: the residual reported after EVERY sweep is the defect of the values held then
    for cfg, jac in ([((1, 1, 2, 'full_abs'), True), ((2, 1, 2, 'full_abs'), True), ((1, 2, 2, 'last_abs'), True)] if quick else
                     [((1, 1, 3, 'full_abs'), True), ((2, 1, 2, 'full_abs'), True), ((2, 1, 2, 'full_rel'), False), ((1, 2, 2, 'last_abs'), True), ((2, 2, 2, 'full_abs'), True)]):
        T.append(('fresh',) + cfg + (jac, -1.0, 'auto', 2))
        if not quick:
            T.append(('fresh',) + cfg + (jac, 1e-2, 'auto', 3))
    return T


def run_task(rep, task):
    c02._load()
    sp.install_shadows()
    if task[0] == 'defect':
        defect_case(rep, *task[1:])
    elif task[0] == 'stoprule':
        stoprule_case(rep)
    elif task[0] == 'ctrl':
        from harness import c07

        c07.explore_config(rep, task[1], clauses=C03_CLAUSES, pid=PID)
    elif task[0] == 'fresh':
        from harness.wholerun import freshness_case

        freshness_case(rep, *task[1:])


def znorm(rows):
    return zmax([zabs(x) for row in rows for x in row])


def defect_case(rep, kind, M, rt, with_tau, n, quad='RADAU-RIGHT', lvl=0, prior=False):
    name = f'defect/{kind}/M{M}/{rt}/tau{int(with_tau)}/n{n}' + ('' if quad == 'RADAU-RIGHT' else f'/{quad}') + (f'/level{lvl}' if lvl else '') + ('/after-other-values-at-the-same-time' if prior else '')
    coef = c02.sym_coefs(kind, n)
    mass = [SymReal(z3.Real('mass_0'))] if kind == 'imex_1st_order_mass' else None
    dtv = z3.Real('dt')
    qd = {'generic_implicit': ('LU',), 'explicit': ('EE',), 'imex_1st_order': ('LU', 'EE'), 'imex_1st_order_mass': ('LU', 'EE'),
          'multi_implicit': ('LU', 'IE')}[kind]
    if quad != 'RADAU-RIGHT':  # (LU is not defined for every node set with a left end node)
        qd = tuple('IE' if q == 'LU' else q for q in qd)

    def build(dt, coef_, mass_, float_mode=False, env=None):
        if float_mode:
            pc, pp = c02.float_problem_for(kind, coef_, mass_)
        else:
            pc, pp = c02.problem_for(kind, coef_, mass_)
        L = cm.make_level(pc, pp, c02.SWEEPERS[kind], c02.sweeper_params(kind, M, 'LEGENDRE', quad, qd, False), dt, residual_type=rt, level_index=lvl)
        return L

    def fn(c):
        c.add(dtv > 0)
        L = build(SymReal(dtv), coef, mass)
        if prior:  # the level held OTHER values (another initial value in particular) at the same time before and its residual was computed then: a step
            # whose predecessor sends a new value, or a second run from the same start time.  The residual reported now belongs to the values held now.
            V0 = cm.fill_level(L, with_tau, n, prefix='p')
            c.add(z3.Or([v != 0 for v in V0['u0']]))
            L.sweep.compute_residual(stage='IT_CHECK')
        V = cm.fill_level(L, with_tau, n)
        if rt.endswith('rel'):
            c.add(z3.Or([v != 0 for v in V['u0']]))
        L.sweep.compute_residual(stage='IT_CHECK')
        vec = None
        if kind != 'imex_1st_order_mass':
            vec = [sp.terms(L.residual[m]) for m in range(M)]
        return dict(V=V, res=R(L.status.residual), Q=np.array(L.sweep.coll.Qmat), vec=vec, V0=(V0 if prior else None))

    paths = explore(fn)
    rep.paths += len(paths)
    for p in paths:
        r = p.result
        V = r['V']
        zc = coef
        d = ss.spec_defect(kind, r['Q'], zc, dtv, V['u0'], V['U'], V['tau'], mass, coarse=bool(lvl))
        if rt == 'full_abs':
            spec = znorm(d)
        elif rt == 'last_abs':
            spec = znorm(d[-1:])
        elif rt == 'full_rel':
            spec = znorm(d) / znorm([V['u0']])
        else:
            spec = znorm(d[-1:]) / znorm([V['u0']])
        assumptions = list(p.assume) + list(p.pc)
        if r['vec'] is not None:
            # split: (i) the defect vector held on the level equals the specification entry by entry (no abs/max involved),
            #        (ii) the reported number is the configured norm of exactly that vector
            g1 = z3.And([a == b for ra, rb in zip(r['vec'], d) for a, b in zip(ra, rb)])
            res1, model = prove(g1, assumptions, timeout_ms=120000, name=name + ':vector')
            rep.ob(name + ':vector', res1)
            vn = znorm(r['vec']) if rt.startswith('full') else znorm(r['vec'][-1:])
            if rt.endswith('rel'):
                vn = vn / znorm([V['u0']])
            # abstraction: the entries of the defect vector occur as sub-terms of the reported residual; replacing them by fresh
            # variables turns (ii) into a linear query about max/abs only (sound: equal terms are replaced by equal variables)
            flat = [x for row in r['vec'] for x in row]
            subs = [(t, z3.Real(f'e!{i}')) for i, t in enumerate(flat) if not z3.is_rational_value(t)]
            goal2 = z3.substitute(r['res'] == vn, *subs) if subs else (r['res'] == vn)
            res, model2 = prove(goal2, assumptions, timeout_ms=120000, name=name + ':norm')
            if res == 'sat':  # the abstraction may be too coarse: decide the concrete query
                res, model2 = prove(r['res'] == vn, assumptions, timeout_ms=120000, name=name + ':norm-concrete')
            rep.ob(name + ':norm', res)
            if res1 == 'sat':
                res = 'sat'
            else:
                model = model2
        else:
            res, model = prove(r['res'] == spec, assumptions, timeout_ms=120000, name=name)
            rep.ob(name, res)
        allv = cm.all_vars(V) + [dtv] + [x.t for v in coef.values() for row in v for x in row] + ([mass[0].t] if mass else []) + (cm.all_vars(r['V0']) if prior else [])
        if res == 'sat':
            env = cm.model_env(model, allv)
            defect_triage(rep, kind, M, rt, with_tau, n, qd, env, name, quad, lvl, prior)
        if with_tau and n == 1:
            # sensitivity: a specification without tau on the last node must be refuted
            d2 = ss.spec_defect(kind, r['Q'], zc, dtv, V['u0'], V['U'], V['tau'][:-1] + [[z3.RealVal(0)] * n], mass, coarse=bool(lvl))
            bad = znorm(d2) if rt.startswith('full') else znorm(d2[-1:])
            if rt.endswith('rel'):
                bad = bad / znorm([V['u0']])
            res2, _ = prove(r['res'] == bad, assumptions, name=name + ':mutated', kind='vacuity')
            rep.vac(name + ':mutated-spec-refuted', res2, 'sat')
        rng = random.Random(hash(name) % 99991 + rep.seed)
        env = cm.random_env(allv, rng)
        env['dt'] = rng.uniform(0.05, 0.5)
        if mass:
            env['mass_0'] = rng.uniform(0.5, 2)
        try:
            obs, exp = defect_float(kind, M, rt, with_tau, n, qd, env, quad, lvl)
            got = evalf(r['res'], env)
            rep.translator += 1
            if not cm.rel_close(got, obs, 1e-7):
                rep.error(f'translator validation failed for {name}: term {got} vs float run {obs}')
        except ZeroDivisionError:
            pass
    rep.sample({'case': name, 'free_variables': 'u0, U, tau, dt, coefficients'}, limit=4)


def defect_float(kind, M, rt, with_tau, n, qd, env, quad='RADAU-RIGHT', lvl=0, prior=False):
    """real float compute_residual vs numpy defect norm"""
    coefF = {nm: np.array([[env[f'{nm}_{i}{j}'] for j in range(n)] for i in range(n)]) for nm in c02.COEF_NAMES[kind]}
    mass = [env['mass_0']] if kind == 'imex_1st_order_mass' else None
    pc, pp = c02.float_problem_for(kind, coefF, mass)
    L = cm.make_level(pc, pp, c02.SWEEPERS[kind], c02.sweeper_params(kind, M, 'LEGENDRE', quad, qd, False), env['dt'], residual_type=rt, level_index=lvl)
    P = L.prob
    u0 = np.array([env[f'u0_{i}'] for i in range(n)])
    U = np.array([[env[f'U{m}_{i}'] for i in range(n)] for m in range(1, M + 1)])
    tau = np.array([[env[f'tau{m}_{i}'] if with_tau else 0.0 for i in range(n)] for m in range(M)])
    if prior:
        for m in range(M + 1):
            L.u[m] = P.dtype_u(P.init)
            L.u[m][:] = np.array([env.get(f'pu0_{i}', 1.0) for i in range(n)]) if m == 0 else np.array([env.get(f'pU{m}_{i}', 0.5) for i in range(n)])
            L.f[m] = P.eval_f(L.u[m], 0.0)
            if with_tau and m:
                L.tau[m - 1] = P.dtype_u(P.init)
                L.tau[m - 1][:] = np.array([env.get(f'ptau{m - 1}_{i}', 0.0) for i in range(n)])
        L.sweep.compute_residual(stage='IT_CHECK')
    L.u[0] = P.dtype_u(P.init)
    L.u[0][:] = u0
    L.f[0] = P.eval_f(L.u[0], 0.0)
    for m in range(1, M + 1):
        L.u[m] = P.dtype_u(P.init)
        L.u[m][:] = U[m - 1]
        L.f[m] = P.eval_f(L.u[m], 0.0)
        if with_tau:
            L.tau[m - 1] = P.dtype_u(P.init)
            L.tau[m - 1][:] = tau[m - 1]
    L.sweep.compute_residual(stage='IT_CHECK')
    obs = float(L.status.residual)
    F = sum(coefF.values())
    Q = L.sweep.coll.Qmat[1:, 1:]
    Mm = np.eye(n) if mass is None else np.diag(mass)
    d = (u0 if lvl else Mm @ u0)[None, :] + env['dt'] * Q @ (U @ F.T) + tau - U @ Mm.T
    nd = np.abs(d).max() if rt.startswith('full') else np.abs(d[-1]).max()
    if rt.endswith('rel'):
        nd = nd / np.abs(u0).max()
    return obs, float(nd)


def defect_triage(rep, kind, M, rt, with_tau, n, qd, env, name, quad='RADAU-RIGHT', lvl=0, prior=False):
    rep.replayed += 1
    try:
        obs, exp = defect_float(kind, M, rt, with_tau, n, qd, env, quad, lvl, prior)
    except Exception as e:
        rep.unreproduced(name, f'{type(e).__name__}: {e}')
        return
    if abs(obs - exp) > 1e-8 * (1 + abs(exp)):
        clause = 'residual-of-earlier-values' if prior else 'coarse-level-residual' if lvl else ('residual-type-ignored' if kind == 'imex_1st_order_mass' and rt != 'full_abs' else 'residual-is-defect')
        rep.violation(f'{PID}/{kind}/{clause}', f'{name}: reported residual {obs:.6e} but the {rt} norm of the defect is {exp:.6e}',
                      {'task': ['defect', kind, M, rt, with_tau, n, quad, lvl, prior], 'qd': list(qd), 'env': env, 'observed': obs, 'expected': exp})
    else:
        rep.unreproduced(name, {'env': env, 'observed': obs, 'expected': exp})


class _Lp:
    def __init__(self, restol):
        self.restol = restol

    def get(self, k, d=None):
        return getattr(self, k, d)


def stoprule_case(rep):
    from pySDC.implementations.convergence_controller_classes.check_convergence import CheckConvergence
    from pySDC.core.level import _Status as LStatus, _Pars as LPars
    from pySDC.core.step import _Status as SStatus, _Pars as SPars

    it, mx, sw = z3.Ints('it mx sw')
    res, tol = z3.Reals('res tol')
    fd, fc = z3.Bools('fd fc')
    pre = [it >= 0, mx >= 0, sw >= 0, res >= 0]

    def fn(c):
        for a in pre:
            c.add(a)
        # the real status / parameter classes of Level and Step
        lst = LStatus()
        lst.residual = SymReal(res)
        lst.sweep = SymInt(sw)
        lpar = LPars({'dt': 0.1, 'restol': SymReal(tol)})
        sst = SStatus()
        sst.iter = SymInt(it)
        sst.force_done = SymBool(fd)
        sst.force_continue = SymBool(fc)
        spar = SPars({'maxiter': SymInt(mx)})
        St = SimpleNamespace(levels=[SimpleNamespace(status=lst, params=lpar)], status=sst, params=spar)
        return bool(CheckConvergence.check_convergence(St))

    paths = explore(fn)
    rep.paths += len(paths)
    rep.decisions += sum(len(p.decisions) for p in paths)
    # the stopping rule of the property
    rule = z3.And(z3.Or(it >= mx, z3.And(res <= tol, z3.Or(it > 0, sw > 0)), fd), z3.Not(fc))
    for i, p in enumerate(paths):
        r, model = prove(rule == z3.BoolVal(p.result), pre + list(p.pc), name=f'stoprule/path{i}')
        rep.ob(f'stoprule/path{i}', r)
        if r == 'sat':
            vals = {str(v): core.model_value(model, v) for v in (it, mx, sw, res, tol, fd, fc)}
            # replay concretely
            St = SimpleNamespace(levels=[SimpleNamespace(status=SimpleNamespace(residual=float(vals['res']), sweep=int(vals['sw']), get=lambda k, d=None: d),
                                                         params=_Lp(float(vals['tol'])))],
                                 status=SimpleNamespace(iter=int(vals['it']), force_done=bool(vals['fd']), force_continue=bool(vals['fc'])),
                                 params=SimpleNamespace(maxiter=int(vals['mx'])))
            rep.replayed += 1
            got = bool(CheckConvergence.check_convergence(St))
            exp = ((vals['it'] >= vals['mx']) or (vals['res'] <= vals['tol'] and (vals['it'] > 0 or vals['sw'] > 0)) or bool(vals['fd'])) and not bool(vals['fc'])
            if got != exp:
                rep.violation(f'{PID}/check_convergence/stopping-rule', f'check_convergence returns {got} for {vals}, the stopping rule gives {exp}',
                              {'task': ['stoprule'], 'values': {k: str(v) for k, v in vals.items()}, 'observed': got, 'expected': exp})
            else:
                rep.unreproduced(f'stoprule/path{i}', vals)
    r = coverage_certificate(paths, pre, name='stoprule/coverage')
    rep.ob('stoprule/coverage', r)
    r, _ = prove(z3.And(z3.Or(it >= mx, res <= tol, fd), z3.Not(fc)) == z3.BoolVal(paths[0].result), pre + list(paths[0].pc), name='stoprule/mutated', kind='vacuity')
    both = {p.result for p in paths}
    rep.vac('stoprule/both-outcomes-reachable', 'sat' if both == {True, False} else 'unsat', 'sat')
    # residual values that are not real numbers (an overflowing run reports inf or NaN): not 'at most restol', so only the budget or a flag may stop the step
    # (ENUMERATED, concrete: the reals of the queries above do not contain them)
    for resv in (float('nan'), float('inf')):
        for itv, mxv, fdv, fcv in ((1, 5, False, False), (0, 5, False, False), (3, 3, False, False), (7, 3, False, False), (1, 5, True, False), (3, 3, False, True), (1, 5, True, True)):
            St = SimpleNamespace(levels=[SimpleNamespace(status=SimpleNamespace(residual=resv, sweep=1, get=lambda k, d=None: d), params=_Lp(1e-8))],
                                 status=SimpleNamespace(iter=itv, force_done=fdv, force_continue=fcv), params=SimpleNamespace(maxiter=mxv))
            got = bool(CheckConvergence.check_convergence(St))
            exp = ((itv >= mxv) or fdv) and not fcv
            rep.translator += 1
            if got != exp:
                rep.violation(f'{PID}/check_convergence/stopping-rule/non-finite-residual', f'check_convergence returns {got} for residual {resv}, iter {itv}, maxiter {mxv}, force_done {fdv}, force_continue {fcv}; a residual that is not a number is not within the tolerance: {exp} expected',
                              {'task': ['stoprule'], 'values': {'res': str(resv), 'it': itv, 'mx': mxv, 'fd': fdv, 'fc': fcv, 'tol': 1e-8, 'sw': 1}, 'observed': got, 'expected': exp})
                break
    rep.sample({'case': 'stoprule', 'paths': len(paths), 'free_variables': 'iter, maxiter, sweep, residual, restol, force_done, force_continue'})


def replay(path):
    d = json.load(open(path))['replay']
    t = d['task']
    c02._load()
    if t[0] == 'defect':
        obs, exp = defect_float(t[1], t[2], t[3], t[4], t[5], tuple(d['qd']), d['env'], t[6] if len(t) > 6 else 'RADAU-RIGHT', t[7] if len(t) > 7 else 0, bool(t[8]) if len(t) > 8 else False)
        print('observed', obs, 'expected', exp)
        bad = abs(obs - exp) > 1e-8 * (1 + abs(exp))
    elif isinstance(t[0], int) or t[0] is None or len(t) == 8:
        from harness import c07

        return c07.replay(path)
    elif t[0] == 'stoprule':
        v = d['values']
        St = SimpleNamespace(levels=[SimpleNamespace(status=SimpleNamespace(residual=float(v['res']), sweep=int(v['sw']), get=lambda k, d_=None: d_), params=_Lp(float(v['tol'])))],
                             status=SimpleNamespace(iter=int(v['it']), force_done=str(v['fd']) == 'True', force_continue=str(v['fc']) == 'True'), params=SimpleNamespace(maxiter=int(v['mx'])))
        got = bool(CheckConvergence.check_convergence(St))
        print('check_convergence returns', got, 'expected', d['expected'])
        bad = got != d['expected']
    else:
        print('replay of', t[0], 'is the recorded concrete re-execution:', d)
        bad = True
    print('REPRODUCED' if bad else 'not reproduced')
    return 1 if bad else 0

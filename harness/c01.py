"""C01 -- a converged SDC / MLSDC / PFASST run returns the fine collocation solution.

Whole runs of the real controller, sweepers, BaseTransfer and CheckConvergence on a symbolic initial value; the residual test forks.
For every step that stopped by the residual criterion:  PC => |uend - V_M| <= c * restol, where V is DEFINED INSIDE THE QUERY by the
fine collocation equations V_m = u0 + dt sum_j Q[m,j] A V_j for the start value u0 the step actually used (which must be the previous
step's end value)."""
import json
import random

import numpy as np
import z3

from symx import core
from symx import pysdc as sp
from symx.core import R, rv, frac, explore, prove, satisfiable, coverage_certificate, zabs, model_value
from harness import wholerun as wr
from harness.common import zmatvec

PID = 'C01'
BOUNDS = {'quick': dict(M='<=3', n='<=3', parallel_steps='1..3', levels='1..3', maxiter='<=5', configurations=27, restol=1e-3, dt=0.25), 'thorough': dict(M='<=3', n='<=3 (3 only single-step single-level)', parallel_steps='1..3', levels='1..3', maxiter='<=4', configurations='<=240 sampled by VERIF_SEED')}


def describe(rep):
    from pySDC.implementations.controller_classes.controller_nonMPI import controller_nonMPI as C
    from pySDC.core.base_transfer import BaseTransfer
    from pySDC.core.sweeper import Sweeper
    from pySDC.implementations.convergence_controller_classes.check_convergence import CheckConvergence
    from harness import c02

    c02._load()
    rep.func(C.run, C.restart_block, C.pfasst, C.spread, C.predict, C.it_check, C.it_fine, C.it_down, C.it_coarse, C.it_up, C.send_full, C.recv_full,
             BaseTransfer.restrict, BaseTransfer.prolong, BaseTransfer.prolong_f, Sweeper.predict, Sweeper.compute_residual, CheckConvergence.check_convergence)
    for k in ('generic_implicit', 'imex_1st_order', 'explicit', 'multi_implicit'):
        rep.func(c02.SWEEPERS[k].update_nodes, c02.SWEEPERS[k].integrate, c02.SWEEPERS[k].compute_end_point)
    rep.explanation = __doc__
    rep.rule = ('case = one execution path of a whole run (which step stopped at which iteration) of one configuration; non-trivial = at least one step '
                'stopped by tolerance, so that a collocation obligation was discharged; runs from t0 = 0 and from t0 != 0, with the clause that the k-th accepted step covers [t0 + k dt, t0 + (k+1) dt]')
    rep.assume('linear problems u\' = A u with exact rational solves (scalar/vector Dahlquist, FD heat and advection matrices built by the real helper)',
               'reals for floats', 'identity (injection) space transfer between levels; coarsening in the collocation nodes',
               'initial value in [-1, 1]^n', 'c = 1.01 * max abs row sum of the last-node rows of (I - dt Q x A)^-1 (computed in floats, 1 % margin)',
               'claims are made for the residual types full_abs (and full_rel scaled by |u0|): a last-node-only residual does not bound the other nodes')
    rep.out_of_scope('nonlinear problems', 'n > 3, more than 3 steps, more than 3 levels', 'paths that stop by the iteration budget (no claim)',
                     'the configuration product is enumerated / sampled, not solved', 'rounding')


def cfgs(tier, seed):
    out = []
    quick = tier == 'quick'
    base = dict(dt=0.25, restol=1e-3)
    if quick:
        for sw, qd in (('generic_implicit', 'LU'), ('generic_implicit', 'IE'), ('generic_implicit', 'MIN-SR-S'), ('imex_1st_order', 'LU'), ('multi_implicit', 'LU')):
            out.append(dict(base, sweeper=sw, qd=qd, prob='dahlquist', n=1, M=[2], NP=1, maxiter=4))
        out.append(dict(base, sweeper='generic_implicit', qd='LU', prob='heat', n=3, M=[2], NP=1, maxiter=2))
        out.append(dict(base, sweeper='generic_implicit', qd='LU', prob='dahlquist', n=2, M=[2], NP=2, maxiter=3, jac=False))
        out.append(dict(base, sweeper='generic_implicit', qd='LU', prob='dahlquist', n=1, M=[2], NP=3, maxiter=2, jac=True))
        out.append(dict(base, sweeper='generic_implicit', qd='LU', prob='dahlquist', n=1, M=[3, 2, 1], NP=1, maxiter=2, predict='fine_only', nsweeps=2))
        out.append(dict(base, sweeper='generic_implicit', qd='LU', prob='dahlquist', n=1, M=[2, 2], NP=2, maxiter=2, predict='pfasst_burnin', finter=True))
        out.append(dict(base, sweeper='generic_implicit', qd='LU', prob='dahlquist', n=1, M=[2], NP=1, maxiter=3, residual_type='full_rel'))
        out.append(dict(base, sweeper='generic_implicit', qd='LU', prob='dahlquist', n=1, M=[2], NP=2, maxiter=3, quad_type='GAUSS', jac=True))
        out.append(dict(base, sweeper='generic_implicit', qd='LU', prob='dahlquist', n=1, M=[3], NP=2, maxiter=5, quad_type='LOBATTO', jac=False))
        out.append(dict(base, sweeper='generic_implicit', qd='IE', prob='dahlquist', n=1, M=[3], NP=2, maxiter=6, quad_type='LOBATTO', jac=True))
        out.append(dict(base, sweeper='generic_implicit', qd='LU', prob='dahlquist', n=1, M=[3], NP=1, maxiter=5, quad_type='LOBATTO', initial_guess='zero'))
        out.append(dict(base, sweeper='generic_implicit', qd='LU', prob='dahlquist', n=1, M=[2], NP=1, maxiter=5, quad_type='RADAU-LEFT', initial_guess='zero'))
        out.append(dict(base, sweeper='generic_implicit', qd='LU', prob='dahlquist', n=1, M=[2], NP=3, maxiter=2, quad_type='GAUSS', jac=True))
        out.append(dict(base, sweeper='generic_implicit', qd='LU', prob='dahlquist', n=1, M=[2], NP=2, maxiter=4, jac=True, all_to_done=True))
        out.append(dict(base, sweeper='generic_implicit', qd='LU', prob='dahlquist', n=1, M=[2, 1], NP=2, maxiter=3, predict='pfasst_burnin', all_to_done=True))
        out.append(dict(base, sweeper='imex_1st_order', qd='LU', prob='dahlquist', n=1, M=[2], NP=2, maxiter=4, jac=False, cu=True))
        out.append(dict(base, sweeper='imex_1st_order', qd='IE', prob='dahlquist', n=2, M=[2, 1], NP=1, maxiter=3, predict=None))
        out.append(dict(base, sweeper='generic_implicit', qd='LU', prob='dahlquist', n=1, M=[3], NP=1, maxiter=3))
        out.append(dict(base, sweeper='explicit', qd='EE', prob='dahlquist', n=1, M=[2], NP=1, maxiter=5))
        # a full block followed by a shorter last block (number of steps not a multiple of the steps per block)
        out.append(dict(base, sweeper='generic_implicit', qd='LU', prob='dahlquist', n=1, M=[2], NP=2, maxiter=3, jac=False, nsteps=3))
        out.append(dict(base, sweeper='generic_implicit', qd='IE', prob='dahlquist', n=1, M=[2, 1], NP=2, maxiter=2, predict='fine_only', nsteps=3))
        # runs that do not start at time zero (the steps of the first block must sit at t0 + k dt as well)
        out.append(dict(base, sweeper='generic_implicit', qd='LU', prob='dahlquist', n=1, M=[2], NP=2, maxiter=3, jac=False, nsteps=3, t0=1.5))
        out.append(dict(base, sweeper='generic_implicit', qd='IE', prob='dahlquist', n=1, M=[2, 1], NP=3, maxiter=2, t0=-0.75))
        # other node families (the description's node_type must reach the collocation object)
        out.append(dict(base, sweeper='generic_implicit', qd='IE', prob='dahlquist', n=1, M=[3], NP=1, maxiter=6, node_type='EQUID'))
        out.append(dict(base, sweeper='imex_1st_order', qd='IE', prob='dahlquist', n=1, M=[3], NP=2, maxiter=4, node_type='CHEBY-2', quad_type='GAUSS', jac=False))
        # different preconditioners for the two implicit parts
        out.append(dict(base, sweeper='multi_implicit', qd='LU', qd2='IE', prob='dahlquist', n=1, M=[3], NP=1, maxiter=6))
        # relative residual with a left end node (the first node's residual is identically zero there)
        out.append(dict(base, sweeper='generic_implicit', qd='LU', prob='dahlquist', n=1, M=[3], NP=1, maxiter=5, quad_type='LOBATTO', residual_type='full_rel', initial_guess='zero'))
        out.append(dict(base, sweeper='generic_implicit', qd='LU', prob='dahlquist', n=1, M=[2], NP=2, maxiter=5, quad_type='RADAU-LEFT', residual_type='full_rel', jac=False))
        # end value by quadrature (no right end node) for the other sweepers too
        out.append(dict(base, sweeper='explicit', qd='EE', prob='dahlquist', n=1, M=[2], NP=1, maxiter=6, quad_type='GAUSS'))
        out.append(dict(base, sweeper='explicit', qd='EE', prob='dahlquist', n=1, M=[2], NP=2, maxiter=6, quad_type='RADAU-LEFT', jac=False))
        out.append(dict(base, sweeper='imex_1st_order', qd='LU', prob='dahlquist', n=1, M=[2], NP=1, maxiter=5, quad_type='GAUSS'))
        out.append(dict(base, sweeper='multi_implicit', qd='LU', prob='dahlquist', n=1, M=[2], NP=1, maxiter=5, quad_type='RADAU-LEFT'))
        for jac in (True, False):
            out.append(dict(base, sweeper='generic_implicit', qd='LU', prob='dahlquist', n=1, M=[2], NP=2, maxiter=3, jac=jac))
        for pred in (None, 'fine_only', 'pfasst_burnin'):
            out.append(dict(base, sweeper='generic_implicit', qd='LU', prob='dahlquist', n=1, M=[2, 1], NP=1, maxiter=3, predict=pred))
        out.append(dict(base, sweeper='generic_implicit', qd='LU', prob='dahlquist', n=1, M=[2, 1], NP=2, maxiter=2, predict='pfasst_burnin'))
        out.append(dict(base, sweeper='generic_implicit', qd='LU', prob='dahlquist', n=1, M=[2], NP=1, maxiter=3, blocks=2))
        out.append(dict(base, sweeper='generic_implicit', qd='LU', prob='dahlquist', n=1, M=[2], NP=1, maxiter=4, initial_guess='zero'))
        out.append(dict(base, sweeper='imex_1st_order', qd='LU', prob='advection', n=3, M=[2], NP=1, maxiter=3))
    else:
        rng = random.Random(seed)
        from harness.common import IMPLICIT_QD

        for sw in ('generic_implicit', 'imex_1st_order', 'multi_implicit', 'explicit'):
            for prob, n in (('dahlquist', 1), ('dahlquist', 2), ('heat', 3), ('advection', 3)):
                for M in ([2], [3], [2, 1], [3, 2], [3, 2, 1]):
                    for NP in (1, 2, 3):
                        for pred in ((None,) if len(M) == 1 else (None, 'fine_only', 'pfasst_burnin')):
                            out.append(dict(base, sweeper=sw, qd=rng.choice(['IE', 'LU', 'MIN-SR-S', 'MIN', 'Qpar'] if sw != 'explicit' else ['EE']), prob=prob, n=n, M=M, NP=NP,
                                            maxiter=(3 if NP * len(M) * n >= 3 else 4), predict=pred, jac=rng.choice([True, False]),
                                            nsweeps=rng.choice([1, 1, 2]) if len(M) > 1 else 1, residual_type=(rng.choice(['full_abs', 'full_abs', 'full_rel']) if n == 1 else 'full_abs'), quad_type=(rng.choice(['RADAU-RIGHT', 'RADAU-RIGHT', 'LOBATTO', 'GAUSS']) if len(M) == 1 else rng.choice(['RADAU-RIGHT', 'LOBATTO'])),
                                            finter=(rng.random() < 0.3 and len(M) > 1), initial_guess=rng.choice(['spread', 'spread', 'zero', 'copy']),
                                            all_to_done=(rng.random() < 0.25), cu=(rng.random() < 0.2 and len(M) == 1)))
        rng.shuffle(out)
        # size filter: keep the cheap majority, at least 200 configurations
        def ok(c):
            if c.get('quad_type') in ('LOBATTO', 'RADAU-LEFT') and min(c['M']) < 2:
                return False  # these rules need at least two nodes
            if c['n'] >= 3 and (c['NP'] > 1 or len(c['M']) > 1 or c['M'][0] > 2):
                return False  # three coupled unknowns only for single-step single-level runs (solver time, measured)
            return c['NP'] * len(c['M']) * c['n'] <= 4

        out = [c for c in out if ok(c)][:240]
    return out


def tasks(tier, seed):
    return [('run', json.dumps(c, sort_keys=True)) for c in cfgs(tier, seed)]


def run_task(rep, task):
    sp.install_shadows()
    cfg = json.loads(task[1])
    run_case(rep, cfg)


def cname(cfg):
    return (f"{cfg['sweeper']}/{cfg['qd']}/{cfg.get('quad_type', 'RADAU-RIGHT')}/{cfg['prob']}{cfg['n']}/M{'-'.join(map(str, cfg['M']))}/NP{cfg['NP']}x{cfg.get('blocks', 1)}/K{cfg['maxiter']}/"
            f"{cfg.get('predict')}/jac{int(cfg.get('jac', True))}/{cfg.get('residual_type', 'full_abs')}/ns{cfg.get('nsweeps', 1)}/f{int(bool(cfg.get('finter')))}/{cfg.get('initial_guess', 'spread')}"
            + ('/atd' if cfg.get('all_to_done') else '') + ('/cu' if cfg.get('cu') else '') + (f"/etol{cfg['e_tol']}" if cfg.get('e_tol') is not None else '') + ('/exthook' if cfg.get('exthook') else '') + (f"/Q2{cfg['qd2']}" if cfg.get('qd2') else '') + (f"/nsteps{cfg['nsteps']}" if cfg.get('nsteps') else '') + (f"/{cfg['node_type']}" if cfg.get('node_type') else '') + ('/postrun-hook' if cfg.get('postrun') else '') + ('/inexact' if cfg.get('inexact') else '') + (f"/dtinit{cfg['dt_initial']}" if cfg.get('dt_initial') is not None else '') + (f"/t0={cfg['t0']:g}" if cfg.get('t0') else ''))


def coll_constant(Q, A, dt, weights=None):
    """bound on |end value - collocation end value| / |defect|: end value = last node (copy) or u0 + dt w^T A U (quadrature)"""
    M = Q.shape[0] - 1
    n = A.shape[0]
    big = np.eye(M * n) - dt * np.kron(Q[1:, 1:], A)
    inv = np.linalg.inv(big)
    if weights is None:
        E = inv[(M - 1) * n:, :]
    else:
        E = dt * np.kron(np.asarray(weights)[None, :], A) @ inv
    return 1.01 * np.abs(E).sum(axis=1).max()


def run_case(rep, cfg):
    name = cname(cfg)
    n = cfg['n']
    xs = [z3.Real(f'x{i}') for i in range(n)]
    pre = [z3.And(x >= -1, x <= 1) for x in xs]
    rt = cfg.get('residual_type', 'full_abs')

    def fn(c):
        if rt.endswith('rel'):
            c.add(z3.Or([x != 0 for x in xs]))
        from pySDC.core.errors import CommunicationError, ControllerError, UnlockError

        try:
            ctl, A, uend, stats, _ = wr.run_symbolic(c, cfg, xs, t0=float(cfg.get('t0', 0.0)))
        except (CommunicationError, ControllerError, UnlockError) as e:
            return dict(exc=f'{type(e).__name__}: {e}')
        L = ctl.MS[0].levels[0]
        posts = [s for s in wr.LOG if s['ev'] == 'post_step']
        copy_mode = bool(L.sweep.coll.right_is_node and not L.sweep.params.do_coll_update)
        return dict(posts=posts, Q=np.array(L.sweep.coll.Qmat), A=A, uend=sp.terms(uend), w=(None if copy_mode else np.array(L.sweep.coll.weights)), M=int(L.sweep.coll.num_nodes))

    try:
        paths = explore(fn, max_paths=3000, timeout_ms=(120000 if rep.tier == 'quick' else 600000))
    except ZeroDivisionError:
        # relative residual of an identically zero state: the real code divides by |u0| = 0 as well (outside the precondition)
        rep.extra['zero_state_relative_residual_skipped'] = rep.extra.get('zero_state_relative_residual_skipped', 0) + 1
        return
    except Exception as e:
        if 'coefficients' in str(e):
            return
        raise
    rep.paths += len(paths)
    rep.decisions += sum(len(p.decisions) for p in paths)
    tol = cfg['restol']
    nclaims = 0
    for i, p in enumerate(paths):
        r = p.result
        A_ = pre + list(p.assume) + list(p.pc)
        if r.get('exc'):
            # the real controller raises one of its own errors on a feasible path of a valid configuration: confirm on the float classes
            rep.ob(f'{name}/path{i}:run-completes', 'sat')
            res, m = satisfiable(A_, name=f'{name}/path{i}:exception-witness')
            rep.replayed += 1
            cands = ([[float(model_value(m, v)) for v in xs]] if res == 'sat' else []) + [[c_] * n for c_ in (1.0, -1.0, 0.5, -0.25, 0.75)]
            for x in cands:
                try:
                    float_reference(cfg, x)
                except Exception as e:
                    rep.violation(f'{PID}/run-raises/{cfg["sweeper"]}/{"ml" if len(cfg["M"]) > 1 else "sl"}', f'{name}: x={x}: the real float run raises {type(e).__name__}: {e}',
                                  {'task': ['run'], 'cfg': cfg, 'x': x, 'violated': [['run-raises', type(e).__name__]]})
                    break
            else:
                rep.unreproduced(f'{name}/path{i}:run-completes', r['exc'])
            continue
        Q, A = r['Q'], r['A']
        M = Q.shape[0] - 1
        if i == 0:
            # the fine collocation problem is the one the DESCRIPTION asks for (node family, quadrature type, node count), not merely the one the sweeper holds
            from pySDC.core.collocation import CollBase

            ref = CollBase(cfg['M'][0], 0, 1, node_type=cfg.get('node_type', 'LEGENDRE'), quad_type=cfg.get('quad_type', 'RADAU-RIGHT'))
            same = Q.shape == ref.Qmat.shape and bool(np.allclose(Q, ref.Qmat, rtol=0, atol=1e-14))
            if not same:
                rep.replayed += 1
                rep.violation(f'{PID}/collocation-problem-of-the-description/{cfg["sweeper"]}', f'{name}: the sweeper iterates on a collocation matrix that is not the one of the requested nodes '
                              f'(node_type {cfg.get("node_type", "LEGENDRE")}, quad_type {cfg.get("quad_type", "RADAU-RIGHT")}, {cfg["M"][0]} nodes): max difference {float(np.abs(Q - ref.Qmat).max()) if Q.shape == ref.Qmat.shape else "shape"}',
                              {'task': ['run'], 'cfg': cfg, 'x': [0.5] * n, 'violated': [['collocation-problem-of-the-description']]})
        cst = coll_constant(Q, A, cfg['dt'], r['w'])
        Afr = sp.tofrac_matrix(A)
        prev_end = xs
        for sidx, s in enumerate(r['posts']):
            # the step solved the problem of ITS interval: the k-th accepted step of a fixed-step run covers [t0 + k dt, t0 + (k + 1) dt] (dyadic values: exact)
            rep.side(f'{name}/path{i}/step{sidx}:interval-of-the-step', float(s['time']) == float(cfg.get('t0', 0.0)) + sidx * cfg['dt'] and float(s['dt']) == cfg['dt'],
                     {'step': sidx, 'time': float(s['time']), 'dt': float(s['dt']), 'expected_start': float(cfg.get('t0', 0.0)) + sidx * cfg['dt']})
            # chaining: the step started from exactly the previous step's end value
            res, m = prove(z3.And([a == b for a, b in zip(s['u'][0], prev_end)]), A_, timeout_ms=120000, name=f'{name}/path{i}/step{sidx}:starts-from-previous-end')
            rep.ob(f'{name}/path{i}/step{sidx}:starts-from-previous-end', res)
            if res == 'sat':
                triage(rep, cfg, m, xs, name, 'chaining')
            prev_end = s['uend']
            if s['iter'] >= cfg['maxiter']:
                continue  # stopped by the budget: no claim
            nclaims += 1
            V = [[z3.Real(f'V_{sidx}_{m_}_{k}') for k in range(n)] for m_ in range(M + 1)]
            defs = [V[0][k] == s['u'][0][k] for k in range(n)]
            for m_ in range(1, M + 1):
                acc = list(V[0])
                for j in range(1, M + 1):
                    if Q[m_, j] != 0:
                        Av = zmatvec(Afr, V[j])
                        acc = [acc[k] + rv(frac(cfg['dt']) * frac(Q[m_, j])) * Av[k] for k in range(n)]
                defs += [V[m_][k] == acc[k] for k in range(n)]
            scale = rv(cst * tol)
            if rt.endswith('rel'):
                from symx.core import zmax

                bound = scale * zmax([zabs(x) for x in s['u'][0]])
            else:
                bound = scale
            if r['w'] is None:
                Vend = V[M]
            else:
                Vend = list(V[0])
                for m_ in range(1, M + 1):
                    Av = zmatvec(Afr, V[m_])
                    Vend = [Vend[k] + rv(frac(cfg['dt']) * frac(r['w'][m_ - 1])) * Av[k] for k in range(n)]
            goal = z3.And([z3.And(s['uend'][k] - Vend[k] <= bound, Vend[k] - s['uend'][k] <= bound) for k in range(n)])
            res, m = prove(goal, A_ + defs, timeout_ms=180000, name=f'{name}/path{i}/step{sidx}:collocation-solution')
            rep.ob(f'{name}/path{i}/step{sidx}:collocation-solution', res)
            if res == 'sat':
                triage(rep, cfg, m, xs, name, 'collocation-solution')
        # returned value is the last end value
        res, m = prove(z3.And([a == b for a, b in zip(r['uend'], prev_end)]), A_, name=f'{name}/path{i}:returned-value')
        rep.ob(f'{name}/path{i}:returned-value', res)
        if res == 'sat':
            triage(rep, cfg, m, xs, name, 'returned-value')
    covpre = pre + ([z3.Or([x != 0 for x in xs])] if rt.endswith('rel') else [])
    rep.ob(f'{name}:coverage', coverage_certificate(paths, covpre, name=f'{name}:coverage'))
    rep.extra['claims_by_config'] = rep.extra.get('claims_by_config', []) + [{'config': name, 'paths': len(paths), 'steps_stopped_by_tolerance': nclaims}]
    if len(rep.samples) < 8 and paths:
        rep.sample({'config': name, 'paths': len(paths), 'iterations_per_step_on_each_path': [[s['iter'] for s in p.result['posts']] for p in paths][:8]})


def float_reference(cfg, x):
    """real float run + independent numpy collocation solves"""
    ctl, A = wr.build(cfg, float_mode=True)
    P = ctl.MS[0].levels[0].prob
    u0 = P.dtype_u(P.init)
    u0[:] = x
    wr.LOG.clear()
    T0 = float(cfg.get('t0', 0.0))
    uend, stats = ctl.run(u0, T0, T0 + cfg['dt'] * cfg.get('nsteps', cfg['NP'] * cfg.get('blocks', 1)))
    L = ctl.MS[0].levels[0]
    Q = L.sweep.coll.Qmat
    M = Q.shape[0] - 1
    n = cfg['n']
    posts = [s for s in wr.LOG if s['ev'] == 'post_step']
    out = []
    prev = np.asarray(x, dtype=float)
    for s in posts:
        tof = lambda t: (lambda v: v.numerator_as_long() / v.denominator_as_long())(z3.simplify(t))  # exact: the terms are numerals of floats
        u0s = np.array([tof(t) for t in s['u'][0]])
        ue = np.array([tof(t) for t in s['uend']])
        big = np.eye(M * n) - cfg['dt'] * np.kron(Q[1:, 1:], A)
        V = np.linalg.solve(big, np.kron(np.ones(M), u0s))
        copy_mode = bool(L.sweep.coll.right_is_node and not L.sweep.params.do_coll_update)
        cend = V[(M - 1) * n:] if copy_mode else u0s + cfg['dt'] * sum(L.sweep.coll.weights[m_] * (A @ V[m_ * n:(m_ + 1) * n]) for m_ in range(M))
        out.append(dict(iter=s['iter'], u0=u0s, uend=ue, coll=cend, chained=np.array_equal(u0s, prev)))
        prev = ue
    copy_mode = bool(L.sweep.coll.right_is_node and not L.sweep.params.do_coll_update)
    return out, np.asarray(uend, dtype=float), coll_constant(Q, A, cfg['dt'], None if copy_mode else L.sweep.coll.weights)


def triage(rep, cfg, m, xs, name, clause):
    rep.replayed += 1
    x0 = [float(model_value(m, v)) for v in xs]
    # the float run may take another convergence path than the symbolic one the model belongs to (tolerance comparisons at the boundary):
    # a few further start values are tried before the model is called unreproduced; a violation is only reported for a value that fails on the real code
    cands = [x0] + [[c_] * len(xs) for c_ in (1.0, -1.0, 0.5, -0.25, 0.75)]
    bad, x = [], x0
    for x in cands:
        try:
            steps, uend, cst = float_reference(cfg, x)
        except Exception as e:
            if x is x0:
                rep.unreproduced(f'{name}:{clause}', f'{type(e).__name__}: {e}')
                return
            continue
        bad = []
        for k, s in enumerate(steps):
            if not s['chained']:
                bad.append(('chaining', k))
            if s['iter'] < cfg['maxiter']:
                scale = np.abs(s['u0']).max() if cfg.get('residual_type', 'full_abs').endswith('rel') else 1.0
                if np.abs(s['uend'] - s['coll']).max() > cst * cfg['restol'] * scale * (1 + 1e-6):
                    bad.append(('collocation-solution', k, float(np.abs(s['uend'] - s['coll']).max()), cst * cfg['restol'] * scale))
        if steps and not np.array_equal(uend, steps[-1]['uend']):
            bad.append(('returned-value',))
        if bad:
            break
    if not bad:
        x = x0
    if bad:
        quad_end = cfg.get('quad_type', 'RADAU-RIGHT') in ('GAUSS', 'RADAU-LEFT') or bool(cfg.get('cu'))  # end value by quadrature (no right end node, or collocation update)
        if quad_end and cfg['NP'] >= 3 and all(b[0] in ('chaining', 'returned-value') for b in bad):
            key = f'{PID}/chaining/quadrature-end-point/three-or-more-parallel-steps'
        else:
            key = f'{PID}/{bad[0][0]}/{cfg["sweeper"]}/{"ml" if len(cfg["M"]) > 1 else "sl"}'
        rep.violation(key,
                      f'{name}: x={x}: {bad}', {'task': ['run'], 'cfg': cfg, 'x': x, 'violated': [list(map(str, b)) for b in bad]})
    else:
        rep.unreproduced(f'{name}:{clause}', {'x': x})


def replay(path):
    import logging

    logging.disable(logging.CRITICAL)
    d = json.load(open(path))['replay']
    try:
        steps, uend, cst = float_reference(d['cfg'], d['x'])
    except Exception as e:
        print('the real float run raises', type(e).__name__, e)
        print('REPRODUCED')
        return 1
    bad = False
    for k, s in enumerate(steps):
        dev = float(np.abs(s['uend'] - s['coll']).max())
        print(f'step {k}: iterations {s["iter"]}, chained {s["chained"]}, |uend - collocation solution| = {dev:.3e}, allowed {cst * d["cfg"]["restol"]:.3e}')
        if not s['chained'] or (s['iter'] < d['cfg']['maxiter'] and dev > cst * d['cfg']['restol'] * 1.000001):
            bad = True
    print('REPRODUCED' if bad else 'not reproduced')
    return 1 if bad else 0

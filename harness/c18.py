"""C18 -- finite-difference stencils and matrices are exact to their stated order  (engine C: tables from the real code, data symbolic)

The weights / matrices are computed by the real pySDC functions for every configuration in a stated finite set (the configuration quantifier
is ENUMERATED); they are converted to exact rationals and the solver decides, for all polynomial / grid data with coefficients in [-1,1],
that the table applied to the data agrees with exact calculus (encoded in rational arithmetic inside the query)."""
import itertools
import json
import math
from fractions import Fraction

import numpy as np
import z3

from symx import core
from symx import pysdc as sp
from symx.core import SymReal, R, rv, frac, prove, satisfiable, model_value

from pySDC.helpers.problem_helper import get_finite_difference_stencil, get_finite_difference_matrix, get_1d_grid, get_steps

PID = 'C18'
BOUNDS = {'quick': dict(derivative='1..4', order='1..6', offset_sets='60 sampled subsets of [-3,3]', sizes='stencil width .. +3'), 'thorough': dict(order='1..8', offset_sets='400 sampled subsets of [-4,4]')}


def describe(rep):
    rep.func(get_finite_difference_stencil, get_finite_difference_matrix, get_1d_grid, get_steps)
    rep.explanation = __doc__
    rep.rule = 'case = (derivative, order, stencil type or offset set (offset arrays also in int8/int16/int32/uint8/float32/float64; offsets up to 10^7 apart), boundary condition, size, dimension); one SMT query (QF_LRA) per case over all polynomial data in the unit box'
    rep.assume('weights come from numpy.linalg.solve (not symbolic): tolerance 1e-9 scaled by sum |w_i| |s_i|^degree (backward-error scaling)',
               'grid spacing dx = 1/4 (a power of two, so scaling by dx^-derivative is exact)', 'polynomial coefficients and boundary values in [-1, 1]')
    rep.out_of_scope('symbolic offsets / orders (weights come from LAPACK)', 'cupy', 'sizes beyond stencil width + 4')


def tasks(tier, seed):
    T = []
    quick = tier == 'quick'
    for d in (1, 2, 3, 4):
        for order in range(1, 9 if not quick else 7):
            for st in ('center', 'forward', 'backward', 'upwind'):
                if st == 'center' and (order % 2 == 1 and d % 2 == 0):
                    continue  # centred layout delivers even orders (and odd orders for odd derivatives)
                T.append(('stencil', d, order, st, None))
    rng = range(-3, 4) if quick else range(-4, 5)
    offs = []
    for n in range(2, 5 if quick else 7):
        for c in itertools.combinations(rng, n):
            offs.append(c)
    import random

    r = random.Random(seed)
    r.shuffle(offs)
    for c in offs[: (60 if quick else 400)]:
        for d in range(1, min(len(c), 5)):
            T.append(('stencil', d, None, None, list(c)))
            if len(c) >= 3 and d == 1:  # the same offsets handed over in a non-sorted order (rotation = one long cycle; and a random order)
                T.append(('stencil', d, None, None, list(c[1:] + c[:1])))
                T.append(('stencil', min(2, len(c) - 1), None, None, r.sample(list(c), len(c))))
    for d, order, st in ([(1, 2, 'center'), (2, 2, 'center'), (1, 1, 'upwind'), (1, 3, 'upwind'), (2, 4, 'center'), (1, 2, 'forward'), (3, 2, 'center'), (1, 4, 'center')] if quick else
                         [(d_, o_, s_) for d_ in (1, 2, 3, 4) for o_ in (1, 2, 3, 4, 6) for s_ in ('center', 'forward', 'backward', 'upwind') if not (s_ == 'center' and o_ % 2 == 1 and d_ % 2 == 0)]):
        T.append(('periodic', d, order, st, None))
    for steps in ([-3, -1, 1, 3], [-2, 0, 1], [-1, 0, 2, 3], [-4, -2, 0, 2, 4], [0, 2, 3], [-3, -2, 1], [0, 1, -1], [1, 3, -3, -1], [2, -1, 0, 1]):
        T.append(('periodic', 1, None, None, steps))
        if len(steps) > 2:
            T.append(('periodic', 2, None, None, steps))
    # offsets handed over in narrower / other array types (the powers of the offsets must not be formed in the caller's type: 3**6 does not fit int8, 4**8 not int16, 10**10 not int32)
    for dt_, st_ in (('int8', [-3, -2, -1, 0, 1, 2, 3]), ('int16', [-4, -3, -2, -1, 0, 1, 2, 3, 4]), ('int16', [-9, -6, -3, 0, 3, 6, 9]), ('int32', list(range(11))), ('int8', [-1, 0, 1]), ('float64', [-2, -1, 0, 1, 2]),
                     ('float32', [-3, -2, -1, 0, 1, 2, 3]), ('uint8', [0, 1, 2, 3, 4, 5, 6])):
        for d in (1, 2, 3):
            if d < len(st_):
                T.append(('stencil', d, None, None, {'dtype': dt_, 'steps': st_}))
    # widely spaced offsets with higher derivatives: the exact weights are tiny (they scale like spacing ** -derivative) and must still be delivered
    for d, st_ in ((4, [-1000, -500, 0, 500, 1000]), (4, [-900, -300, 0, 500, 700]), (3, [-2000, -1000, 0, 1000]), (2, [-100000, 0, 300000]), (1, [-10**7, 0, 10**7]), (3, [-400, -100, 0, 100, 400]), (4, [0, 250, 500, 750, 1000, 1250])):
        T.append(('stencil', d, None, None, st_))
    T.append(('periodic', 4, None, None, [-1000, -500, 0, 500, 1000]))
    T.append(('periodic', 2, None, None, {'dtype': 'int8', 'steps': [-3, -2, -1, 0, 1, 2, 3]}))
    T.append(('periodic', 1, None, None, {'dtype': 'int16', 'steps': [-4, -3, -2, -1, 0, 1, 2, 3, 4]}))
    for d, order in ([(1, 2), (2, 2), (2, 4), (1, 4), (3, 2)] if quick else [(1, 2), (2, 2), (2, 4), (1, 4), (3, 2), (4, 2), (2, 6), (1, 6), (3, 4)]):
        for bc in ('dirichlet', 'neumann', ('dirichlet', 'neumann'), ('neumann', 'dirichlet')):
            for reduce in (False, True):
                T.append(('bc', d, order, bc if isinstance(bc, str) else list(bc), reduce))
    # one-sided / biased / user-supplied stencils together with boundaries (Dirichlet data, default treatment)
    for d, order, st in ((1, 1, 'upwind'), (1, 2, 'forward'), (1, 2, 'backward'), (1, 3, 'upwind'), (2, 2, 'forward'), (2, 1, 'backward'), (1, 4, 'upwind')):
        T.append(('bc', d, order, 'dirichlet', False, st, None))
        T.append(('bc', d, order, 'dirichlet', True, st, None))  # reduced-order closure next to a one-sided interior layout
        if d == 1:
            T.append(('bc', d, order, ['neumann', 'dirichlet'], True, st, None))
    for d, steps in ((1, [-2, 0, 1]), (1, [-1, 0, 2, 3]), (2, [-1, 0, 1, 2]), (1, [-3, -1, 0, 1]), (1, [0, 1, -1]), (1, [1, 2, -1, 0]), (1, [-1, 0, 3]), (1, [-3, 0, 1]), (2, [-1, 0, 1, 2, 5]), (1, [-2, -1, 0, 1, 4])):  # (offset sets with gaps included)
        T.append(('bc', d, len(steps) - d, 'dirichlet', False, None, steps))
    # Neumann data with an explicitly given order of the one-sided closure (above and below the interior order)
    for d, order, nbo in ((2, 2, 3), (2, 2, 1), (2, 4, 5), (2, 4, 2), (1, 2, 3)):
        for bc in ('neumann', ['dirichlet', 'neumann']):
            T.append(('bc', d, order, bc, False, 'center', None, nbo))
    T.append(('bcdefaults',))
    T.append(('bcreuse',))
    T.append(('kron', 2))
    T.append(('kron', 3))
    T.append(('grid',))
    return T


def run_task(rep, task):
    if task[0] == 'stencil':
        stencil_case(rep, *task[1:])
    elif task[0] == 'periodic':
        periodic_case(rep, *task[1:])
    elif task[0] == 'bc':
        bc_case(rep, *task[1:])
    elif task[0] == 'kron':
        kron_case(rep, task[1])
    elif task[0] == 'bcreuse':
        bcreuse_case(rep)
    elif task[0] == 'bcdefaults':
        bcdefaults_case(rep)
    elif task[0] == 'grid':
        grid_case(rep)


def poly_terms(deg, xs, name='a'):
    """symbolic polynomial of degree <= deg: returns (coefficient vars, values at the rational points xs, function to differentiate)"""
    a = [z3.Real(f'{name}{k}') for k in range(deg + 1)]

    def val(x, der=0):
        x = Fraction(x)
        t = z3.RealVal(0)
        for k in range(der, deg + 1):
            c = Fraction(math.factorial(k), math.factorial(k - der)) * x ** (k - der)
            if c != 0:
                t = t + rv(c) * a[k]
        return t

    return a, val


def box(vs):
    return [z3.And(v >= -1, v <= 1) for v in vs]


def _arr(steps):
    """offsets of a task as the array handed to the real code: a list (default integer type) or {'dtype': name, 'steps': list}"""
    if steps is None:
        return None
    if isinstance(steps, dict):
        return np.array(steps['steps'], dtype=steps['dtype'])
    return np.array(steps)


def _sname(steps):
    if isinstance(steps, dict):
        return 'steps' + ','.join(map(str, steps['steps'])) + '/' + steps['dtype']
    return 'steps' + ','.join(map(str, steps))


def stencil_case(rep, d, order, st, steps):
    name = f'stencil/d{d}/' + (f'o{order}/{st}' if steps is None else _sname(steps))
    try:
        if steps is None:
            w, s = get_finite_difference_stencil(derivative=d, order=order, stencil_type=st)
        else:
            w, s = get_finite_difference_stencil(derivative=d, steps=_arr(steps))
    except np.linalg.LinAlgError:
        return
    except Exception as e:
        if steps is None:  # a standard layout requested by (derivative, order, type) must be delivered
            rep.replayed += 1
            rep.violation(f'{PID}/stencil/{st}/raises', f'{name}: get_finite_difference_stencil raises {type(e).__name__}: {e}', {'task': ['stencil', d, order, st, steps], 'raises': type(e).__name__})
            return
        raise
    n = len(s)
    if d >= n:
        return
    # exact for degree < n; a layout requested by (derivative, order) must be exact for degree < derivative + order whatever its width
    deg = n - 1
    if steps is None:
        deg = max(n - 1, d + order - 1)
    if steps is None and n != order + d - (1 if st == 'center' and d % 2 == 0 else 0) and st != 'center':
        rep.side(f'{name}:stencil-width', n == order + d, (n, order + d))
    a, val = poly_terms(deg, [])
    approx = sum(rv(w[i]) * val(int(s[i])) for i in range(n))
    exact = val(0, der=d)
    scale = sum(abs(frac(w[i])) * max(1, abs(int(s[i]))) ** deg for i in range(n))
    tol = rv(Fraction(1, 10**9) * scale)
    res, m = prove(z3.And(approx - exact <= tol, exact - approx <= tol), box(a), name=name)
    rep.ob(name, res)
    if res == 'sat':
        coefs = [float(model_value(m, v)) for v in a]
        rep.replayed += 1
        got = sum(w[i] * np.polyval(coefs[::-1], s[i]) for i in range(n))
        ex = math.factorial(d) * coefs[d]
        if abs(got - ex) > 1e-9 * float(scale):
            rep.violation(f'{PID}/stencil/' + (st or 'custom-offsets'), f'{name}: weights {w.tolist()} at offsets {s.tolist()} give {got!r} for the derivative {ex!r} of the polynomial {coefs}',
                          {'task': ['stencil', d, order, st, steps], 'coefficients': coefs, 'observed': got, 'expected': ex})
        else:
            rep.unreproduced(name, coefs)
    rep.side(f'{name}:offsets-sorted', list(s) == sorted(s))
    if n >= 3 and steps is None and order == 2 and st == 'center':
        bad = approx + rv(1e-6) * val(1)
        r2, _ = prove(z3.And(bad - exact <= tol, exact - bad <= tol), box(a), name=name + ':mutated', kind='vacuity')
        rep.vac(name + ':perturbed-weight-refuted', r2, 'sat')
    rep.sample({'case': name, 'points': n, 'exact_for_degree_below': n}, limit=6)


def real_matrix(d, order, st, steps, size, dim, bc, bc_params=None, dx=0.25):
    A, b = get_finite_difference_matrix(derivative=d, order=order, stencil_type=st, steps=_arr(steps), dx=dx, size=size, dim=dim, bc=bc,
                                        bc_params=bc_params)
    return np.asarray(A.todense(), dtype=float), np.asarray(b, dtype=float)


def bcreuse_case(rep):
    """the boundary parameters handed in are the caller's: a list of per-side dictionaries used for several calls (e.g. for the first- and the second-derivative
    operator) gives the same matrices and vectors as fresh lists, and is unchanged afterwards (ENUMERATED, concrete)"""
    import copy

    for bc, left, right in (('dirichlet', {'val': 2.5}, {'val': -1.0, 'reduce': True}), (('dirichlet', 'neumann'), {'val': 1.5}, {'val': 0.5, 'neumann_bc_order': 1}),
                            ('neumann', {'val': 1.0, 'reduce': True}, {'val': 2.0})):
        shared = [dict(left), dict(right)]
        before = copy.deepcopy(shared)
        for call, (d, order) in enumerate(((1, 2), (2, 2), (2, 4), (1, 2))):
            kw = dict(derivative=d, order=order, stencil_type='center', dx=0.25, size=9, dim=1, bc=bc)
            name = f'bcreuse/{bc}/call{call}/d{d}/o{order}'
            try:
                A1, b1 = get_finite_difference_matrix(bc_params=shared, **kw)
                A2, b2 = get_finite_difference_matrix(bc_params=[dict(left), dict(right)], **kw)
            except Exception as e:
                rep.side(name, False, f'{type(e).__name__}: {e}')
                break
            rep.translator += 1
            same = np.array_equal(A1.toarray(), A2.toarray()) and np.array_equal(b1, b2)
            intact = shared == before
            if not same:
                rep.violation(f'{PID}/boundary-parameters-reused', f'{name}: with a parameter list that was used for an earlier call the result differs from that for fresh parameters (b = {np.asarray(b1).tolist()} vs {np.asarray(b2).tolist()}); '
                              f'caller list afterwards: {shared}', {'task': ['bcreuse'], 'bc': bc if isinstance(bc, str) else list(bc), 'left': left, 'right': right, 'call': call})
                break


def bcdefaults_case(rep):
    """boundary parameters that are left out take their documented defaults (val 0, reduce False, neumann_bc_order = order), independently per side:
    the real matrix / vector for partially given per-side dictionaries equal those for the fully spelled-out dictionaries (ENUMERATED, concrete)"""
    variants = [{}, {'val': 2.5}, {'reduce': True}, {'val': 1.5, 'reduce': True}, {'neumann_bc_order': 1}, {'val': -0.5, 'neumann_bc_order': 1}]
    for d, order in ((1, 2), (2, 2), (2, 4)):
        full = lambda p: {'val': 0.0, 'reduce': False, 'neumann_bc_order': order, **p}
        for bc in ('dirichlet', 'neumann', ('dirichlet', 'neumann'), ('neumann', 'dirichlet')):
            for left in variants:
                for right in variants:
                    name = f'bcdefaults/d{d}/o{order}/{bc}/{left}/{right}'
                    try:
                        kw = dict(derivative=d, order=order, stencil_type='center', dx=0.25, size=9, dim=1, bc=bc)
                        A1, b1 = get_finite_difference_matrix(bc_params=[dict(left), dict(right)], **kw)
                        A2, b2 = get_finite_difference_matrix(bc_params=[full(left), full(right)], **kw)
                        ok = np.array_equal(A1.toarray(), A2.toarray()) and np.array_equal(b1, b2)
                        rep.translator += 1
                        if not ok:
                            rep.violation(f'{PID}/boundary-parameter-defaults', f'{name}: matrix / vector differ from those of the spelled-out parameters {full(left)}, {full(right)}; '
                                          f'b = {np.asarray(b1).tolist()} vs {np.asarray(b2).tolist()}', {'task': ['bcdefaults'], 'd': d, 'order': order, 'bc': bc if isinstance(bc, str) else list(bc), 'left': left, 'right': right})
                            return
                    except Exception as e:
                        rep.side(name, False, f'{type(e).__name__}: {e}')
                        return
            for one in variants:  # one dictionary for both sides / no dictionary at all
                kw = dict(derivative=d, order=order, stencil_type='center', dx=0.25, size=9, dim=1, bc=bc)
                A1, b1 = get_finite_difference_matrix(bc_params=dict(one), **kw)
                A2, b2 = get_finite_difference_matrix(bc_params=[full(one), full(one)], **kw)
                rep.side(f'bcdefaults/d{d}/o{order}/{bc}/both={one}', np.array_equal(A1.toarray(), A2.toarray()) and np.array_equal(b1, b2))
            A1, b1 = get_finite_difference_matrix(bc_params=None, **kw)
            A2, b2 = get_finite_difference_matrix(bc_params=[full({}), full({})], **kw)
            rep.side(f'bcdefaults/d{d}/o{order}/{bc}/none', np.array_equal(A1.toarray(), A2.toarray()) and np.array_equal(b1, b2))


def periodic_case(rep, d, order, st, steps):
    name = f'periodic/d{d}/' + (f'o{order}/{st}' if steps is None else _sname(steps))
    if steps is None:
        w, s = get_finite_difference_stencil(derivative=d, order=order, stencil_type=st)
    else:
        if d >= len(_arr(steps)):
            return
        w, s = get_finite_difference_stencil(derivative=d, steps=_arr(steps))
    width = int(max(s) - min(s)) + 1
    dx = 0.25
    for size in (width, width + 1, width + 3):
        try:
            A, b = real_matrix(d, order, st, steps, size, 1, 'periodic', dx=dx)
        except Exception as e:
            rep.replayed += 1
            rep.violation(f'{PID}/periodic-matrix/' + ('custom-offsets' if steps is not None else st),
                          f'{name}/N{size}: get_finite_difference_matrix raises {type(e).__name__}: {e} for a legal stencil', {'task': ['periodic', d, order, st, steps], 'size': size,
                                                                                                                        'u': [0.0] * size, 'exception': str(e)})
            return
        u = [z3.Real(f'u{j}') for j in range(size)]
        Au = sp.DenseDot(A).dot(np.array([SymReal(x) for x in u], dtype=object))
        # every row applies exactly the stencil to the periodically continued grid function
        scale = sum(abs(frac(x)) for x in w) / frac(dx) ** d
        tol = rv(Fraction(1, 10**12) * scale)
        goal = []
        for j in range(size):
            spec = sum(rv(frac(w[i]) / frac(dx) ** d) * u[(j + int(s[i])) % size] for i in range(len(s)))
            goal += [R(Au[j]) - spec <= tol, spec - R(Au[j]) <= tol]
        res, m = prove(z3.And(goal), box(u), name=f'{name}/N{size}')
        rep.ob(f'{name}/N{size}', res)
        rep.side(f'{name}/N{size}:b-zero', not np.any(b))
        if res == 'sat':
            rep.replayed += 1
            uv = np.array([float(model_value(m, x)) for x in u])
            got = A @ uv
            ex = np.array([sum(w[i] / dx**d * uv[(j + int(s[i])) % size] for i in range(len(s))) for j in range(size)])
            if np.abs(got - ex).max() > 1e-9 * float(scale):
                rep.violation(f'{PID}/periodic-matrix/' + ('custom-offsets' if steps is not None else st),
                              f'{name}/N{size}: matrix row does not apply the stencil {w.tolist()} at offsets {s.tolist()} periodically: {got.tolist()} vs {ex.tolist()}',
                              {'task': ['periodic', d, order, st, steps], 'size': size, 'u': uv.tolist(), 'observed': got.tolist(), 'expected': ex.tolist()})
            else:
                rep.unreproduced(f'{name}/N{size}', uv.tolist())
    rep.sample({'case': name, 'sizes': [width, width + 1, width + 3], 'free_variables': 'arbitrary grid function values in [-1,1]'}, limit=10)


def bc_case(rep, d, order, bc, reduce, st='center', steps=None, nbo=None):
    bcn = bc if isinstance(bc, str) else '-'.join(bc)
    name = f'bc/d{d}/o{order}/{bcn}/reduce{int(reduce)}' + ('' if st == 'center' and steps is None else f'/{st or "steps" + ",".join(map(str, steps))}') + (f'/nbo{nbo}' if nbo is not None else '')
    extra = {} if nbo is None else {'neumann_bc_order': nbo}  # order of the one-sided closure for Neumann data, given explicitly
    bct = bc if isinstance(bc, str) else tuple(bc)
    bcl = (bct, bct) if isinstance(bct, str) else bct
    w, s = get_finite_difference_stencil(derivative=d, order=order, stencil_type=st, steps=(np.array(steps) if steps is not None else None))
    width = int(max(max(s), 0) - min(min(s), 0)) + 1
    dx = 0.25
    for size in (width + 1, width + 3):
        try:
            A, b0 = real_matrix(d, order, st, steps, size, 1, bct, bc_params={'val': 0.0, 'reduce': reduce, **extra}, dx=dx)
            _, bL = real_matrix(d, order, st, steps, size, 1, bct, bc_params=[{'val': 1.0, 'reduce': reduce, **extra}, {'val': 0.0, 'reduce': reduce, **extra}], dx=dx)
            _, bR = real_matrix(d, order, st, steps, size, 1, bct, bc_params=[{'val': 0.0, 'reduce': reduce, **extra}, {'val': 1.0, 'reduce': reduce, **extra}], dx=dx)
        except Exception as e:
            rep.extra['bc_not_constructible'] = rep.extra.get('bc_not_constructible', 0) + 1
            continue
        rep.side(f'{name}/N{size}:b-vanishes-for-zero-data', not np.any(b0))
        # grid: unknowns at x_j = (j+1) dx, boundaries at 0 and (size+1) dx
        xs = [Fraction(j + 1) * frac(dx) for j in range(size)]
        xl, xr = Fraction(0), Fraction(size + 1) * frac(dx)
        lo, hi = max(0, -int(min(s))), max(0, int(max(s)))  # rows whose plain stencil reaches the boundary or beyond: the first lo and the last hi rows
        # exactness degree of the closure: below derivative + order with Dirichlet data; with Neumann data additionally <= the order of the one-sided
        # first-derivative closure; the 'reduce' treatment lowers the order near the boundary to 2 (i+1)
        for row_set, label in ((range(lo, size - hi), 'interior'), (list(range(0, lo)) + list(range(size - hi, size)), 'boundary')):
            rows = [j for j in row_set if 0 <= j < size]
            if not rows:
                continue
            if label == 'interior':
                deg = d + order - 1 if not (d % 2 == 0 and order % 2 == 1) else d + order
                deg = len(s) - 1
            else:
                deg = d + order - 1
                if reduce:
                    deg = d + 1 if d % 2 == 1 else d + 1
                    deg = min(d + 1, d + order - 1)
                if 'neumann' in bcn:
                    deg = min(deg, order if nbo is None else nbo)
            if deg < d:
                continue
            a, val = poly_terms(deg, [])
            u = np.array([SymReal(val(x)) for x in xs], dtype=object)
            Au = sp.DenseDot(A).dot(u)
            datL = val(xl) if 'dirichlet' in bcl[0] else val(xl, der=1)
            datR = val(xr) if 'dirichlet' in bcl[1] else val(xr, der=1)
            scale = sum(abs(frac(x)) for x in np.abs(A).max(axis=0)) * max(1, float(xr)) ** deg + 1
            tol = rv(Fraction(1, 10**8) * frac(float(scale)))
            goal = []
            for j in rows:
                got = R(Au[j]) + rv(bL[j]) * datL + rv(bR[j]) * datR
                ex = val(xs[j], der=d)
                goal += [got - ex <= tol, ex - got <= tol]
            res, m = prove(z3.And(goal), box(a), name=f'{name}/N{size}/{label}')
            rep.ob(f'{name}/N{size}/{label}', res)
            if res == 'sat':
                rep.replayed += 1
                coefs = [float(model_value(m, v)) for v in a]
                p = np.poly1d(coefs[::-1])
                xf = np.array([float(x) for x in xs])
                dl = p(0.0) if 'dirichlet' in bcl[0] else p.deriv(1)(0.0)
                dr = p(float(xr)) if 'dirichlet' in bcl[1] else p.deriv(1)(float(xr))
                got = A @ p(xf) + bL * dl + bR * dr
                ex = p.deriv(d)(xf) if d <= deg else np.zeros(size)
                dev = np.abs(got - ex)[rows].max()
                if dev > 1e-8 * float(scale):
                    key = f'{PID}/reduced-closure-misaligned/d{d}' if (reduce and d >= 3 and label == 'boundary') else f'{PID}/boundary-closure/{bcn}/reduce{int(reduce)}/{label}'
                    rep.violation(key, f'{name}/N{size}/{label}: degree-{deg} polynomial {coefs}: deviation {dev:.3e}',
                                  {'task': ['bc', d, order, bc, reduce, st, steps, nbo], 'size': size, 'coefficients': coefs, 'deviation': float(dev)})
                else:
                    rep.unreproduced(f'{name}/N{size}/{label}', {'coefs': coefs, 'dev': float(dev)})
    rep.sample({'case': name, 'free_variables': 'polynomial coefficients in [-1,1] (grid values and boundary data derived from them)'}, limit=10)


def kron_case(rep, dim):
    """n-D matrices act as the Kronecker sum of the 1-D matrix (checked on an arbitrary symbolic grid function)"""
    for (d, order, bc, size) in ((2, 2, 'periodic', 3), (1, 2, 'dirichlet', 3), (2, 2, 'neumann', 3)):
        name = f'kron/dim{dim}/d{d}/o{order}/{bc}/N{size}'
        A1, b1 = real_matrix(d, order, 'center', None, size, 1, bc)
        An, bn = real_matrix(d, order, 'center', None, size, dim, bc)
        N = size**dim
        u = [z3.Real(f'u{j}') for j in range(N)]
        Au = sp.DenseDot(An).dot(np.array([SymReal(x) for x in u], dtype=object))
        U = np.array(u, dtype=object).reshape((size,) * dim)
        goal = []
        tol = rv(Fraction(1, 10**10) * frac(float(np.abs(An).sum(axis=1).max())))
        for idx in itertools.product(range(size), repeat=dim):
            spec = z3.RealVal(0)
            for ax in range(dim):
                for k in range(size):
                    c = A1[idx[ax], k]
                    if c != 0:
                        j = list(idx)
                        j[ax] = k
                        spec = spec + rv(c) * U[tuple(j)]
            flat = int(np.ravel_multi_index(idx, (size,) * dim))
            goal += [R(Au[flat]) - spec <= tol, spec - R(Au[flat]) <= tol]
        res, m = prove(z3.And(goal), box(u), name=name)
        rep.ob(name, res)
        if res == 'sat':
            rep.replayed += 1
            uv = np.array([float(model_value(m, x)) for x in u])
            I = np.eye(size)
            if dim == 2:
                K = np.kron(A1, I) + np.kron(I, A1)
            else:
                K = np.kron(np.kron(A1, I), I) + np.kron(np.kron(I, A1), I) + np.kron(np.kron(I, I), A1)
            dev = np.abs(An @ uv - K @ uv).max()
            if dev > 1e-9:
                rep.violation(f'{PID}/kronecker/dim{dim}', f'{name}: n-D matrix is not the Kronecker sum of the 1-D matrix (deviation {dev:.3e})', {'task': ['kron', dim], 'deviation': float(dev)})
            else:
                rep.unreproduced(name, float(dev))
        rep.side(name + ':b-shape', bn.shape == (N,))


def grid_case(rep):
    for size in (3, 8, 17):
        for bc in ('periodic', 'dirichlet-zero', 'neumann-zero'):
            for (l, r_) in ((0.0, 1.0), (-2.0, 3.5)):
                dx, x = get_1d_grid(size, bc, l, r_)
                L = Fraction(r_) - Fraction(l)
                edx = L / size if bc == 'periodic' else L / (size + 1)
                ex = [Fraction(l) + edx * (i if bc == 'periodic' else i + 1) for i in range(size)]
                ok = abs(Fraction(dx) - edx) <= Fraction(1, 10**15) and all(abs(Fraction(float(a)) - b) <= Fraction(1, 10**14) for a, b in zip(x, ex))
                rep.side(f'grid/{bc}/N{size}/[{l},{r_}]', ok)


def replay(path):
    d = json.load(open(path))['replay']
    t = d['task']
    if t[0] == 'periodic':
        w, s = get_finite_difference_stencil(derivative=t[1], order=t[2], stencil_type=t[3], steps=_arr(t[4]))
        A, b = real_matrix(t[1], t[2], t[3], t[4], d['size'], 1, 'periodic')
        uv = np.array(d['u'])
        got = A @ uv
        ex = np.array([sum(w[i] / 0.25 ** t[1] * uv[(j + int(s[i])) % d['size']] for i in range(len(s))) for j in range(d['size'])])
        print('observed', got.tolist(), 'expected', ex.tolist())
        bad = np.abs(got - ex).max() > 1e-9 * (1 + np.abs(ex).max())
    elif t[0] == 'bcreuse':
        from symx.report import Report

        r = Report(PID, 'other', 'quick', 0)
        bcreuse_case(r)
        bad = bool(r.violations)
        print(r.violations[0]['what'] if bad else 'same results with a reused parameter list')
    elif t[0] == 'bcdefaults':
        bc = d['bc'] if isinstance(d['bc'], str) else tuple(d['bc'])
        full = lambda p: {'val': 0.0, 'reduce': False, 'neumann_bc_order': d['order'], **p}
        kw = dict(derivative=d['d'], order=d['order'], stencil_type='center', dx=0.25, size=9, dim=1, bc=bc)
        A1, b1 = get_finite_difference_matrix(bc_params=[dict(d['left']), dict(d['right'])], **kw)
        A2, b2 = get_finite_difference_matrix(bc_params=[full(d['left']), full(d['right'])], **kw)
        print('b (partial dictionaries)', np.asarray(b1).tolist(), 'b (spelled out)', np.asarray(b2).tolist())
        bad = not (np.array_equal(A1.toarray(), A2.toarray()) and np.array_equal(b1, b2))
    elif t[0] == 'stencil':
        try:
            w, s = get_finite_difference_stencil(derivative=t[1], order=t[2], stencil_type=t[3], steps=_arr(t[4]))
        except Exception as e:
            print('raises', type(e).__name__, e)
            bad = t[4] is None
        else:
            coefs = d['coefficients']
            got = sum(w[i] * np.polyval(coefs[::-1], s[i]) for i in range(len(s)))
            ex = math.factorial(t[1]) * coefs[t[1]]
            print('offsets', s.tolist(), 'weights', w.tolist(), 'observed', got, 'exact derivative', ex)
            bad = abs(got - ex) > 1e-9 * (1 + sum(abs(w[i]) * max(1, abs(int(s[i]))) ** (len(coefs) - 1) for i in range(len(s))))
    else:
        print(d)
        bad = True
    print('REPRODUCED' if bad else 'not reproduced')
    return 1 if bad else 0

import numpy as np, logging, copy
logging.disable(50)
from pySDC.implementations.controller_classes.controller_nonMPI import controller_nonMPI
from pySDC.implementations.problem_classes.TestEquation_0D import testequation0d
from pySDC.implementations.sweeper_classes.generic_implicit import generic_implicit
from pySDC.implementations.transfer_classes.TransferMesh_NoCoarse import mesh_to_mesh
def base(nl=1):
    d=dict(problem_class=testequation0d, problem_params={'lambdas':np.array([-1.0]),'u0':1.0}, sweeper_class=generic_implicit,
      sweeper_params={'num_nodes':[3,2][:nl] if nl>1 else 3,'quad_type':'RADAU-RIGHT'}, level_params={'dt':0.1,'restol':-1}, step_params={'maxiter':1})
    if nl>1: d['space_transfer_class']=mesh_to_mesh
    return d
def tryit(name,np_,cp,d,run=True):
    try:
        c=controller_nonMPI(np_,{'logger_level':50,**cp},d)
        if run:
            P=c.MS[0].levels[0].prob; c.run(P.u_exact(0),0.0,0.1*np_)
        print(f'{name:45s} ACCEPTED')
    except BaseException as e: print(f'{name:45s} rejected: {type(e).__name__}: {str(e)[:70]}')
for k in ('problem_class','sweeper_class','sweeper_params','level_params'):
    d=base(); d.pop(k); tryit('missing '+k,1,{},d)
d=base(); d.pop('step_params'); tryit('missing step_params',1,{},d)
d=base(2); d.pop('space_transfer_class'); tryit('2 levels, no space transfer',1,{},d)
d=base(); d['sweeper_params'].pop('num_nodes'); tryit('missing num_nodes',1,{},d)
d=base(2); tryit('unknown predictor',2,{'predict_type':'nonsense'},d)
d=base(); d['level_params']['residual_type']='nonsense'; tryit('unknown residual type',1,{},d)
d=base(); d['sweeper_params']['initial_guess']='nonsense'; tryit('unknown initial guess',1,{},d)
d=base(); d['sweeper_params']['quad_type']='nonsense'; tryit('unknown quad type',1,{},d)
d=base(); d['sweeper_params']['QI']='nonsense'; tryit('unknown preconditioner',1,{},d)
d=base(2); d['level_params']['nsweeps']=[1,2]; tryit('2 sweeps on coarsest',1,{},d)
d=base(2); d['sweeper_params']['quad_type']='GAUSS'; tryit('PFASST without right node',2,{},d)
d=base(); d['dtype_u']=1; tryit('deprecated dtype_u',1,{},d)
d=base(); tryit('deprecated predict flag',1,{'predict':True},d)
d=base(); d['level_params']['nonsense']=1; tryit('unknown level param',1,{},d)
d=base(); d['step_params']['nonsense']=1; tryit('unknown step param',1,{},d)
d=base(); tryit('unknown controller param',1,{'nonsense':1},d)
d=base(); d['sweeper_params']['nonsense']=1; tryit('unknown sweeper param',1,{},d)

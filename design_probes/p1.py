import time, numpy as np, z3
from fractions import Fraction
from pySDC.core.level import Level
from pySDC.core.problem import Problem
from pySDC.implementations.datatype_classes.mesh import mesh
from pySDC.implementations.sweeper_classes.generic_implicit import generic_implicit

def R(x):
    if isinstance(x, z3.ExprRef): return x
    f = Fraction(float(x))
    return z3.RealVal(f"{f.numerator}/{f.denominator}")

class S:
    """symbolic real scalar wrapping a z3 term"""
    __slots__=('t',)

    def __init__(s,t): s.t = t if isinstance(t,z3.ExprRef) else R(t)
    @staticmethod
    def c(o): return o.t if isinstance(o,S) else R(o)
    def __add__(s,o):
        if isinstance(o,np.ndarray): return NotImplemented
        return S(s.t + S.c(o))
    __radd__=__add__
    def __sub__(s,o):
        if isinstance(o,np.ndarray): return NotImplemented
        return S(s.t - S.c(o))
    def __rsub__(s,o): return S(S.c(o) - s.t)
    def __mul__(s,o):
        if isinstance(o,np.ndarray): return NotImplemented
        return S(s.t * S.c(o))
    __rmul__=__mul__
    def __truediv__(s,o):
        if isinstance(o,np.ndarray): return NotImplemented
        return S(s.t / S.c(o))
    def __rtruediv__(s,o): return S(S.c(o)/s.t)
    def __neg__(s): return S(-s.t)

class SymLin(Problem):
    dtype_u = mesh; dtype_f = mesh
    def __init__(self, lam):
        super().__init__(init=(1, None, np.dtype('O')))
        self.lam = lam
    def eval_f(self,u,t):
        f = self.dtype_f(self.init); f[:] = u*self.lam; return f
    def solve_system(self, rhs, factor, u0, t):
        me = self.dtype_u(self.init); me[:] = rhs/(1 - factor*self.lam); return me

def run(M, qd, sym_lam):
    lam = S(z3.Real('lam')) if sym_lam else S(-3.0)
    L = Level(SymLin, {'lam':lam}, generic_implicit, {'num_nodes':M,'quad_type':'RADAU-RIGHT','QI':qd}, {'dt':S(0.1)}, 0)
    P = L.prob
    L.status.time = 0.0; L.status.unlocked=True
    def var(n):
        m = P.dtype_u(P.init); m[0]=S(z3.Real(n)); return m
    L.u[0]=var('u0'); L.f[0]=P.eval_f(L.u[0],0)
    Uold=[]
    for m in range(1,M+1):
        L.u[m]=var(f'U{m}'); Uold.append(L.u[m][0].t); L.f[m]=P.eval_f(L.u[m],0)
    for m in range(M): L.tau[m]=var(f'tau{m}')
    L.sweep.update_nodes()
    Unew=[L.u[m][0].t for m in range(1,M+1)]
    # spec
    Q=L.sweep.coll.Qmat; QI=L.sweep.QI; dt=L.dt
    lt = lam.t
    eqs=[]
    for m in range(1,M+1):
        lhs = Unew[m-1] - sum(dt.t*R(QI[m,j])*lt*Unew[j-1] for j in range(1,M+1))
        rhs = z3.Real('u0') + sum(dt.t*(R(Q[m,j])-R(QI[m,j]))*lt*Uold[j-1] for j in range(1,M+1)) + z3.Real(f'tau{m-1}')
        eqs.append(lhs==rhs)
    s=z3.Solver()
    if sym_lam:
        for m in range(1,M+1): s.add(1 - dt.t*R(QI[m,m])*lt != 0)
    s.add(z3.Not(z3.And(eqs)))
    t=time.time(); r=s.check(); return str(r), time.time()-t

import logging; logging.disable(logging.CRITICAL)
for M in (2,3,4,5):
    for qd in ('IE','LU'):
        print(M,qd,'conc-lam',run(M,qd,False), flush=True)
for M in (2,3):
    for qd in ('IE','LU'):
        print(M,qd,'sym-lam',run(M,qd,True), flush=True)

"""C02 -- DAE project sweepers (FullyImplicitDAE, SemiImplicitDAE): one real update_nodes on a linear semi-explicit index-1 DAE

        y' = a y + b z,      0 = c y + d z          (problem convention of the DAE project: eval_f(u, u', t) is the residual F(t, u, u'))

with ARBITRARY (symbolic) start value, node values and stored derivatives.  The problem's implicit solve is axiomatic: it hands a mesh of fresh
unknowns to the real system function of the sweeper (the static method F) and records "residual == 0" as an axiom, so the real F is executed too.
The specification is the algebraic iteration in derivative form, written with the tables only:

    fully implicit:  V_m solves  F(t_m, ua_m + dt QD_mm V_m, V_m) = 0,   ua_m = u0 + dt sum_j (Q - QD)_mj V^k_j + dt sum_{j<m} QD_mj V^{k+1}_j
    semi implicit :  (p_m, z_m) solve  p - f(ua_m.diff + dt QD_mm p, z) = 0,  g(ua_m.diff + dt QD_mm p, z) = 0    (only the differential part is integrated)
    then             u_m = u0 + dt sum_j Q_mj V^{k+1}_j

Coefficients and dt are concrete rationals (the unknowns multiply them: the queries stay linear); the data are symbolic."""
import random
from fractions import Fraction

import numpy as np
import z3

from symx import pysdc as sp
from symx.core import SymReal, R, rv, frac, Ctx, prove, model_value
from symx.pysdc import norm_inf, ODT

from pySDC.core.problem import Problem
from pySDC.projects.DAE.misc.meshDAE import MeshDAE
from pySDC.projects.DAE.sweepers.fullyImplicitDAE import FullyImplicitDAE
from pySDC.projects.DAE.sweepers.semiImplicitDAE import SemiImplicitDAE

from harness import common as cm

COEF = dict(a=Fraction(-13, 10), b=Fraction(7, 10), c=Fraction(1, 2), d=Fraction(2))
SWEEPERS = {'fully': FullyImplicitDAE, 'semi': SemiImplicitDAE}


class SymMeshDAE(MeshDAE):
    def __abs__(self):
        return norm_inf(self)


class LinDAE(Problem):
    """linear semi-explicit index-1 DAE; symbolic (z3-valued) or float meshes"""

    dtype_u = SymMeshDAE
    dtype_f = SymMeshDAE

    def __init__(self, symbolic=True):
        super().__init__(init=(1, None, ODT if symbolic else np.dtype('float64')))
        self.symbolic = symbolic
        self.axioms = []
        self.nw = 0
        if not symbolic:
            self.dtype_u = self.dtype_f = MeshDAE

    def eval_f(self, u, du, t):
        f = self.dtype_f(self.init)
        k = (lambda x: x) if self.symbolic else float
        f.diff[0] = du.diff[0] - (u.diff[0] * k(COEF['a']) + u.alg[0] * k(COEF['b']))
        f.alg[0] = u.diff[0] * k(COEF['c']) + u.alg[0] * k(COEF['d'])
        return f

    def solve_system(self, impl_sys, u_approx, factor, u0, t):
        me = self.dtype_u(self.init)
        if self.symbolic:
            self.nw += 1
            w = [z3.Real(f'w{self.nw}_diff'), z3.Real(f'w{self.nw}_alg')]
            me.diff[0], me.alg[0] = SymReal(w[0]), SymReal(w[1])
            res = impl_sys(me, self, factor, u_approx, t)  # the REAL system function of the sweeper on the unknowns
            self.axioms += [R(res.diff[0]) == 0, R(res.alg[0]) == 0]
            return me
        # floats: the system is linear in the unknowns -> two evaluations give the matrix
        z = self.dtype_u(self.init, val=0.0)
        r0 = np.array(impl_sys(z, self, factor, u_approx, t)).flatten()
        cols = []
        for i in range(2):
            e = self.dtype_u(self.init, val=0.0)
            e.flat[i] = 1.0
            cols.append(np.array(impl_sys(e, self, factor, u_approx, t)).flatten() - r0)
        sol = np.linalg.solve(np.array(cols).T, -r0)
        me.flat[:] = sol
        return me


def tasks(tier):
    quick = tier == 'quick'
    T = []
    for which in ('fully', 'semi'):
        for M in ((2, 3) if quick else (1, 2, 3, 4)):
            for qd in (('IE', 'LU') if quick else ('IE', 'LU', 'MIN-SR-S', 'Qpar')):
                for qt in (('RADAU-RIGHT',) if quick else ('RADAU-RIGHT', 'GAUSS')):
                    T.append(('dae', which, M, qd, qt))
    return T


def setup(which, M, qd, qt, dt, symbolic, vals=None):
    """level with the real sweeper; data = symbolic variables or the given floats.  returns (level, variable dict)"""
    L = cm.make_level(LinDAE, {'symbolic': symbolic}, SWEEPERS[which], {'num_nodes': M, 'quad_type': qt, 'QI': qd}, dt)
    P = L.prob
    V = {}

    def mk(name):
        m = P.dtype_u(P.init)
        for comp in ('diff', 'alg'):
            nm = f'{name}_{comp}'
            if symbolic:
                V[nm] = z3.Real(nm)
                getattr(m, comp)[0] = SymReal(V[nm])
            else:
                getattr(m, comp)[0] = float(vals[nm])
        return m

    L.u[0] = mk('u0')
    L.f[0] = mk('F0')
    for m in range(1, M + 1):
        L.u[m] = mk(f'U{m}')
        L.f[m] = mk(f'F{m}')
    return L, V


def spec(which, L, V, dt, newvar):
    """the algebraic iteration, from the tables only.  V: data (z3 terms or floats).  newvar(name) creates an unknown; returns (equations, outputs)"""
    M = L.sweep.coll.num_nodes
    # exact rationals of the float tables (products and differences are taken exactly, as the symbolic run of the real code does)
    Q = [[Fraction(float(x)) for x in row] for row in np.array(L.sweep.coll.Qmat, dtype=float)]
    QD = [[Fraction(float(x)) for x in row] for row in np.array(L.sweep.QI, dtype=float)]
    Q, QD = np.array(Q, dtype=object), np.array(QD, dtype=object)
    dt = Fraction(float(dt))
    a, b, c, d = (COEF[k] for k in 'abcd')
    k = rv
    comps = ('diff', 'alg') if which == 'fully' else ('diff',)
    eqs, new = [], {}
    for m in range(1, M + 1):
        p, q = newvar(f's{m}_diff'), newvar(f's{m}_alg')
        new[m] = {'diff': p, 'alg': q}
        ua = {}
        for comp in comps:
            t = V[f'u0_{comp}']
            for j in range(1, M + 1):
                t = t + k(dt * (Q[m, j] - QD[m, j])) * V[f'F{j}_{comp}']
            for j in range(1, m):
                t = t + k(dt * QD[m, j]) * new[j][comp]
            ua[comp] = t
        fac = k(dt * QD[m, m])
        if which == 'fully':
            y, zz = ua['diff'] + fac * p, ua['alg'] + fac * q
        else:
            y, zz = ua['diff'] + fac * p, q  # the algebraic unknown is the algebraic variable itself
        eqs += [p - (k(a) * y + k(b) * zz) == 0, k(c) * y + k(d) * zz == 0]
    out = {}
    for m in range(1, M + 1):
        out[f'F{m}_diff'] = new[m]['diff']
        ud = V['u0_diff']
        for j in range(1, M + 1):
            ud = ud + k(dt * Q[m, j]) * new[j]['diff']
        out[f'U{m}_diff'] = ud
        if which == 'fully':
            out[f'F{m}_alg'] = new[m]['alg']
            ua_ = V['u0_alg']
            for j in range(1, M + 1):
                ua_ = ua_ + k(dt * Q[m, j]) * new[j]['alg']
            out[f'U{m}_alg'] = ua_
        else:
            out[f'U{m}_alg'] = new[m]['alg']  # z_m; the stored derivative of the algebraic part is not touched
            out[f'F{m}_alg'] = V[f'F{m}_alg']
    return eqs, out


def observed(L, conv):
    M = L.sweep.coll.num_nodes
    out = {}
    for m in range(1, M + 1):
        for comp in ('diff', 'alg'):
            out[f'F{m}_{comp}'] = conv(getattr(L.f[m], comp)[0])
            out[f'U{m}_{comp}'] = conv(getattr(L.u[m], comp)[0])
    return out


def dae_case(rep, PID, which, M, qd, qt):
    name = f'dae/{which}/M{M}/{qd}/{qt}'
    dt = 0.25
    c = Ctx()
    Ctx.cur = c
    try:
        try:
            L, V = setup(which, M, qd, qt, dt, True)
        except Exception as e:
            rep.extra['dae_not_constructible'] = rep.extra.get('dae_not_constructible', 0) + 1
            rep.note(f'{name}: {type(e).__name__}: {str(e)[:100]}')
            return
        L.sweep.update_nodes()
        got = observed(L, R)
        axioms = list(L.prob.axioms)
    finally:
        Ctx.cur = None
    rep.paths += 1
    eqs, exp = spec(which, L, V, dt, lambda n: z3.Real(n))
    box = [z3.And(v >= -1, v <= 1) for v in V.values()]
    goal = z3.And([got[k_] == exp[k_] for k_ in exp])
    res, model = prove(goal, axioms + eqs + box, timeout_ms=120000, name=f'{name}:update_nodes')
    rep.ob(f'{name}:update_nodes', res)
    if res == 'sat':
        rep.replayed += 1
        vals = {k_: float(model_value(model, v)) for k_, v in V.items()}
        dev = float_dev(which, M, qd, qt, dt, vals)
        if dev > 1e-9:
            rep.violation(f'{PID}/{SWEEPERS[which].__name__}/update_nodes', f'{name}: real float sweeper deviates from the algebraic iteration (derivative form) by {dev:.3e}',
                          {'task': ['dae', which, M, qd, qt], 'vals': vals, 'deviation': dev})
        else:
            rep.unreproduced(name, {'float_deviation': dev})
    # sensitivity: a specification with Q and QD exchanged in the known terms must be refuted
    if M >= 2:
        L2, _ = setup(which, M, qd, qt, dt, True)
        L2.sweep.QI = np.array(L2.sweep.QI) * 0.5
        eqs2, exp2 = spec(which, L2, V, dt, lambda n: z3.Real(n + 'b'))
        res2, _ = prove(z3.And([got[k_] == exp2[k_] for k_ in exp2]), axioms + eqs2 + box, timeout_ms=60000, name=f'{name}:mutated', kind='vacuity')
        rep.vac(f'{name}:halved-preconditioner-refuted', res2, 'sat')
    # translator validation: the float twin of the same run against the float evaluation of the specification
    rng = random.Random(hash(name) % 10007 + rep.seed)
    vals = {k_: rng.uniform(-1, 1) for k_ in V}
    rep.translator += 1
    dev = float_dev(which, M, qd, qt, dt, vals)
    if dev > 1e-9:
        rep.violation(f'{PID}/{SWEEPERS[which].__name__}/update_nodes', f'{name}: real float sweeper deviates from the algebraic iteration (derivative form) by {dev:.3e} on sampled data',
                      {'task': ['dae', which, M, qd, qt], 'vals': vals, 'deviation': dev})
    rep.sample({'case': name, 'free': 'start value, node values, stored derivatives (differential and algebraic parts) in the unit box', 'coefficients': {k_: str(v) for k_, v in COEF.items()}, 'dt': dt}, limit=3)


def float_dev(which, M, qd, qt, dt, vals):
    """real float sweeper (linear solve by two evaluations of the real system function) against the float evaluation of the specification"""
    L, _ = setup(which, M, qd, qt, dt, False, vals)
    try:
        L.sweep.update_nodes()
    except np.linalg.LinAlgError:
        return float('inf')  # the system the real sweeper sets up for the (uniquely solvable) problem is singular
    got = observed(L, float)
    # specification in floats: solve node by node
    Mn = L.sweep.coll.num_nodes
    Q = np.array(L.sweep.coll.Qmat, dtype=float)
    QD = np.array(L.sweep.QI, dtype=float)
    a, b, c, d = (float(COEF[k]) for k in 'abcd')
    new = {}
    comps = ('diff', 'alg') if which == 'fully' else ('diff',)
    for m in range(1, Mn + 1):
        ua = {}
        for comp in comps:
            t = vals[f'u0_{comp}']
            for j in range(1, Mn + 1):
                t += dt * (Q[m, j] - QD[m, j]) * vals[f'F{j}_{comp}']
            for j in range(1, m):
                t += dt * QD[m, j] * new[j][comp]
            ua[comp] = t
        fac = dt * QD[m, m]
        if which == 'fully':
            # p - a (ua.d + fac p) - b (ua.a + fac q) = 0 ; c (ua.d + fac p) + d (ua.a + fac q) = 0
            A = np.array([[1 - a * fac, -b * fac], [c * fac, d * fac]])
            r = np.array([a * ua['diff'] + b * ua['alg'], -(c * ua['diff'] + d * ua['alg'])])
        else:
            A = np.array([[1 - a * fac, -b], [c * fac, d]])
            r = np.array([a * ua['diff'], -c * ua['diff']])
        p, q = np.linalg.solve(A, r)
        new[m] = {'diff': p, 'alg': q}
    dev = 0.0
    for m in range(1, Mn + 1):
        dev = max(dev, abs(got[f'F{m}_diff'] - new[m]['diff']))
        ud = vals['u0_diff'] + sum(dt * Q[m, j] * new[j]['diff'] for j in range(1, Mn + 1))
        dev = max(dev, abs(got[f'U{m}_diff'] - ud))
        if which == 'fully':
            dev = max(dev, abs(got[f'F{m}_alg'] - new[m]['alg']))
            ua_ = vals['u0_alg'] + sum(dt * Q[m, j] * new[j]['alg'] for j in range(1, Mn + 1))
            dev = max(dev, abs(got[f'U{m}_alg'] - ua_))
        else:
            dev = max(dev, abs(got[f'U{m}_alg'] - new[m]['alg']), abs(got[f'F{m}_alg'] - vals[f'F{m}_alg']))
    return float(dev)

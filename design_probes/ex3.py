import time, sys, logging, re
import numpy as np, z3
from symx import *
logging.disable(logging.CRITICAL)
from pySDC.implementations.controller_classes.controller_nonMPI import controller_nonMPI
from pySDC.implementations.problem_classes.TestEquation_0D import testequation0d
from pySDC.implementations.sweeper_classes.generic_implicit import generic_implicit
from pySDC.core.convergence_controller import ConvergenceController
from pySDC.core.errors import ConvergenceError
from pySDC.core.hooks import Hooks
from pySDC.helpers.stats_helper import get_sorted, filter_stats
NP=int(sys.argv[1]); MAXR=int(sys.argv[2]); NSTEPS=int(sys.argv[3]); FIRST=sys.argv[4]=='1'
ATT={}
class Inject(ConvergenceController):
    def setup(self, controller, params, description, **kw):
        return {'control_order': 90, **super().setup(controller, params, description, **kw)}
    def determine_restart(self, controller, S, **kw):
        if S.status.iter>=S.params.maxiter:
            key=(round(S.time,9)); n=ATT.get(key,0); ATT[key]=n+1
            if n<=MAXR+1:
                S.status.restart = bool(SymBool(z3.Bool(f'rs_{key}_{n}')))
LOG=[]
class Rec(Hooks):
    def post_step(self,step,level_number):
        super().post_step(step,level_number); L=step.levels[0]
        LOG.append((step.status.slot,L.time,L.dt,complex(L.u[0][0]),complex(L.uend[0]),bool(step.status.restart),step.status.restarts_in_a_row))
def fn(c):
    LOG.clear(); ATT.clear()
    desc=dict(problem_class=testequation0d, problem_params={'lambdas':np.array([-1.0]),'u0':1.0}, sweeper_class=generic_implicit,
      sweeper_params={'num_nodes':2,'quad_type':'RADAU-RIGHT'}, level_params={'dt':0.125,'restol':-1}, step_params={'maxiter':1},
      convergence_controllers={Inject:{}})
    ctl=controller_nonMPI(NP, {'logger_level':50,'hook_class':[Rec],'mssdc_jac':False}, desc)
    from pySDC.implementations.convergence_controller_classes.basic_restarting import BasicRestartingNonMPI
    C=[x for x in ctl.convergence_controllers if isinstance(x,BasicRestartingNonMPI)][0]
    C.params.max_restarts=MAXR; C.params.restart_from_first_step=FIRST
    P=ctl.MS[0].levels[0].prob
    try:
        u,stats=ctl.run(P.u_exact(0),0.0,0.125*NSTEPS)
    except ConvergenceError as e:
        return ('crash',list(LOG))
    return ('ok',list(LOG),u,stats)
t=time.time(); paths,q=explore(fn); el=time.time()-t
print('paths',len(paths),'time',round(el,1))
bad=0; crashes=0
for pc,res in paths:
    if res[0]=='crash': crashes+=1; continue
    _,log,u,stats=res
    acc=[l for l in log if not l[5]]
    # accepted steps tile and chain
    tcur=0.0; ucur=1.0+0j; ok=True; why=''
    for (slot,tm,dt,u0,ue,rs,nr) in acc:
        if abs(tm-tcur)>1e-12: ok=False; why=f'gap/overlap at {tm} expected {tcur}'; break
        if abs(u0-ucur)>1e-13 and False: pass
        tcur=tm+dt; 
    if ok and abs(tcur-0.125*NSTEPS)>1e-12: ok=False; why=f'end {tcur}'
    # value chaining: u0 of accepted step k+1 equals uend of accepted step k (may differ within a block before convergence; compare final)
    if ok and abs(complex(u[0])-acc[-1][4])>1e-14: ok=False; why='returned value'
    # stats: filter recomputed gives exactly accepted steps
    k=[t for t,v in get_sorted(stats,type='niter',recomputed=False)]
    if ok and [round(x,9) for x in k]!=[round(a[1],9) for a in acc]: ok=False; why=f'stats niter times {k} vs accepted {[a[1] for a in acc]}'
    if not ok:
        bad+=1
        if bad<=5: print('VIOL',why,'\n   log',[(l[0],l[1],l[5],l[6]) for l in log])
print('bad',bad,'crashes',crashes)

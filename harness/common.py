"""helpers shared by the harnesses"""
import random

import numpy as np
import z3

from symx.core import SymReal, SymBool, SymInt, R, rv, frac, Ctx, explore, prove, satisfiable, evalf, model_value
from symx import core
from symx import pysdc as sp

from pySDC.core.level import Level

IMPLICIT_QD = ['IE', 'LU', 'MIN-SR-S', 'MIN-SR-NS', 'MIN', 'Qpar', 'GS', 'LU2', 'TRAP', 'IEpar', 'TRAPAR', 'PIC',
               'MIN3', 'VDHS', 'LDU', 'Jumper']
EXPLICIT_QD = ['EE', 'PIC', 'LF']  # all names qmat accepts for a strictly lower triangular matrix: FE/EE, PIC/Picard, SOE/LF/LeapFrog
KDEP_QD = ['MIN-SR-FLEX', 'FLEX-JUMPER']
NODE_TYPES = ['LEGENDRE', 'EQUID', 'CHEBY-1', 'CHEBY-2', 'CHEBY-3', 'CHEBY-4']
QUAD_TYPES = ['RADAU-RIGHT', 'LOBATTO', 'GAUSS', 'RADAU-LEFT']


def make_level(problem_class, problem_params, sweeper_class, sweeper_params, dt, restol=-1.0, level_index=0, **lp):
    L = Level(problem_class, dict(problem_params), sweeper_class, dict(sweeper_params),
              {'dt': dt, 'restol': restol, **lp}, level_index)
    L.status.time = 0.0
    L.status.unlocked = True
    L.status.sweep = 1
    return L


def fill_level(L, with_tau, n, ucls=None, prefix=''):
    """arbitrary (symbolic) node values, tau; f evaluated by the problem.  returns dict of z3 variables"""
    P = L.prob
    M = L.sweep.coll.num_nodes
    V = {'u0': None, 'U': [], 'tau': []}
    L.u[0], V['u0'] = sp.fresh_mesh(P, prefix + 'u0', n=n)
    L.f[0] = P.eval_f(L.u[0], L.time)
    for m in range(1, M + 1):
        L.u[m], vs = sp.fresh_mesh(P, f'{prefix}U{m}', n=n)
        V['U'].append(vs)
        L.f[m] = P.eval_f(L.u[m], L.time)
    for m in range(M):
        if with_tau:
            L.tau[m], vs = sp.fresh_mesh(P, f'{prefix}tau{m}', n=n)
            V['tau'].append(vs)
        else:
            L.tau[m] = None
            V['tau'].append([z3.RealVal(0)] * n)
    return V


def all_vars(V):
    out = list(V['u0'])
    for vs in V['U']:
        out += vs
    for vs in V['tau']:
        out += [v for v in vs if z3.is_const(v) and v.decl().kind() == z3.Z3_OP_UNINTERPRETED]
    return out


def zmatvec(A, x):
    """A: n x n of z3 terms / Fractions;  x: list of z3 terms"""
    n = len(x)
    out = []
    for i in range(n):
        acc = z3.RealVal(0)
        for j in range(n):
            a = A[i][j]
            if isinstance(a, SymReal):
                acc = acc + a.t * x[j]
            elif a != 0:
                acc = acc + rv(a) * x[j]
        out.append(acc)
    return out


def random_env(names, rng, lo=-1.0, hi=1.0):
    return {str(n): rng.uniform(lo, hi) for n in names}


def rel_close(a, b, tol=1e-9):
    return abs(a - b) <= tol * (1.0 + max(abs(a), abs(b)))


def model_env(model, variables):
    """float values of the given z3 constants in a model"""
    env = {}
    for v in variables:
        val = model_value(model, v)
        try:
            env[str(v)] = float(val)
        except Exception:
            env[str(v)] = 0.0
    return env


def xhair_task(rep, pid, path, timeout_s=40, only=None, jobs=6):
    """run CrossHair contracts; *_witness functions (post: False) are reachability twins and must be refuted"""
    from symx import xhair
    import os

    full = os.path.join(os.path.dirname(os.path.dirname(os.path.abspath(__file__))), path)
    res = xhair.check_file(full, timeout_s=timeout_s, jobs=jobs, only=only)
    for r in res:
        name = f'crosshair/{os.path.basename(path)}:{r["fn"]}'
        rep.extra.setdefault('crosshair', []).append({'condition': name, 'verdict': r['verdict'], 's': r['seconds']})
        rep.qs.note('crosshair', r['verdict'], r['seconds'], name)
        if r['fn'].endswith('_witness'):
            rep.vac(name + ':reachable', 'sat' if r['verdict'] == 'counterexample' else r['verdict'], 'sat')
            continue
        if r['verdict'] == 'confirmed':
            rep.ob(name, 'unsat')
        elif r['verdict'] == 'counterexample':
            rep.replayed += 1
            ok, detail = xhair.reexecute(full, r['fn'], r['output'])
            rep.obligations[name] = 'sat'
            if ok:
                rep.violation(f'{pid}/{r["fn"]}', f'CrossHair counterexample reproduced on the plain interpreter: {str(detail)[:300]}',
                              {'task': ['xhair', path, r['fn']], 'detail': detail, 'crosshair_output': r['output'][-400:]})
            else:
                rep.inconclusive.append({'name': name, 'why': f'CrossHair counterexample does not reproduce: {str(detail)[:200]}'})
        else:
            rep.ob(name, 'unknown', f'CrossHair verdict {r["verdict"]}: {r["output"][-200:]}')
    return res

#!/usr/bin/env python3
"""dev aid: print a python file without docstrings/comments:  nodoc.py file [name-of-class-or-function ...]"""
import ast, sys
src = open(sys.argv[1]).read()
tree = ast.parse(src)
for node in ast.walk(tree):
    if isinstance(node, (ast.FunctionDef, ast.ClassDef, ast.Module, ast.AsyncFunctionDef)):
        b = node.body
        if b and isinstance(b[0], ast.Expr) and isinstance(getattr(b[0], 'value', None), ast.Constant) and isinstance(b[0].value.value, str):
            node.body = b[1:] or [ast.Pass()]
names = sys.argv[2:]
if not names:
    print(ast.unparse(tree))
else:
    for node in ast.walk(tree):
        if isinstance(node, (ast.FunctionDef, ast.ClassDef)) and node.name in names:
            print(ast.unparse(node)); print()

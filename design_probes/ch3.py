from typing import Dict, List, Union, Tuple, Optional
from pySDC.core.step import Step
from pySDC.helpers.blocks import BlockDecomposition
d2l = Step._Step__dict_to_list

def c20_dict_to_list(a: Union[int, List[int]], b: Union[int, List[int]], c: Union[int, List[int]]) -> List[Dict[str, int]]:
    """
    pre: all(1 <= len(v) <= 4 for v in (a, b, c) if isinstance(v, list))
    post: len(_) == max([1] + [len(v) for v in (a, b, c) if isinstance(v, list)])
    post: all(_[i][k] == (v[min(i, len(v) - 1)] if isinstance(v, list) else v) for i in range(len(_)) for k, v in (('a', a), ('b', b), ('c', c)))
    """
    return d2l({'a': a, 'b': b, 'c': c})

def c16_nblocks(nProcs: int, a: int, b: int) -> List[int]:
    """
    pre: 1 <= nProcs <= 32 and 1 <= a <= 64 and 1 <= b <= 64
    post: _[0] * _[1] == nProcs
    """
    return BlockDecomposition(nProcs, [a, b]).nBlocks

import numpy as np, z3, time, logging, sys
from fractions import Fraction
from symx import *
from pySDC.core.problem import Problem
from pySDC.core.space_transfer import SpaceTransfer
from pySDC.implementations.datatype_classes.mesh import mesh
from pySDC.implementations.controller_classes.controller_nonMPI import controller_nonMPI
from pySDC.implementations.sweeper_classes.generic_implicit import generic_implicit
from pySDC.helpers.stats_helper import get_sorted
logging.disable(logging.CRITICAL)
import pySDC.core.sweeper as _sw, builtins
def _smax(xs):
    xs=list(xs)
    if any(isinstance(x,S) for x in xs): return S(smax([S.c(x) for x in xs]))
    return builtins.max(xs)
_sw.max=_smax

class SymMesh(mesh):
    def __abs__(self):
        return S(smax([abs(x).t for x in self.view(np.ndarray).ravel()]))
def frac(x): return Fraction(float(x))
def fsolve(Afr, n):
    # exact inverse via Gauss-Jordan on Fractions
    M=[[Afr[i][j] for j in range(n)]+[Fraction(int(i==j)) for j in range(n)] for i in range(n)]
    for c in range(n):
        p=next(r for r in range(c,n) if M[r][c]!=0); M[c],M[p]=M[p],M[c]
        pv=M[c][c]; M[c]=[x/pv for x in M[c]]
        for r in range(n):
            if r!=c and M[r][c]!=0:
                f=M[r][c]; M[r]=[x-f*y for x,y in zip(M[r],M[c])]
    return [row[n:] for row in M]
class LinProb(Problem):
    dtype_u=SymMesh; dtype_f=SymMesh
    def __init__(self, A):
        A=np.asarray(A,dtype=float); n=A.shape[0]
        super().__init__(init=(n,None,np.dtype('O'))); self.A=A; self.n=n
        self.Afr=[[frac(A[i,j]) for j in range(n)] for i in range(n)]
    def eval_f(self,u,t):
        f=self.dtype_f(self.init)
        for i in range(self.n):
            f[i]=sum((u[j]*self.Afr[i][j] for j in range(self.n) if self.Afr[i][j]!=0), S(0))
        return f
    def solve_system(self,rhs,factor,u0,t):
        fac = factor if isinstance(factor,Fraction) else frac(factor)
        n=self.n
        Minv=fsolve([[Fraction(int(i==j))-fac*self.Afr[i][j] for j in range(n)] for i in range(n)],n)
        me=self.dtype_u(self.init)
        for i in range(n): me[i]=sum((rhs[j]*Minv[i][j] for j in range(n)), S(0))
        return me
class Inject(SpaceTransfer):
    def restrict(self,F): return type(F)(F)
    def prolong(self,G): return type(G)(G)

def cfg(NP,NL,M,restol,maxiter,n):
    A=-2*np.eye(n)+np.eye(n,k=1)+np.eye(n,k=-1)
    d=dict(problem_class=LinProb, problem_params={'A':A}, sweeper_class=generic_implicit,
        sweeper_params={'num_nodes':([M,max(M-1,1)] if NL>1 else M),'quad_type':'RADAU-RIGHT','QI':'LU'},
        level_params={'dt':0.25,'restol':restol}, step_params={'maxiter':maxiter})
    if NL>1: d['space_transfer_class']=Inject
    return d
NP,NL,M,MAXIT,n=[int(x) for x in sys.argv[1:6]]
tol=1e-3
def fn(c):
    for i in range(n): c.add(z3.And(z3.Real(f'x{i}')>=-1, z3.Real(f'x{i}')<=1))
    ctl=controller_nonMPI(NP,{'logger_level':50,'predict_type':('pfasst_burnin' if NL>1 and NP>1 else None)},cfg(NP,NL,M,tol,MAXIT,n))
    P=ctl.MS[0].levels[0].prob
    u0=P.dtype_u(P.init); u0[:]=[S(z3.Real(f'x{i}')) for i in range(n)]
    uend,stats=ctl.run(u0,0.0,0.25*NP)
    its=[v for _,v in get_sorted(stats,type='niter')]
    res=[v for _,v in get_sorted(stats,type='residual_post_step')]
    return its, uend, res, ctl
t=time.time(); paths,q=explore(fn); el=time.time()-t
print(sys.argv[1:],'paths',len(paths),'queries',q,'time',round(el,1))
import itertools
for pc,(its,uend,res,ctl) in paths:
    if NP!=1 or NL!=1: break
    L=ctl.MS[0].levels[0]; Q=L.sweep.coll.Qmat; dt=L.dt; A_=L.prob.A
    if its[0]>=MAXIT: continue
    V=[[z3.Real(f'V_{m}_{i}') for i in range(n)] for m in range(M+1)]
    s=z3.Solver(); s.add(pc)
    for i in range(n): s.add(z3.Real(f'x{i}')>=-1, z3.Real(f'x{i}')<=1, V[0][i]==z3.Real(f'x{i}'))
    for m in range(1,M+1):
        for i in range(n):
            s.add(V[m][i]==V[0][i]+sum(R(dt*Q[m,j])*R(A_[i,k])*V[j][k] for j in range(1,M+1) for k in range(n) if A_[i,k]!=0))
    big=np.eye(M*n)-dt*np.kron(Q[1:,1:],A_); c=1+np.abs(np.linalg.inv(big)).sum(1).max()
    bound=R(c*tol)
    s.add(z3.Or([z3.Or(uend[i].t-V[M][i]>bound, V[M][i]-uend[i].t>bound) for i in range(n)]))
    t=time.time(); r=s.check(); print('  path its',its,'converged => near collocation solution:',r,round(time.time()-t,2),'c=',round(c,2))
for pc,(its,uend,res,ctl) in paths[:6]: print(its, len(pc))

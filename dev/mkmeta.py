"""dev aid: dev/mkmeta.py <Cxx-n> <round> <wt> <change> <breaks> <needs> <before> <after>"""
import json, sys
sid, rnd, wt, change, breaks, needs, before, after = sys.argv[1:9]
m = {"property": sid.split('-')[0],
     "origin": f"independent sub-agent ({rnd} round), scratch worktree {wt} (given only the property text and the list of changes already tried)",
     "change": change, "breaks": breaks, "needs_to_manifest": needs,
     "confirmed": f"demo.py exits 0 on the clean worktree and 1 with patch.diff applied (run in {wt}); sub-agent reports identical failing test ids with and without the patch",
     "detection": {"before_strengthening": before, "after": after}}
json.dump(m, open(f'/verif/seeded/{sid}/meta.json', 'w'), indent=1)

import numpy as np, z3, time, logging
from symx import *
logging.disable(logging.CRITICAL)
from pySDC.core.problem import Problem
from pySDC.implementations.datatype_classes.mesh import mesh
from pySDC.implementations.controller_classes.controller_nonMPI import controller_nonMPI
from pySDC.implementations.sweeper_classes.generic_implicit import generic_implicit
from pySDC.helpers.stats_helper import get_sorted
class SymMesh(mesh):
    def __abs__(self): return S(smax([S.c(abs(x)) for x in self.view(np.ndarray).ravel()]))
class Lin(Problem):
    dtype_u=SymMesh; dtype_f=SymMesh
    def __init__(self,lam): super().__init__(init=(1,None,np.dtype('O'))); self.lam=lam
    def eval_f(self,u,t):
        f=self.dtype_f(self.init); f[:]=u*self.lam; return f
    def solve_system(self,rhs,factor,u0,t):
        me=self.dtype_u(self.init); me[:]=rhs/(1-factor*self.lam); return me
def mk(ig,NP=2):
    d=dict(problem_class=Lin,problem_params={'lam':-1.5},sweeper_class=generic_implicit,
      sweeper_params={'num_nodes':2,'quad_type':'RADAU-RIGHT','initial_guess':ig},level_params={'dt':0.25,'restol':-1},step_params={'maxiter':2})
    return controller_nonMPI(NP,{'logger_level':50},d)
Ctx.cur=Ctx()
x=z3.Real('x')
def run(c,t0,T):
    P=c.MS[0].levels[0].prob; u0=P.dtype_u(P.init); u0[0]=S(x)
    u,st=c.run(u0,t0,T); return u[0].t, st
def run_from(c,term,t0,T):
    P=c.MS[0].levels[0].prob; u0=P.dtype_u(P.init); u0[0]=S(term)
    u,st=c.run(u0,t0,T); return u[0].t
for ig in ('spread','random'):
    c=mk(ig); a,_=run(c,0.0,1.0); b,_=run(c,0.0,1.0); d,_=run(mk(ig),0.0,1.0)
    s=z3.Solver(); s.add(a!=b); r=s.check()
    print(ig,'same-controller repeat: structurally identical',a.eq(b),'| real-equal for all x:',r==z3.unsat,'| fresh identical',a.eq(d))
# split run composability
c=mk('spread'); full,_=run(c,0.0,1.0)
c2=mk('spread'); h,_=run(c2,0.0,0.5); rest=run_from(mk('spread'),h,0.5,1.0)
print('split at block boundary structurally identical:', full.eq(rest))

"""C04 -- k iterations give order min(k, p); Runge-Kutta sweepers attain their order.

The real predict / K x update_nodes / compute_end_point are executed with the problem coefficient z symbolic (u0 = 1, dt = 1): the
result is the step function R_K(z) of the REAL code as a z3 term.
 (i)   solver: R_K(z) equals the algebraic recursion written in the query, for all z (QF_NRA validity);
 (ii)  exact Taylor coefficients of the real step function, extracted from the term by power-series evaluation over rationals:
       c_j = 1/j! (+- 1e-12, the tables are floats) for j <= min(K, p); embedded pairs: primary - secondary = O(z^update_order);
 (iii) solver cross-check (thorough): no z in [-1/4, 1/4] with |R_K(z) - T_q(z)| > C |z|^(q+1) + eps.
"""
import json
import math
import random
from fractions import Fraction

import numpy as np
import z3

from symx import core
from symx import pysdc as sp
from symx.core import SymReal, R, rv, frac, Ctx, prove, satisfiable, evalf
from harness import common as cm
from harness import c02

PID = 'C04'
BOUNDS = {'quick': dict(M='1..3', K='1..4 (IMEX <=3)', node_families=2, z='all reals with non-zero denominators', rk_classes=26), 'thorough': dict(M='1..4 (5 for LEGENDRE with RADAU-RIGHT or GAUSS; IMEX: 1..3)', K='1..7', node_families=6, cross_check_interval='z in [-1/4, 1/4]')}
TOL = Fraction(1, 10**12)


def describe(rep):
    c02._load()
    from pySDC.core.sweeper import Sweeper
    import pySDC.implementations.sweeper_classes.Runge_Kutta as rk

    for k in ('generic_implicit', 'explicit', 'imex_1st_order'):
        cls = c02.SWEEPERS[k]
        rep.func(cls.update_nodes, cls.compute_end_point)
    rep.func(Sweeper.predict, rk.RungeKutta.update_nodes, rk.RungeKutta.compute_end_point, rk.RungeKuttaIMEX.update_nodes, rk.RungeKuttaIMEX.compute_end_point)
    rep.explanation = __doc__
    rep.rule = 'case = (sweeper, node set, preconditioner, K, end-point mode, step size of the level: 1, 2^-30 or 2^30 at unchanged lambda dt) or a Runge-Kutta class (embedded pairs: the order the step-size controller assumes is read from AdaptivityRK in a real controller); distinct = different configuration'
    rep.assume('linear test equation u\' = z u (IMEX: zI u + zE u), u0 = 1, dt = 1 (the step function depends on z = lambda dt only)',
               'denominators 1 - z QD[m,m] non-zero', 'order of the quadrature rule p = coll.order as reported by qmat; RK orders as reported by qmat generators',
               'tolerance 1e-12 on Taylor coefficients (the tables are float64)')
    rep.out_of_scope('complex z as a solver variable (the step function is rational with real coefficients: real z determines it)', 'M > 5, K > 7',
                     'nonlinear order conditions', 'rounding of the data path')


def tasks(tier, seed):
    T = []
    quick = tier == 'quick'
    nodes = ['LEGENDRE', 'EQUID'] if quick else cm.NODE_TYPES
    for kind, qds in (('generic_implicit', [('IE',), ('LU',), ('MIN-SR-S',), ('PIC',)] if quick else [(q,) for q in ['IE', 'LU', 'MIN-SR-S', 'MIN-SR-NS', 'PIC', 'Qpar', 'GS', 'TRAP', 'MIN']]),
                      ('explicit', [('EE',), ('PIC',), ('LF',)]),
                      ('imex_1st_order', [('IE', 'EE'), ('LU', 'EE'), ('LU', 'LF'), ('LU', 'PIC'), ('IE', 'PIC')] if quick else [('IE', 'EE'), ('LU', 'EE'), ('LU', 'PIC'), ('IE', 'PIC'), ('MIN-SR-S', 'EE'), ('MIN-SR-S', 'PIC'), ('LU', 'LF'), ('IE', 'LF')])):
        for nt in nodes:
            for qt in cm.QUAD_TYPES:
                for M in ([1, 2, 3] if quick else [1, 2, 3, 4, 5]):
                    if qt in ('LOBATTO', 'RADAU-LEFT') and M < 2:
                        continue
                    if quick and nt == 'EQUID' and (qt != 'RADAU-RIGHT' or M != 3):
                        continue
                    if M == 5 and (nt != 'LEGENDRE' or qt not in ('RADAU-RIGHT', 'GAUSS')):
                        continue  # five nodes only for the two most used rules (solver time)
                    if kind == 'imex_1st_order' and M >= 4:
                        continue  # two symbolic coefficients: the identity queries with four nodes take minutes each (measured), three nodes are the bound here
                    for qd in qds:
                        if quick and qt in ('GAUSS', 'RADAU-LEFT') and (qd[0] not in ('LU', 'EE') or qd[-1] == 'LF' or M == 1):
                            continue
                        Ks = [1, 2, 3, 4] if quick else list(range(1, min(7, 2 * M + 2) + 1))
                        if kind == 'imex_1st_order':
                            Ks = [k for k in Ks if k <= ((3 if M < 3 else 2) if quick else 5)]
                        # end point by quadrature although the right end is a node (collocation update): thorough everywhere, quick for LU / EE with LEGENDRE nodes
                        cus = [False, True] if qt in ('RADAU-RIGHT', 'LOBATTO') and (not quick or (nt == 'LEGENDRE' and qd[0] in ('LU', 'EE') and qd[-1] != 'LF' and M >= 2)) else [False]
                        for cu in cus:
                            T.append(('sdc', kind, M, nt, qt, qd, tuple(Ks), cu))
    # tiny and huge step sizes with lambda * dt = z unchanged: the step function depends on z only (dt * QI[m, m] is 3e-10 resp. 1e9 here, never exactly zero)
    for dt_ in (2.0**-30, 2.0**30):
        for kind, qd, M_ in (('generic_implicit', ('LU',), 2), ('generic_implicit', ('IE',), 3), ('imex_1st_order', ('LU', 'EE'), 2), ('explicit', ('EE',), 2)):
            T.append(('sdc', kind, M_, 'LEGENDRE', 'RADAU-RIGHT', qd, (1, 2, 3), False, dt_))
    # preconditioners that depend on the sweep index (several sweeps with changing tables)
    for M in ([2, 3] if quick else [2, 3, 4]):
        for kind, qd in (('generic_implicit', ('MIN-SR-FLEX',)), ('imex_1st_order', ('MIN-SR-FLEX', 'EE'))):
            if kind == 'imex_1st_order' and M >= 4:
                continue
            T.append(('sdc', kind, M, 'LEGENDRE', 'RADAU-RIGHT', qd, tuple(range(1, (3 if kind == 'imex_1st_order' else 4) + 1)), False))
    for M in ([2, 3] if quick else [2, 3, 4]):
        for kind, qd in (('generic_implicit', ('LU',)), ('explicit', ('EE',)), ('imex_1st_order', ('LU', 'EE'))):
            if kind == 'imex_1st_order' and M > 2:
                continue  # two symbolic coefficients + M node values: z3 does not decide the M = 3 query within 4 minutes (measured)
            T.append(('fixedpoint', kind, M, 'LEGENDRE', 'RADAU-RIGHT', qd))
            if not quick:
                T.append(('fixedpoint', kind, M, 'LEGENDRE', 'LOBATTO', qd))
    import pySDC.implementations.sweeper_classes.Runge_Kutta as rk

    for name in sorted(dir(rk)):
        c = getattr(rk, name)
        if isinstance(c, type) and issubclass(c, rk.RungeKutta) and c not in (rk.RungeKutta, rk.RungeKuttaIMEX) and c.matrix is not None:
            T.append(('rk', name))
    return T


def run_task(rep, task):
    c02._load()
    sp.install_shadows()
    if task[0] == 'sdc':
        sdc_case(rep, *task[1:])
    elif task[0] == 'fixedpoint':
        fixedpoint_case(rep, *task[1:])
    elif task[0] == 'rk':
        rk_case(rep, task[1])


# ------------------------------------------------------------------------------------------------ power series over Q


class Series:
    """truncated power series in one variable with Fraction coefficients"""

    N = 10

    def __init__(self, c):
        self.c = list(c)[: Series.N] + [Fraction(0)] * max(0, Series.N - len(c))

    @staticmethod
    def const(x):
        return Series([Fraction(x)])

    def __add__(self, o):
        return Series([a + b for a, b in zip(self.c, o.c)])

    def __sub__(self, o):
        return Series([a - b for a, b in zip(self.c, o.c)])

    def __mul__(self, o):
        out = [Fraction(0)] * Series.N
        for i, a in enumerate(self.c):
            if a == 0:
                continue
            for j, b in enumerate(o.c):
                if i + j >= Series.N:
                    break
                if b != 0:
                    out[i + j] += a * b
        return Series(out)

    def inv(self):
        if self.c[0] == 0:
            raise ZeroDivisionError('series with zero constant term')
        out = [Fraction(0)] * Series.N
        out[0] = 1 / self.c[0]
        for n in range(1, Series.N):
            s = sum(self.c[k] * out[n - k] for k in range(1, n + 1))
            out[n] = -s / self.c[0]
        return Series(out)

    def __truediv__(self, o):
        return self * o.inv()


def series_of(term, var_map):
    """power series of a z3 real term built from + - * / numerals and the variables in var_map (name -> Series)"""
    cache = {}

    def go(t):
        key = t.get_id()
        if key in cache:
            return cache[key]
        if z3.is_rational_value(t):
            r = Series.const(Fraction(t.numerator_as_long(), t.denominator_as_long()))
        elif z3.is_const(t) and t.decl().kind() == z3.Z3_OP_UNINTERPRETED:
            r = var_map[str(t)]
        else:
            k = t.decl().kind()
            ch = [go(c) for c in t.children()]
            if k == z3.Z3_OP_ADD:
                r = ch[0]
                for c in ch[1:]:
                    r = r + c
            elif k == z3.Z3_OP_SUB:
                r = ch[0]
                for c in ch[1:]:
                    r = r - c
            elif k == z3.Z3_OP_MUL:
                r = ch[0]
                for c in ch[1:]:
                    r = r * c
            elif k == z3.Z3_OP_DIV:
                r = ch[0] / ch[1]
            elif k == z3.Z3_OP_UMINUS:
                r = Series.const(0) - ch[0]
            elif k == z3.Z3_OP_TO_REAL:
                r = ch[0]
            else:
                raise NotImplementedError(f'operator {t.decl()} in step function')
        cache[key] = r
        return r

    return go(term)


ZS = Series([0, 1])


# ------------------------------------------------------------------------------------------------ SDC


DT = [1.0]  # step size of the sdc cases (the problem coefficient is z / dt, so that lambda * dt = z exactly; powers of two only)


def sdc_step_function(kind, M, nt, qt, qd, K, cu, zs):
    """run the real predictor, K sweeps and the end point; returns (term after each k in Ks, level)"""
    sc = 1.0 / DT[0]
    zs = {k: (v * sc if sc != 1.0 else v) for k, v in zs.items()}
    coef = {'generic_implicit': {'A': [[zs['zI']]]}, 'explicit': {'A': [[zs['zI']]]}, 'imex_1st_order': {'AI': [[zs['zI']]], 'AE': [[zs['zE']]]}}[kind]
    pc, pp = c02.problem_for(kind, coef)
    L = cm.make_level(pc, pp, c02.SWEEPERS[kind], c02.sweeper_params(kind, M, nt, qt, qd, cu), DT[0])
    P = L.prob
    u0 = P.dtype_u(P.init)
    u0[0] = SymReal(1)
    L.u[0] = u0
    L.sweep.predict()
    return L


def spec_recursion(kind, mats, weights, K, zI, zE, copy_mode):
    """the K-fold preconditioned Picard recursion from a spread start, written out with z3 terms (mats: one set of tables, or a list with the tables
    of sweep 1, 2, ... for preconditioners that depend on the sweep index)"""
    mats_k = mats if isinstance(mats, list) else [mats] * K
    Q = mats_k[0]['Q']
    M = Q.shape[0] - 1
    U = [z3.RealVal(1)] * (M + 1)
    for k_ in range(K):
        mats = mats_k[k_]
        Un = [z3.RealVal(1)] + [None] * M
        for m in range(1, M + 1):
            if kind == 'imex_1st_order':
                QI, QE = mats['QI'], mats['QE']
                rhs = z3.RealVal(1)
                for j in range(1, M + 1):
                    rhs = rhs + (zI * (rv(Q[m, j]) - rv(QI[m, j])) + zE * (rv(Q[m, j]) - rv(QE[m, j]))) * U[j]
                for j in range(1, m):
                    rhs = rhs + (zI * rv(QI[m, j]) + zE * rv(QE[m, j])) * Un[j]
                Un[m] = rhs / (1 - zI * rv(QI[m, m]))
            else:
                QD = mats['QI'] if kind == 'generic_implicit' else mats['QE']
                rhs = z3.RealVal(1)
                for j in range(1, M + 1):
                    rhs = rhs + zI * (rv(Q[m, j]) - rv(QD[m, j])) * U[j]
                for j in range(1, m):
                    rhs = rhs + zI * rv(QD[m, j]) * Un[j]
                Un[m] = rhs / (1 - zI * rv(QD[m, m]))
        U = Un
    if copy_mode:
        return U[M]
    zt = zI + zE if kind == 'imex_1st_order' else zI
    return 1 + zt * sum(rv(weights[m - 1]) * U[m] for m in range(1, M + 1))


def sdc_case(rep, kind, M, nt, qt, qd, Ks, cu, dt=1.0):
    """dt: the step size the real level carries (default 1; tiny / huge powers of two: lambda * dt = z is what the step function may depend on)"""
    DT[0] = float(dt)
    try:
        _sdc_case(rep, kind, M, nt, qt, qd, Ks, cu)
    finally:
        DT[0] = 1.0


def _sdc_case(rep, kind, M, nt, qt, qd, Ks, cu):
    name = f'sdc/{kind}/M{M}/{nt}/{qt}/{"+".join(qd)}/cu{int(cu)}' + (f'/dt{DT[0]:g}' if DT[0] != 1.0 else '')
    zI, zE = z3.Real('zI'), z3.Real('zE')
    c = Ctx()
    Ctx.cur = c
    try:
        try:
            L = sdc_step_function(kind, M, nt, qt, qd, max(Ks), cu, {'zI': SymReal(zI), 'zE': SymReal(zE)})
        except Exception as e:
            if 'coefficients' in str(e) or 'nNodes' in str(e):
                rep.extra['not_constructible'] = rep.extra.get('not_constructible', 0) + 1
                return
            raise
        sw = L.sweep
        mats = c02.held_mats(sw, kind)
        if any(np.isnan(v).any() for v in mats.values()):
            rep.extra['nan_tables_skipped'] = rep.extra.get('nan_tables_skipped', 0) + 1
            return
        p = sw.coll.order
        copy_mode = bool(sw.coll.right_is_node and not sw.params.do_coll_update)
        weights = np.array(sw.coll.weights, dtype=float)
        terms = {}
        mats_per_sweep = []
        for k in range(1, max(Ks) + 1):
            sw.updateVariableCoeffs(k)  # (what the controller does before every sweep; a no-op unless the preconditioner depends on the sweep index)
            mats_per_sweep.append(c02.held_mats(sw, kind))
            sw.update_nodes()
            if k in Ks:
                sw.compute_end_point()
                terms[k] = R(L.uend[0])
    finally:
        Ctx.cur = None
    rep.paths += 1
    den = [1 - zI * rv(mk['QI'][m, m]) != 0 for mk in mats_per_sweep for m in range(1, M + 1)] if mats.get('QI') is not None else []
    for K in Ks:
        # (i) exact identity with the algebraic recursion, all z
        spec = spec_recursion(kind, mats_per_sweep[:K], weights, K, zI, zE, copy_mode)
        res, model = prove(terms[K] == spec, den, timeout_ms=180000, name=f'{name}/K{K}:identity')
        rep.ob(f'{name}/K{K}:identity', res)
        if res == 'sat':
            triage_sdc(rep, kind, M, nt, qt, qd, K, cu, model, zI, zE, name, mats_per_sweep[:K], weights, copy_mode, term=terms[K], spec=spec)
        # (ii) Taylor coefficients of the real step function
        q = min(K, p)
        alphas = [Fraction(1)] if kind != 'imex_1st_order' else [Fraction(a, 4) for a in range(0, 5)] + [Fraction(2), Fraction(-1)]
        for al in alphas[: q + 2]:
            ser = series_of(terms[K], {'zI': ZS * Series.const(al), 'zE': ZS * Series.const(1 - al)})
            worst = max(abs(ser.c[j] - Fraction(1, math.factorial(j))) for j in range(q + 1))
            ok = worst <= TOL
            rep.side(f'{name}/K{K}/alpha{al}:order-{q}', ok, {'order_expected': q, 'max_coefficient_error': float(worst),
                                                                'coefficients': [float(x) for x in ser.c[: q + 2]]})
            # sensitivity: the next coefficient is NOT matched when K < p (otherwise the test could not see a lost order)
        if K == max(Ks) and M >= 2 and kind != 'imex_1st_order':
            bad = spec_recursion(kind, {k_: (v + (1e-9 if k_ == 'Q' else 0) * np.eye(M + 1, k=-1)) for k_, v in mats.items()}, weights, K, zI, zE, copy_mode)
            # witness at a pinned rational argument (the solver only has to evaluate; the free-z query with a 1e-9 perturbation is beyond nlsat for K = 7)
            pin = [zI == rv(Fraction(-1, 2))] + ([zE == rv(Fraction(1, 8))] if kind == 'imex_1st_order' else [])
            res, _ = prove(z3.Or(terms[K] == bad, z3.Not(z3.And(pin))), den, name=f'{name}/K{K}:mutated', kind='vacuity')
            rep.vac(f'{name}/K{K}:mutated-spec-refuted', res, 'sat')
        # (iii) solver cross-check without oracle matrices
        if rep.tier != 'quick' and kind != 'imex_1st_order' and M <= 3 and K <= 5:
            z = zI
            T = sum(pw(z, j) * rv(Fraction(1, math.factorial(j))) for j in range(q + 1))
            d = terms[K] - T
            az = z3.If(z >= 0, z, -z)
            bound = rv(5) * pw(az, q + 1) + rv(1e-10)
            res, model = satisfiable(den + [z >= rv(-0.25), z <= rv(0.25), z3.Or(d > bound, -d > bound)], timeout_ms=20000, name=f'{name}/K{K}:taylor-bound',
                                     kind='validity')
            if res == 'unknown':
                rep.note(f'{name}/K{K}: cross-check (iii) undecided (not part of the claim)')
            else:
                rep.ob(f'{name}/K{K}:taylor-bound', res)
    # translator validation: float run of the real controller-free sweep sequence
    rng = random.Random(hash(name) % 7919 + rep.seed)
    for _ in range(2):
        env = {'zI': rng.uniform(-1.5, 0.2), 'zE': rng.uniform(-0.3, 0.3)}
        got = evalf(terms[max(Ks)], env)
        ref = float_step(kind, M, nt, qt, qd, max(Ks), cu, env)
        rep.translator += 1
        if not cm.rel_close(got, ref, 1e-8):
            rep.error(f'translator validation failed for {name}: {got} vs {ref}')
    rep.sample({'case': name, 'K': list(Ks), 'quadrature_order_p': int(p), 'free_variable': 'z (all reals with non-vanishing denominators)'}, limit=6)


def pw(x, n):
    r = z3.RealVal(1)
    for _ in range(n):
        r = r * x
    return r


def float_step(kind, M, nt, qt, qd, K, cu, env):
    from harness import sweepspec as ss

    env = dict(env, zI=env['zI'] / DT[0], zE=env.get('zE', 0.0) / DT[0])
    coefF = {'generic_implicit': {'A': [[env['zI']]]}, 'explicit': {'A': [[env['zI']]]}, 'imex_1st_order': {'AI': [[env['zI']]], 'AE': [[env['zE']]]}}[kind]
    pc, pp = c02.float_problem_for(kind, {k: np.array(v) for k, v in coefF.items()})
    L = cm.make_level(pc, pp, c02.SWEEPERS[kind], c02.sweeper_params(kind, M, nt, qt, qd, cu), DT[0])
    P = L.prob
    u0 = P.dtype_u(P.init)
    u0[0] = 1.0
    L.u[0] = u0
    L.sweep.predict()
    for k in range(1, K + 1):
        L.sweep.updateVariableCoeffs(k)
        L.sweep.update_nodes()
    L.sweep.compute_end_point()
    return float(L.uend[0])


def numpy_recursion(kind, mats, weights, K, zI, zE, copy_mode):
    mats_k = mats if isinstance(mats, list) else [mats] * K
    Q = mats_k[0]['Q'][1:, 1:]
    M = Q.shape[0]
    U = np.ones(M)
    for k_ in range(K):
        mats = mats_k[k_]
        if kind == 'imex_1st_order':
            QI, QE = mats['QI'][1:, 1:], mats['QE'][1:, 1:]
            lhs = np.eye(M) - zI * QI - zE * QE
            rhs = np.ones(M) + (zI * (Q - QI) + zE * (Q - QE)) @ U
        else:
            QD = (mats['QI'] if kind == 'generic_implicit' else mats['QE'])[1:, 1:]
            lhs = np.eye(M) - zI * QD
            rhs = np.ones(M) + zI * (Q - QD) @ U
        U = np.linalg.solve(lhs, rhs)
    zt = zI + zE if kind == 'imex_1st_order' else zI
    return U[-1] if copy_mode else 1 + zt * weights @ U


def triage_sdc(rep, kind, M, nt, qt, qd, K, cu, model, zI, zE, name, mats, weights, copy_mode, term=None, spec=None):
    rep.replayed += 1
    env = {'zI': float(core.model_value(model, zI)), 'zE': float(core.model_value(model, zE))}
    try:
        got = float_step(kind, M, nt, qt, qd, K, cu, env)
        exp = numpy_recursion(kind, mats, weights, K, env['zI'], env['zE'], copy_mode)
    except Exception as e:
        rep.unreproduced(name, f'{type(e).__name__}: {e}')
        return
    if abs(got - exp) > 1e-8 * (1 + abs(exp)):
        rep.violation(f'{PID}/{kind}/step-function', f'{name}/K{K}: real step function {got!r} vs algebraic recursion {exp!r} at z={env}',
                      {'task': ['sdc', kind, M, nt, qt, list(qd), K, cu, DT[0]], 'env': env, 'observed': got, 'expected': exp})
    else:
        # the exact identity is refuted but the real float code agrees with the recursion: the encoded code may combine table entries in floating point
        # (e.g. a stored Q - QD) where the specification combines them exactly.  Decide the identity up to such rounding: two rational functions of
        # degree <= d that agree in their first 2d + 2 Taylor coefficients are identical; the coefficients are computed exactly from both terms.
        if term is not None and spec is not None:
            old = Series.N
            try:
                Series.N = 2 * (K * M + M) + 4
                worst = Fraction(0)
                for al in ([Fraction(1)] if kind != 'imex_1st_order' else [Fraction(0), Fraction(1, 2), Fraction(1), Fraction(2), Fraction(-1), Fraction(3)]):
                    vm = {'zI': Series([0, 1]), 'zE': Series([0, al])}
                    a, b = series_of(term, vm), series_of(spec, vm)
                    worst = max([worst] + [abs(x - y) / (1 + abs(y)) for x, y in zip(a.c, b.c)])
            except Exception as e:
                worst = None
            finally:
                Series.N = old
            if worst is not None and worst <= Fraction(1, 10**11):
                rep.obligations[f'{name}/K{K}:identity'] = 'unsat'
                rep.note(f'{name}/K{K}: exact identity refuted at rounding level only (all Taylor coefficients up to degree {2 * (K * M + M) + 3} agree within {float(worst):.1e}; '
                         f'the float run agrees with the recursion at the solver model): counted as discharged up to rounding of table entries')
                return
        rep.unreproduced(f'{name}/K{K}', {'env': env, 'observed': got, 'expected': exp})


def fixedpoint_case(rep, kind, M, nt, qt, qd):
    """iterating to convergence yields exactly the collocation method: the collocation solution is a fixed point of the real sweep and the
    real end point then equals the collocation stability function"""
    name = f'fixedpoint/{kind}/M{M}/{qt}/{"+".join(qd)}'
    zI, zE = z3.Real('zI'), z3.Real('zE')
    V = [z3.Real(f'V{m}') for m in range(1, M + 1)]
    c = Ctx()
    Ctx.cur = c
    try:
        L = sdc_step_function(kind, M, nt, qt, qd, 1, False, {'zI': SymReal(zI), 'zE': SymReal(zE)})
        P = L.prob
        for m in range(1, M + 1):
            L.u[m] = sp.mkmesh(P, [SymReal(V[m - 1])])
            L.f[m] = P.eval_f(L.u[m], 0.0)
        sw = L.sweep
        Q = np.array(sw.coll.Qmat)
        w = np.array(sw.coll.weights)
        mats = c02.held_mats(sw, kind)
        sw.update_nodes()
        new = [R(L.u[m][0]) for m in range(1, M + 1)]
        sw.compute_end_point()
        end = R(L.uend[0])
        copy_mode = bool(sw.coll.right_is_node and not sw.params.do_coll_update)
    finally:
        Ctx.cur = None
    rep.paths += 1
    zt = zI + zE if kind == 'imex_1st_order' else zI
    coll = [V[m - 1] == 1 + zt * sum(rv(Q[m, j]) * V[j - 1] for j in range(1, M + 1)) for m in range(1, M + 1)]
    den = [1 - zI * rv(mats['QI'][m, m]) != 0 for m in range(1, M + 1)] if 'QI' in mats else []
    res, model = prove(z3.And([new[m] == V[m] for m in range(M)]), coll + den, timeout_ms=120000, name=f'{name}:fixed-point')
    rep.ob(f'{name}:fixed-point', res)
    if res == 'sat':
        rep.unreproduced(f'{name}:fixed-point', str(model)[:300])
    stab = V[M - 1] if copy_mode else 1 + zt * sum(rv(w[m]) * V[m] for m in range(M))
    res, model = prove(end == stab, coll + den, timeout_ms=120000, name=f'{name}:collocation-stability-function')
    rep.ob(f'{name}:collocation-stability-function', res)
    if res == 'sat':
        rep.unreproduced(f'{name}:stability', str(model)[:300])
    res, _ = satisfiable(coll + den, name=f'{name}:assumptions', kind='vacuity')
    rep.vac(f'{name}:assumptions-sat', res, 'sat')


# ------------------------------------------------------------------------------------------------ Runge-Kutta


def rk_order(cls):
    """order reported by qmat for the scheme(s) behind the class (minimum over implicit / explicit parts)"""
    orders = []
    for attr in ('generator', 'generator_IMP', 'generator_EXP'):
        g = getattr(cls, attr, None)
        if g is not None and hasattr(g, 'order'):
            orders.append(int(g.order))
    return min(orders) if orders else None


RK_DOC_ORDER = {'IMEXEuler': 1, 'IMEXEulerStifflyAccurate': 1, 'ARK54': 5, 'ARK548L2SA': 5, 'ARK32': 3, 'ARK2': 2, 'ARK3': 3}


def rk_second_step(L, dt2, u0):
    """another step on the same level / sweeper object with the step size dt2"""
    P = L.prob
    L.params.dt = dt2
    L.status.time = 1.0
    L.u[0] = P.dtype_u(P.init)
    L.u[0][0] = u0
    L.f[0] = P.eval_f(L.u[0], 1.0)
    L.sweep.update_nodes()
    L.sweep.compute_end_point()
    return L.uend[0]


def rk_case(rep, name):
    from harness.c02_rk import rk_run, rk_tables
    import pySDC.implementations.sweeper_classes.Runge_Kutta as rk

    cls = getattr(rk, name)
    A, W, AE, WE, imex = rk_tables(cls)
    zI, zE = z3.Real('zI'), z3.Real('zE')
    c = Ctx()
    Ctx.cur = c
    try:
        sp.DENOMS.clear()
        U, uend, sec, L = rk_run(cls, 1.0, SymReal(1), SymReal(zI), SymReal(zE), imex)
        den = [d != 0 for d in sp.DENOMS]
        # a second step on the SAME sweeper object with another step size (what every adaptive run does)
        uend2 = rk_second_step(L, 0.5, SymReal(1))
        den2 = [d != 0 for d in sp.DENOMS]
    finally:
        Ctx.cur = None
    rep.paths += 1
    Rz = R(uend)
    p = rk_order(cls) if not imex else RK_DOC_ORDER.get(name, rk_order(cls))
    if p is None:
        p = RK_DOC_ORDER.get(name)
    # (i) algebraic stability function from the Butcher tableau, written out in the query
    M = A.shape[0]
    Us = []
    for m in range(M):
        rhs = z3.RealVal(1)
        for j in range(m):
            rhs = rhs + (zI * rv(A[m, j]) + (zE * rv(AE[m, j]) if imex else 0)) * Us[j]
        Us.append(rhs / (1 - zI * rv(A[m, m])))
    emb = cls.is_embedded()
    W1 = W[0] if emb else W
    W1E = (WE[0] if emb else WE) if imex else None
    spec = 1 + sum((zI * rv(W1[j]) + (zE * rv(W1E[j]) if imex else 0)) * Us[j] for j in range(M))
    res, model = prove(Rz == spec, den, timeout_ms=180000, name=f'rk/{name}:stability-function')
    rep.ob(f'rk/{name}:stability-function', res)
    if res == 'sat':
        from harness.c02_rk import rk_triage

        env = {'dt': 1.0, 'u0_0': 1.0, 'lamI': float(core.model_value(model, zI)), 'lamE': float(core.model_value(model, zE))}
        rk_triage(rep, cls, name, 'end_point', env, imex)
    # the step with dt = 1/2 on the same object is the stability function at z/2
    half = rv(Fraction(1, 2))
    spec2 = z3.substitute(spec, (zI, zI * half), (zE, zE * half))
    res, model = prove(R(uend2) == spec2, den2, timeout_ms=180000, name=f'rk/{name}:second-step-with-other-step-size')
    rep.ob(f'rk/{name}:second-step-with-other-step-size', res)
    if res == 'sat':
        rep.replayed += 1
        last = None
        for env in ({'zI': float(core.model_value(model, zI)), 'zE': float(core.model_value(model, zE))}, {'zI': -0.5, 'zE': 0.125}, {'zI': -1.0, 'zE': 0.5}):
            try:
                _, _, _, Lf = rk_run(cls, 1.0, 1.0, env['zI'], env['zE'], imex, float_mode=True)
                got = float(np.real(rk_second_step(Lf, 0.5, 1.0)))
                _, one, _, _ = rk_run(cls, 0.5, 1.0, env['zI'], env['zE'], imex, float_mode=True)
                exp = float(np.real(one))
            except Exception as e:  # (e.g. a singular stage matrix at the solver's model)
                last = f'{type(e).__name__}: {e}'
                continue
            last = {'env': env, 'observed': got, 'expected': exp}
            if abs(got - exp) > 1e-9 * (1 + abs(exp)):
                rep.violation(f'{PID}/rk/{name}/second-step-other-dt', f'rk/{name}: second step with dt = 0.5 on a sweeper that has taken a step with dt = 1 gives {got!r}, a fresh sweeper gives {exp!r} (lambda = {env})',
                              {'task': ['rk', name], 'env': env, 'observed': got, 'expected': exp, 'second_step': True})
                break
        else:
            rep.unreproduced(f'rk/{name}:second-step', last)
    # (ii) Taylor coefficients of the real step function
    alphas = [Fraction(1)] if not imex else [Fraction(a, 4) for a in range(0, 5)] + [Fraction(2), Fraction(-1), Fraction(3)]
    for al in alphas[: (p or 1) + 2]:
        vm = {'zI': ZS * Series.const(al), 'zE': ZS * Series.const(1 - al)}
        ser = series_of(Rz, vm)
        worst = max(abs(ser.c[j] - Fraction(1, math.factorial(j))) for j in range(p + 1))
        rep.side(f'rk/{name}/alpha{al}:order-{p}', worst <= TOL, {'order_expected': p, 'max_coefficient_error': float(worst), 'coefficients': [float(x) for x in ser.c[: p + 2]]})
        if emb:
            uo = assumed_update_order(cls)  # the order the REAL step-size controller (AdaptivityRK in a real controller) assumes for this sweeper class
            s2 = series_of(R(sec), vm)
            worst2 = max(abs(ser.c[j] - s2.c[j]) for j in range(uo))
            rep.side(f'rk/{name}/alpha{al}:embedded-difference-order-{uo}', worst2 <= TOL, {'update_order': uo, 'max_low_coefficient_difference': float(worst2)})
    # the method must NOT be of order p+1 for all alpha (otherwise the declared order would be untestable): recorded, not asserted
    ser = series_of(Rz, {'zI': ZS, 'zE': Series.const(0)})
    rep.sample({'case': f'rk/{name}', 'stages': M, 'order': p, 'embedded': emb, 'next_coefficient_error': float(abs(ser.c[p + 1] - Fraction(1, math.factorial(p + 1))))}, limit=8)


_ASSUMED = {}


def assumed_update_order(cls):
    """update order carried by the AdaptivityRK object of a real controller built for this sweeper class -- after controllers for two other embedded
    classes (a higher and a lower order one) were built in the same process, as in a script that compares methods"""
    if cls in _ASSUMED:
        return _ASSUMED[cls]
    import logging

    import pySDC.implementations.sweeper_classes.Runge_Kutta as rk
    from pySDC.implementations.controller_classes.controller_nonMPI import controller_nonMPI
    from pySDC.implementations.convergence_controller_classes.adaptivity import AdaptivityRK
    from pySDC.implementations.problem_classes.TestEquation_0D import testequation0d

    logging.disable(logging.CRITICAL)

    def carried(c_):
        d = dict(problem_class=testequation0d, problem_params={'lambdas': np.array([-1.0]), 'u0': 1.0}, sweeper_class=c_, sweeper_params={},
                 level_params={'dt': 0.1}, step_params={'maxiter': 1}, convergence_controllers={AdaptivityRK: {'e_tol': 1e-3}})
        ctl = controller_nonMPI(1, {'logger_level': 50, 'dump_setup': False, 'mssdc_jac': False}, d)
        return [C for C in ctl.convergence_controllers if isinstance(C, AdaptivityRK)][0].params.update_order

    try:
        for other in (rk.Cash_Karp, rk.Heun_Euler):
            if other is not cls:
                carried(other)
        _ASSUMED[cls] = int(carried(cls))
    except Exception:
        _ASSUMED[cls] = int(cls.get_update_order())  # (classes the controller cannot be built for: the documented order)
    return _ASSUMED[cls]


def replay(path):
    c02._load()
    d = json.load(open(path))['replay']
    t = d['task']
    if t[0] == 'sdc':
        DT[0] = float(t[8]) if len(t) > 8 else 1.0
        got = float_step(t[1], t[2], t[3], t[4], tuple(t[5]), t[6], t[7], d['env'])
        DT[0] = 1.0
        print('observed', got, 'expected', d['expected'])
        bad = abs(got - d['expected']) > 1e-8 * (1 + abs(d['expected']))
    elif t[0] == 'rk' and d.get('second_step'):
        from harness.c02_rk import rk_run, rk_tables
        import pySDC.implementations.sweeper_classes.Runge_Kutta as rk

        cls = getattr(rk, t[1])
        imex = rk_tables(cls)[4]
        env = d['env']
        _, _, _, Lf = rk_run(cls, 1.0, 1.0, env['zI'], env['zE'], imex, float_mode=True)
        got = float(np.real(rk_second_step(Lf, 0.5, 1.0)))
        _, one, _, _ = rk_run(cls, 0.5, 1.0, env['zI'], env['zE'], imex, float_mode=True)
        exp = float(np.real(one))
        print('second step (dt 0.5) on a used sweeper', got, 'fresh sweeper', exp)
        bad = abs(got - exp) > 1e-9 * (1 + abs(exp))
    else:
        from harness import c02 as c2

        return c2.replay(path)
    print('REPRODUCED' if bad else 'not reproduced')
    return 1 if bad else 0

#!/bin/bash
# development aid: run checks against a scratch copy of /repo with a patch applied (never touches /repo)
#   dev/mutant.sh <patch.diff> <Cxx> [more check args]
set -e
P="$(realpath "$1")"; shift
W=/dev/shm/pysdc-mut-$$
mkdir -p $W/repo $W/out
cp -r /repo/pySDC $W/repo/
( cd $W/repo && patch -p1 -s < "$P" )
VERIF_REPO=$W/repo VERIF_OUT=$W/out /verif/check "$@" 2>&1 | grep -v "^  HARNESS\|^\s*$" | tail -${TAILN:-12} || true
rm -rf $W

#!/bin/bash
# dev aid: dev/seed_eval.sh <Cxx> <n> [check args]  -- copy a sub-agent seed, confirm its demo in the scratch worktree, run the check against it
P=$1; N=$2; shift 2
WT=${WT:-/tmp/wt_$P}
D=/verif/seeded/$P-$N
mkdir -p $D && cp $WT/seed_out/patch.diff $WT/seed_out/demo.py $WT/seed_out/notes.md $D/ 2>/dev/null
cd $WT || exit 1
git checkout -q -- . 2>/dev/null
echo "--- patch:"; grep '^[-+]' seed_out/patch.diff | grep -v '^+++\|^---' | cut -c1-200 | head -14
timeout 900 /venv/bin/python seed_out/demo.py > /dev/shm/seed_clean.log 2>&1; C=$?
git apply seed_out/patch.diff || { echo "PATCH DOES NOT APPLY"; exit 1; }
timeout 900 /venv/bin/python seed_out/demo.py > /dev/shm/seed_patched.log 2>&1; Q=$?
git checkout -q -- .
echo "--- demo exit: clean=$C patched=$Q"
cd /verif
echo "--- check:"
TAILN=${TAILN:-4} dev/mutant.sh $D/patch.diff $P "$@" 2>&1 | cut -c1-330

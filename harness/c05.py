"""C05 -- collocation nodes, weights and integration matrices are exact on every interval   (weak fit, engine C)

The node / weight computation is qmat + LAPACK: neither the interval nor the node count can be made symbolic.  Per configuration (ENUMERATED)
the real CollBase is constructed, its tables are converted to exact rationals and the solver decides, for every polynomial with coefficients
in [-1,1] (in the interval-normalised variable), that the quadrature of the table equals the exact integral (rational arithmetic inside the
query).  Structural clauses (ordering, end points, zero padding, S = diff Q, affine covariance) have no quantifier left once the configuration
is fixed and are evaluated concretely on the same tables."""
import json
import random
from fractions import Fraction

import numpy as np
import z3

from symx.core import rv, frac, prove, model_value

from pySDC.core.collocation import CollBase

PID = 'C05'
BOUNDS = {'quick': dict(M='1..5', families=6, quad_types=4, intervals=13), 'thorough': dict(M='1..8', families=6, quad_types=4, intervals=15)}
NODE_TYPES = ['LEGENDRE', 'EQUID', 'CHEBY-1', 'CHEBY-2', 'CHEBY-3', 'CHEBY-4']
QUAD_TYPES = ['GAUSS', 'LOBATTO', 'RADAU-LEFT', 'RADAU-RIGHT']


def describe(rep):
    rep.func(CollBase.__init__)
    rep.explanation = __doc__
    rep.rule = 'case = (node family, quadrature type, node count, interval); per case 2 SMT queries (QF_LRA) over all polynomial data + concrete structural clauses'
    rep.assume('tolerance 1e-11 * interval length (1e-9 for EQUID / CHEBY with M >= 7: conditioning of the float tables)',
               'polynomials are written in the normalised variable (t - tleft)/(tright - tleft) with coefficients in [-1,1]')
    rep.out_of_scope('M > 8 (quick: 5) for the families other than LEGENDRE; M > 16', 'arbitrary intervals are enumerated/sampled, not solved (the list includes zero end points, a large offset, short intervals and intervals whose length does not round-trip: (b - a) + a != b)', 'everything inside qmat')


def tasks(tier, seed):
    T = []
    quick = tier == 'quick'
    rng = random.Random(seed)
    intervals = [(0.0, 1.0), (-3.0, -1.0), (1000.0, 1000.1), (-1.0, 7.0), (-1.0, 0.0), (-0.125, 0.0), (0.0, 0.001), (0.0, 1e-6)]  # (end points exactly zero included)
    intervals += [(-0.7, 0.3), (1.1, 5.3), (-2.3, 0.6), (-0.3, 0.1)]  # ((tr - tl) + tl != tr in doubles: an end point obtained by shifting a [0, length] table is off by one ulp)
    for _ in range(3):
        a = rng.uniform(-5, 5)
        intervals.append((a, a + rng.uniform(0.01, 3)))
    for nt in NODE_TYPES:
        for qt in QUAD_TYPES:
            for M in (range(1, 6) if quick else range(1, 9)):
                ivs = intervals if not quick else intervals[:13]
                if M > 5:  # (on intervals shorter than 1e-5 the qmat generator merges nodes closer than 1e-8 to an end point with it -- the defect recorded for large offsets; with M <= 5 all nodes stay clear of that)
                    ivs = [iv for iv in ivs if iv[1] - iv[0] >= 1e-5]
                T.append(('coll', nt, qt, M, ivs))
    # larger node counts (Gauss-Legendre families only: their tables stay well conditioned), two intervals
    for qt in QUAD_TYPES:
        for M in ((9, 13, 16) if quick else (9, 10, 11, 12, 13, 14, 15, 16)):
            T.append(('coll', 'LEGENDRE', qt, M, [(0.0, 1.0), (-0.7, 0.3)]))
    # the collocation object a SWEEPER builds from its parameters (tleft / tright are forwarded): the object the library actually works with
    for nt in NODE_TYPES:
        for qt in QUAD_TYPES:
            for M in ((2, 3) if quick else (2, 3, 5)):
                T.append(('coll', nt, qt, M, [(-3.0, -1.0), (-0.7, 0.3), (1.1, 5.3), (0.0, 0.001), (-1.0, 7.0), (0.0, 1.0)], 'sweeper'))
    return T


def run_task(rep, task):
    _, nt, qt, M, intervals = task[:5]
    via = task[5] if len(task) > 5 else 'direct'
    for (tl, tr) in intervals:
        coll_case(rep, nt, qt, M, tl, tr, via)


def box(vs):
    return [z3.And(v >= -1, v <= 1) for v in vs]


def make_coll(M, tl, tr, nt, qt, via='direct'):
    if via == 'sweeper':
        from pySDC.implementations.sweeper_classes.generic_implicit import generic_implicit

        return generic_implicit({'num_nodes': M, 'quad_type': qt, 'node_type': nt, 'tleft': tl, 'tright': tr, 'QI': 'IE'}, None).coll
    return CollBase(M, tl, tr, node_type=nt, quad_type=qt)


def coll_case(rep, nt, qt, M, tl, tr, via='direct'):
    name = f'{nt}/{qt}/M{M}/[{tl:.6g},{tr:.6g}]' + ('/held-by-a-sweeper' if via == 'sweeper' else '')
    try:
        c = make_coll(M, tl, tr, nt, qt, via)
        ref = CollBase(M, 0, 1, node_type=nt, quad_type=qt)
    except Exception as e:
        rep.extra['not_constructible'] = rep.extra.get('not_constructible', 0) + 1
        return
    Ln = Fraction(tr) - Fraction(tl)
    nodes = [Fraction(float(x)) for x in c.nodes]
    bad = []
    # structural clauses
    if not all(nodes[i] < nodes[i + 1] for i in range(M - 1)):
        bad.append('nodes-not-increasing')
    left_is = nodes[0] == Fraction(tl)
    right_is = nodes[-1] == Fraction(tr)
    if not all(Fraction(tl) <= x <= Fraction(tr) for x in nodes):
        bad.append('nodes-outside-interval')
    if left_is != (qt in ('LOBATTO', 'RADAU-LEFT')) or right_is != (qt in ('LOBATTO', 'RADAU-RIGHT')) or c.left_is_node != (qt in ('LOBATTO', 'RADAU-LEFT')) or c.right_is_node != (qt in ('LOBATTO', 'RADAU-RIGHT')):
        bad.append('end-point-membership')
    if np.any(c.Qmat[0, :] != 0) or np.any(c.Qmat[:, 0] != 0) or np.any(c.Smat[0, :] != 0) or np.any(c.Smat[:, 0] != 0) or c.Qmat.shape != (M + 1, M + 1):
        bad.append('zero-padding')
    scale = float(Ln)
    if not np.allclose(c.Smat[1:, 1:], np.diff(np.vstack([np.zeros(M), c.Qmat[1:, 1:]]), axis=0), atol=1e-13 * scale, rtol=0):
        bad.append('S-is-row-difference-of-Q')
    if not np.allclose(np.cumsum(c.Smat[1:, 1:], axis=0), c.Qmat[1:, 1:], atol=1e-13 * scale, rtol=0):
        bad.append('Q-is-cumulative-sum-of-S')
    # affine covariance with the reference interval [0, 1]
    tolc = 1e-11 if not (nt != 'LEGENDRE' and M >= 7) else 1e-9
    if abs(tl) > 100 * scale:
        tolc *= 1e3  # the node computation loses digits relative to the offset on such intervals (calibrated: 7e-13 relative defect)
    if not (np.allclose((c.nodes - tl) / scale, ref.nodes, atol=1e-9 if abs(tl) > 100 else 1e-12, rtol=0) and np.allclose(c.weights / scale, ref.weights, atol=tolc, rtol=0)
            and np.allclose(c.Qmat / scale, ref.Qmat, atol=tolc, rtol=0)):
        bad.append('affine-covariance')
    # exactness decided by the solver
    tol = rv(Fraction(1, 10**11 if not (nt != 'LEGENDRE' and M >= 7) else 10**9) * Ln)
    s = [(x - Fraction(tl)) / Ln for x in nodes]  # normalised nodes, exact
    p_ord = int(c.order)
    a = [z3.Real(f'a{k}') for k in range(max(p_ord, M))]
    pv = lambda x, deg: sum(rv(x**k) * a[k] for k in range(deg))
    got = sum(rv(c.weights[j]) * pv(s[j], p_ord) for j in range(M))
    ex = sum(rv(Ln / (k + 1)) * a[k] for k in range(p_ord))
    res, m = prove(z3.And(got - ex <= tol, ex - got <= tol), box(a), name=f'{name}:weights-exact-below-degree-{p_ord}')
    rep.ob(f'{name}:weights-exact-below-degree-{p_ord}', res)
    if res == 'sat':
        bad.append('weights-exactness')
    goal = []
    for mi in range(1, M + 1):
        g = sum(rv(c.Qmat[mi, j + 1]) * pv(s[j], M) for j in range(M))
        e = sum(rv(Ln * s[mi - 1] ** (k + 1) / (k + 1)) * a[k] for k in range(M))
        goal += [g - e <= tol, e - g <= tol]
    res, m = prove(z3.And(goal), box(a), name=f'{name}:Q-exact-below-degree-{M}')
    rep.ob(f'{name}:Q-exact-below-degree-{M}', res)
    if res == 'sat':
        bad.append('Q-exactness')
    if bad:
        rep.replayed += 1
        # structural clauses were evaluated concretely on the real tables already; the solver-refuted exactness clauses are confirmed by an
        # independent exact-rational evaluation
        structural = [b for b in bad if b not in ('weights-exactness', 'Q-exactness')]
        conf = structural + [b for b in confirm(c, tl, tr, qt, M) if b not in structural]
        if conf:
            snapped = (abs(tl) >= 100 * (tr - tl)) and ('end-point-membership' in conf or 'weights-exactness' in conf)
            key = f'{PID}/large-offset-node-snapping' if snapped else f'{PID}/{conf[0]}/{nt}/{qt}' + ('/held-by-a-sweeper' if via == 'sweeper' else '')
            rep.violation(key, ('collocation object of generic_implicit with the parameters of ' if via == 'sweeper' else '') + f'CollBase({M}, {tl!r}, {tr!r}, node_type={nt!r}, quad_type={qt!r}): {conf}; nodes {c.nodes.tolist()}',
                          {'task': ['coll', nt, qt, M, [tl, tr], via], 'violated': conf, 'nodes': c.nodes.tolist(), 'weights': c.weights.tolist()})
        else:
            rep.unreproduced(name, bad)
    rep.sample({'case': name, 'order': p_ord, 'free': 'polynomial coefficients in the unit box'}, limit=5)


def confirm(c, tl, tr, qt, M):
    """independent exact-rational evaluation of the clauses on the real tables"""
    Ln = Fraction(tr) - Fraction(tl)
    nodes = [Fraction(float(x)) for x in c.nodes]
    s = [(x - Fraction(tl)) / Ln for x in nodes]
    bad = []
    if (nodes[0] == Fraction(tl)) != (qt in ('LOBATTO', 'RADAU-LEFT')) or (nodes[-1] == Fraction(tr)) != (qt in ('LOBATTO', 'RADAU-RIGHT')):
        bad.append('end-point-membership')
    if not all(nodes[i] < nodes[i + 1] for i in range(M - 1)):
        bad.append('nodes-not-increasing')
    w = [Fraction(float(x)) for x in c.weights]
    for k in range(int(c.order)):
        if abs(sum(w[j] * s[j] ** k for j in range(M)) - Ln / (k + 1)) > Fraction(1, 10**9) * Ln:
            bad.append('weights-exactness')
            break
    for mi in range(1, M + 1):
        for k in range(M):
            if abs(sum(Fraction(float(c.Qmat[mi, j + 1])) * s[j] ** k for j in range(M)) - Ln * s[mi - 1] ** (k + 1) / (k + 1)) > Fraction(1, 10**9) * Ln:
                if 'Q-exactness' not in bad:
                    bad.append('Q-exactness')
    if np.any(c.Qmat[0, :] != 0) or np.any(c.Qmat[:, 0] != 0):
        bad.append('zero-padding')
    scale = float(Ln)
    if not np.allclose(c.Smat[1:, 1:], np.diff(np.vstack([np.zeros(M), c.Qmat[1:, 1:]]), axis=0), atol=1e-13 * scale, rtol=0):
        bad.append('S-is-row-difference-of-Q')
    return bad


def replay(path):
    d = json.load(open(path))['replay']
    t = d['task']
    c = make_coll(t[3], t[4][0], t[4][1], t[1], t[2], t[5] if len(t) > 5 else 'direct')
    bad = confirm(c, t[4][0], t[4][1], t[2], t[3])
    print('nodes', c.nodes.tolist(), 'violated', bad)
    print('REPRODUCED' if bad else 'not reproduced')
    return 1 if bad else 0

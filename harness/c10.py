"""C10 -- coarse levels never change the fine fixed point (FAS consistency)"""
import json
import random

import numpy as np
import z3

from symx import core
from symx import pysdc as sp
from symx.core import SymReal, R, rv, frac, Ctx, prove, satisfiable, evalf, model_value
from harness import common as cm

from pySDC.core.step import Step
from pySDC.core.problem import Problem
from pySDC.core.base_transfer import BaseTransfer
from pySDC.implementations.sweeper_classes.generic_implicit import generic_implicit
from pySDC.implementations.sweeper_classes.explicit import explicit

PID = 'C10'
BOUNDS = {'quick': dict(node_pairs='(2,2) (3,2) (2,1)', node_triples='(3,2,2) (2,2,1)', sweep_counts='(1,2,1) (2,1,1) (1,1,1)', levels='2..3', sweepers='implicit explicit', prolongation='values, values+rhs'), 'thorough': dict(node_pairs='+ (3,3) (4,2) (3,1) (5,3)', levels='2..3', middle_level_sweeps='<=3', fine_sweeps='<=2', node_triples='(3,2,2) (3,2,1) (4,3,2) (2,2,2) (3,3,2)')}
F = sp.UFProb.F


def describe(rep):
    from pySDC.implementations.controller_classes.controller_nonMPI import controller_nonMPI as C
    from pySDC.core.sweeper import Sweeper

    rep.func(BaseTransfer.restrict, BaseTransfer.prolong, BaseTransfer.prolong_f, generic_implicit.update_nodes, generic_implicit.integrate,
             explicit.update_nodes, Sweeper.compute_residual, C.it_down, C.it_coarse, C.it_up, C.it_fine)
    rep.explanation = (
        '(a) fixed point for ANY right-hand side: f is an uninterpreted function '
        '(tables: those computed by the real code, restriction rows made to sum to exactly one); assumption: the fine level holds its '
        'collocation solution (with an arbitrary inherited tau on three levels). The real restrict -> coarse sweep(s) -> prolong (values or values+rhs) are '
        'executed and an SMT query (UF + NRA) shows that every fine value is unchanged. (b) for arbitrary fine values the coarse defect right after the real '
        'restrict equals R * (fine defect). (c) linear problems, tables as computed by the real code: one real down-coarse-up-fine cycle of the controller '
        'equals the multigrid-in-time iteration written with explicit matrices inside the query (unknowns defined by equations, solved by the solver); '
        'on three levels with per-level sweep counts (middle level: nsweeps[l] sweeps on the way down and on the way up).'
    )
    rep.rule = 'case = (fine nodes, coarse nodes, node families of the levels, coarse sweeper, prolongation mode, levels, clause)'
    rep.assume('right-hand side F(u, t) uninterpreted and NON-AUTONOMOUS; implicit solve stub: returns a fresh w with w - a F(w, t) = rhs, and returns the initial guess if that already solves the equation (solver contract, C12)',
               'space transfer: identity (injection) or an exact matrix pair; restriction rows of the node transfer sum to one',
               'reals for floats; (c) tolerance 1e-9 for the rounding of the float transfer tables')
    rep.out_of_scope('the real mesh transfer classes (they are C11)', 'mass-matrix transfer beyond the defect clause of its restriction', 'more than 3 levels', 'rounding')


def tasks(tier, seed):
    T = []
    quick = tier == 'quick'
    pairs = [(2, 2), (3, 2), (2, 1)] if quick else [(2, 2), (3, 2), (2, 1), (3, 3), (4, 2), (3, 1), (5, 3)]
    for Mf, Mc in pairs:
        for sw in ('implicit', 'explicit'):
            for finter in (False, True):
                if quick and finter and (Mf, Mc) != (3, 2):
                    continue
                T.append(('fixedpoint', Mf, Mc, sw, finter, 1))
            T.append(('defect', Mf, Mc, sw))
    # different quadrature types on the levels (a coarse level with the left end point as node under a fine level without)
    QT = ('RADAU-RIGHT', 'LOBATTO', 'GAUSS', 'RADAU-LEFT')
    for qts in [(a, b) for a in QT for b in QT if (a, b) != ('RADAU-RIGHT', 'RADAU-RIGHT')]:  # every pair: end points present on one level and absent on the other included
        for sw in ('implicit', 'explicit'):
            T.append(('fixedpoint', 3, 2, sw, False, 1, qts))
            if not quick:
                T.append(('fixedpoint', 3, 3, sw, True, 1, qts))
    T.append(('fixedpoint3', 2, 2, 1, 'implicit', 1))
    T.append(('fixedpoint3', 3, 2, 1, 'explicit', 1))
    T.append(('fixedpoint3', 3, 2, 2, 'implicit', 1))  # equal node counts on the pair that inherits a correction
    T.append(('fixedpoint3', 2, 2, 2, 'explicit', 1))
    if not quick:
        T.append(('fixedpoint3', 3, 2, 2, 'implicit', 2))
        T.append(('fixedpoint3', 3, 3, 3, 'implicit', 1))
        T.append(('fixedpoint3', 4, 3, 3, 'explicit', 1))
        T.append(('fixedpoint', 3, 2, 'implicit', False, 2))
    for Mf, Mc in ([(3, 2), (2, 2)] if quick else [(3, 2), (2, 2), (4, 2), (3, 1), (5, 3)]):
        T.append(('massdefect', Mf, Mc))
        for qd in ('LU', 'IE'):
            T.append(('twogrid', Mf, Mc, qd, 1))
        if not quick:
            T.append(('twogrid', Mf, Mc, 'LU', 2))
    # the same iteration with other node families on the levels (a left end node on the receiving level, none on the sending one, and so on)
    for qts in (['LOBATTO', 'RADAU-RIGHT'], ['RADAU-LEFT', 'RADAU-RIGHT'], ['LOBATTO', 'GAUSS'], ['LOBATTO', 'LOBATTO'], ['RADAU-RIGHT', 'LOBATTO'], ['GAUSS', 'RADAU-LEFT']):
        T.append(('twogrid', 3, 2, 'IE', 1, qts))
        T.append(('twogrid', 3, 3, 'IE', 2, qts))
    # three levels with per-level sweep counts (middle level sweeps on the way down and up)
    for Ms, qd, ns in ([((3, 2, 2), 'LU', (1, 2, 1)), ((3, 2, 2), 'IE', (2, 1, 1)), ((3, 2, 2), 'LU', (1, 1, 1)), ((2, 2, 1), 'LU', (1, 1, 1)), ((3, 2), 'IE', (2, 1))] if quick else
                       [(Ms_, qd_, (a, b, 1)) for Ms_ in ((3, 2, 2), (3, 2, 1), (4, 3, 2), (2, 2, 2), (3, 3, 2)) for qd_ in ('LU', 'IE', 'MIN-SR-S') for a in (1, 2) for b in (1, 2, 3)]):
        T.append(('multigrid', Ms, qd, ns))
    # four levels (two intermediate levels: each one is swept on the way down and on the way up)
    for Ms, qd, ns in ([((3, 2, 2, 1), 'LU', (1, 1, 1, 1)), ((2, 2, 2, 2), 'IE', (1, 2, 1, 1))] if quick else [((3, 2, 2, 1), 'LU', (1, 1, 1, 1)), ((2, 2, 2, 2), 'IE', (1, 2, 1, 1)), ((3, 3, 2, 2), 'LU', (1, 1, 2, 1)), ((3, 2, 2, 2, 1), 'IE', (1, 1, 1, 1, 1))]):
        T.append(('multigrid', Ms, qd, ns))
    for Ms, qd, ns in ([((3, 2), 'LU', (1, 1)), ((3, 2, 2), 'IE', (1, 1, 1))] if quick else [((3, 2), 'LU', (1, 1)), ((3, 2, 2), 'IE', (1, 1, 1)), ((4, 2), 'IE', (2, 1)), ((3, 2, 1), 'LU', (1, 2, 1)), ((5, 3), 'LU', (1, 1))]):
        T.append(('multigrid', Ms, qd, ns, True))  # prolongation of values and right-hand sides
    for Ms, qd, ns in ([((3, 2, 2), 'LU', (1, 1, 1)), ((3, 2), 'IE', (1, 1))] if quick else [((3, 2, 2), 'LU', (1, 1, 1)), ((3, 2), 'IE', (1, 1)), ((3, 2, 1), 'IE', (1, 2, 1)), ((4, 3, 2), 'LU', (1, 1, 1))]):
        T.append(('multigrid', Ms, qd, ns, False, True))  # two cycles on the same step, the start value changes in between
    T.append(('shipped_transfers',))
    return T


def run_task(rep, task):
    if task[0] == 'shipped_transfers':
        return shipped_transfer_case(rep)  # (real float classes: no shadows installed)
    sp.install_shadows()
    if task[0] == 'fixedpoint':
        fixedpoint_case(rep, task[1:3], task[3], task[4], task[5], qts=(task[6] if len(task) > 6 else None))
    elif task[0] == 'fixedpoint3':
        fixedpoint_case(rep, task[1:4], task[4], False, task[5])
    elif task[0] == 'defect':
        defect_case(rep, task[1], task[2], task[3])
    elif task[0] == 'twogrid':
        twogrid_case(rep, *task[1:])
    elif task[0] == 'massdefect':
        mass_defect_case(rep, task[1], task[2])
    elif task[0] == 'multigrid':
        multigrid_case(rep, tuple(task[1]), task[2], tuple(task[3]), bool(task[4]) if len(task) > 4 else False, bool(task[5]) if len(task) > 5 else False)


def symmat(name, shape, lower=False, pad=True, strict=False):
    A = np.empty(shape, dtype=object)
    for i in range(shape[0]):
        for j in range(shape[1]):
            zero = (pad and (i == 0 or j == 0)) or (lower and j > i) or (strict and j >= i)
            A[i, j] = SymReal(0) if zero else SymReal(z3.Real(f'{name}_{i}_{j}'))
    return A


def make_step(Ms, sw, finter, prob=sp.UFProb, pparams=None, space=sp.Inject, qd='LU', qts=None):
    swc = generic_implicit if sw == 'implicit' else explicit
    if prob is sp.UFProb and pparams is None:
        pparams = {'name': ['F', 'Fc1', 'Fc2'][: len(Ms)]}  # every coarser level has its own uninterpreted right-hand side
    d = dict(problem_class=prob, problem_params=pparams or {}, sweeper_class=swc,
             sweeper_params={'num_nodes': list(Ms), 'quad_type': (list(qts) if qts else 'RADAU-RIGHT'), **({'QI': qd} if sw == 'implicit' else {})},
             level_params={'dt': 0.5}, step_params={'maxiter': 1}, space_transfer_class=space,
             base_transfer_params={'finter': finter})
    return Step(d)


def parametric_tables(st, sw, dt):
    """keep the tables the real code computed (exact rational values of the floats); only the step size is replaced.
    The fixed-point property needs no algebraic fact about Q / QD beyond their shape, so any concrete values do."""
    cons = []
    for li, L in enumerate(st.levels):
        L.params.dt = dt
        L.status.time = SymReal(0)
    return cons


def set_transfer_tables(bt, tag, cons):
    """the node-transfer tables of the real code; the only algebraic fact the FAS argument uses is that restriction rows sum to one, which the
    float table satisfies up to rounding only: the last entry of each row is replaced by 1 - (sum of the others) in exact rationals (change ~1e-16)"""
    from fractions import Fraction

    Rm = np.array(bt.Rcoll, dtype=float)
    Mc, Mf = Rm.shape
    Rx = np.empty((Mc, Mf), dtype=object)
    for n in range(Mc):
        row = [frac(x) for x in Rm[n]]
        row[-1] = Fraction(1) - sum(row[:-1])
        for m in range(Mf):
            Rx[n, m] = row[m]
    bt.Rcoll = Rx
    bt.Pcoll = np.array([[frac(x) for x in r] for r in np.array(bt.Pcoll, dtype=float)], dtype=object)


def connect(st):
    """base transfer objects between consecutive levels (Step keeps only the last one in .base_transfer)"""
    return [TRANSFERS[(id(st.levels[l]), id(st.levels[l + 1]))] for l in range(len(st.levels) - 1)]


# every BaseTransfer object is noted when it is constructed (public constructor; avoids reading the step's private transfer dictionary)
TRANSFERS = {}
_bt_init = BaseTransfer.__init__


def _noting_init(self, fine_level, coarse_level, *a, **k):
    _bt_init(self, fine_level, coarse_level, *a, **k)
    TRANSFERS[(id(fine_level), id(coarse_level))] = self


BaseTransfer.__init__ = _noting_init


def fixedpoint_case(rep, Ms, sw, finter, nsweeps, qts=None):
    name = f'fixedpoint/M{"-".join(map(str, Ms))}/{sw}/finter{int(finter)}/ns{nsweeps}' + ('/' + '+'.join(qts) if qts else '')
    NL = len(Ms)
    c = Ctx()
    Ctx.cur = c
    try:
        st = make_step(Ms, sw, finter, qts=qts)
        dt = SymReal(frac(0.3))
        cons = parametric_tables(st, sw, dt)
        bts = connect(st)
        for i, bt in enumerate(bts):
            set_transfer_tables(bt, i, cons)
        Lf = st.levels[0]
        P = Lf.prob
        Mf = Ms[0]
        u0 = z3.Real('u0')
        Lf.u[0] = sp.mkmesh(P, [SymReal(u0)])
        Lf.f[0] = P.eval_f(Lf.u[0], 0)
        U = [z3.Real(f'U{m}') for m in range(1, Mf + 1)]
        for m in range(1, Mf + 1):
            Lf.u[m] = sp.mkmesh(P, [SymReal(U[m - 1])])
            Lf.f[m] = P.eval_f(Lf.u[m], Lf.time + Lf.dt * Lf.sweep.coll.nodes[m - 1])
        Lf.status.unlocked = True
        # the fine level holds its collocation solution
        for m in range(1, Mf + 1):
            cons.append(U[m - 1] == u0 + dt.t * sum(rv(Lf.sweep.coll.Qmat[m, j]) * F(U[j - 1], dt.t * rv(Lf.sweep.coll.nodes[j - 1])) for j in range(1, Mf + 1)))
        for a in cons:
            c.add(a)
        fold = [R(Lf.f[m][0]) for m in range(1, Mf + 1)]
        lemmas = []
        obligations = []
        # down: restrict level by level, sweeping on the middle levels; coarse sweep(s); up: prolong, sweeping on middle levels
        for l in range(NL - 1):
            st.transfer(st.levels[l], st.levels[l + 1])
            if 0 < l + 1 < NL - 1:
                for _ in range(nsweeps):
                    obligations.append((l + 1, sweep_and_collect(st.levels[l + 1])))
        for _ in range(1 if NL > 1 else 0):
            obligations.append((NL - 1, sweep_and_collect(st.levels[NL - 1])))
        axioms = []
        for L in st.levels:
            axioms += L.prob.axioms
        # prove node by node that every sweep below the fine level leaves its level unchanged (each proven equality becomes a lemma)
        A0 = list(c.assume) + list(c.pc) + axioms
        ok = True
        for (lvl, pairs) in obligations:
            for m, (new, old) in enumerate(pairs):
                res, model = prove(new == old, A0 + lemmas, timeout_ms=180000, name=f'{name}/level{lvl}/node{m + 1}:sweep-leaves-restricted-solution')
                rep.ob(f'{name}/level{lvl}/node{m + 1}:sweep-leaves-restricted-solution', res)
                if res == 'unsat':
                    lemmas.append(new == old)
                else:
                    ok = False
                    if res == 'sat':
                        fixedpoint_triage(rep, Ms, sw, finter, nsweeps, name, qts)
        for l in range(NL - 1, 0, -1):
            st.transfer(st.levels[l], st.levels[l - 1])
        goal = z3.And([R(Lf.u[m][0]) == U[m - 1] for m in range(1, Mf + 1)] + ([R(Lf.f[m][0]) == fold[m - 1] for m in range(1, Mf + 1)] if finter else []))
        res, model = prove(goal, list(c.assume) + list(c.pc) + axioms + lemmas, timeout_ms=180000, name=f'{name}:fine-values-unchanged')
        rep.ob(f'{name}:fine-values-unchanged', res)
        if res == 'sat':
            fixedpoint_triage(rep, Ms, sw, finter, nsweeps, name, qts)
        # vacuity + sensitivity
        res, _ = satisfiable(list(c.assume) + axioms, timeout_ms=60000, name=f'{name}:assumptions', kind='vacuity')
        if res != 'unknown':
            rep.vac(f'{name}:assumptions-sat', res, 'sat')
    finally:
        Ctx.cur = None
    rep.paths += 1
    rep.sample({'case': name, 'free': 'f (uninterpreted), Q, QD, R, P per level pair, dt, u0, fine node values subject to the collocation equations'}, limit=6)
    if len(Ms) == 2 and Ms == (3, 2) and not finter:
        mutated_tau(rep, Ms, sw, name)


def sweep_and_collect(L):
    M = L.sweep.coll.num_nodes
    old = [R(L.u[m][0]) for m in range(1, M + 1)]
    L.sweep.update_nodes()
    new = [R(L.u[m][0]) for m in range(1, M + 1)]
    return list(zip(new, old))


def mutated_tau(rep, Ms, sw, name):
    """sensitivity: with the FAS correction doubled the fixed point must be lost (query sat)"""
    c = Ctx()
    Ctx.cur = c
    try:
        st = make_step(Ms, sw, False)
        dt = SymReal(frac(0.3))
        cons = parametric_tables(st, sw, dt)
        bt = connect(st)[0]
        set_transfer_tables(bt, 0, cons)
        Lf, Lc = st.levels
        P = Lf.prob
        u0 = z3.Real('u0')
        Lf.u[0] = sp.mkmesh(P, [SymReal(u0)])
        Lf.f[0] = P.eval_f(Lf.u[0], 0)
        U = [z3.Real(f'U{m}') for m in range(1, Ms[0] + 1)]
        for m in range(1, Ms[0] + 1):
            Lf.u[m] = sp.mkmesh(P, [SymReal(U[m - 1])])
            Lf.f[m] = P.eval_f(Lf.u[m], Lf.time + Lf.dt * Lf.sweep.coll.nodes[m - 1])
            cons.append(U[m - 1] == u0 + dt.t * sum(rv(Lf.sweep.coll.Qmat[m, j]) * F(U[j - 1], dt.t * rv(Lf.sweep.coll.nodes[j - 1])) for j in range(1, Ms[0] + 1)))
        Lf.status.unlocked = True
        for a in cons:
            c.add(a)
        st.transfer(Lf, Lc)
        Lc.tau[0] = Lc.tau[0] * 2.0
        Lc.sweep.update_nodes()
        st.transfer(Lc, Lf)
        res, _ = prove(z3.And([R(Lf.u[m][0]) == U[m - 1] for m in range(1, Ms[0] + 1)]), list(c.assume) + list(c.pc) + Lf.prob.axioms + Lc.prob.axioms,
                       timeout_ms=60000, name=f'{name}:mutated-tau', kind='vacuity')
        if res != 'unknown':
            rep.vac(f'{name}:doubled-tau-loses-fixed-point', res, 'sat')
    finally:
        Ctx.cur = None


# ------------------------------------------------------------------------------------------------ float replay (linear + nonlinear)


def float_cycle(Ms, sw, finter, nsweeps, lam=-1.3, cubic=0.4, dt=0.3, u0=0.7, qd='LU', perturb=None, qts=None):
    """real float classes: put the collocation solution of u' = lam u + cubic u^3 on the fine level, run one down-up cycle, return max change"""
    from pySDC.core.problem import Problem
    from pySDC.implementations.datatype_classes.mesh import mesh
    from scipy.optimize import fsolve, brentq

    class NL(Problem):
        dtype_u = mesh
        dtype_f = mesh

        def __init__(self, lvl=0):
            super().__init__(init=(1, None, np.dtype('float64')))
            # coarser levels carry a different problem (as with spatial coarsening): the clauses hold for any coarse right-hand side
            self.lam, self.cubic = lam * (1 - 0.2 * lvl), cubic * (1 + 0.3 * lvl)

        def eval_f(self, u, t):
            f = self.dtype_f(self.init)
            f[:] = self.lam * np.asarray(u) + self.cubic * np.asarray(u) ** 3 + np.sin(3.0 * t)
            return f

        def solve_system(self, rhs, factor, u0_, t):
            me = self.dtype_u(self.init)
            g = lambda w: w - factor * (self.lam * w + self.cubic * w**3 + np.sin(3.0 * t)) - float(rhs[0])
            me[:] = fsolve(g, float(u0_[0]), xtol=1e-15)[0]
            return me

    st = make_step(Ms, sw, finter, prob=NL, pparams={'lvl': list(range(len(Ms)))}, space=FloatInjectT, qd=qd, qts=qts)
    for L in st.levels:
        L.params.dt = dt
        L.status.time = 0.0
    Lf = st.levels[0]
    P = Lf.prob
    Q = Lf.sweep.coll.Qmat[1:, 1:]
    Mf = Ms[0]
    tn = dt * Lf.sweep.coll.nodes
    g = lambda U: U - u0 - dt * Q @ (lam * U + cubic * U**3 + np.sin(3.0 * tn))
    Usol = fsolve(g, np.full(Mf, u0), xtol=1e-15)
    Lf.u[0] = P.dtype_u(P.init, val=u0)
    Lf.f[0] = P.eval_f(Lf.u[0], 0)
    for m in range(1, Mf + 1):
        Lf.u[m] = P.dtype_u(P.init, val=float(Usol[m - 1]))
        Lf.f[m] = P.eval_f(Lf.u[m], float(tn[m - 1]))
    Lf.status.unlocked = True
    NLv = len(Ms)
    for l in range(NLv - 1):
        st.transfer(st.levels[l], st.levels[l + 1])
        if 0 < l + 1 < NLv - 1:
            for _ in range(nsweeps):
                st.levels[l + 1].sweep.update_nodes()
    st.levels[-1].sweep.update_nodes()
    for l in range(NLv - 1, 0, -1):
        st.transfer(st.levels[l], st.levels[l - 1])
    return max(abs(float(Lf.u[m][0]) - Usol[m - 1]) for m in range(1, Mf + 1)), float(np.abs(g(Usol)).max())


from pySDC.core.space_transfer import SpaceTransfer


class FloatInjectT(SpaceTransfer):
    def restrict(self, F_):
        return type(F_)(F_)

    def prolong(self, G):
        return type(G)(G)


class FloatInjectP(FloatInjectT):
    def project(self, F_):
        return type(F_)(F_)


class FMass(Problem):
    """float twin of the mass-matrix IMEX problem (scalar)"""

    from pySDC.implementations.datatype_classes.mesh import mesh as dtype_u, imex_mesh as dtype_f

    def __init__(self, AI, AE, mass):
        super().__init__(init=(1, None, np.dtype('float64')))
        self.AI, self.AE, self.mass = float(np.asarray(AI).ravel()[0]), float(np.asarray(AE).ravel()[0]), float(np.asarray(mass).ravel()[0])
        self.fix_bc_for_residual = False

    def eval_f(self, u, t):
        f = self.dtype_f(self.init)
        f.impl[:] = self.AI * np.asarray(u)
        f.expl[:] = self.AE * np.asarray(u)
        return f

    def apply_mass_matrix(self, u):
        me = self.dtype_u(self.init)
        me[:] = self.mass * np.asarray(u)
        return me

    def solve_system(self, rhs, factor, u0, t):
        me = self.dtype_u(self.init)
        me[:] = np.asarray(rhs) / (self.mass - factor * self.AI)
        return me


def fixedpoint_triage(rep, Ms, sw, finter, nsweeps, name, qts=None):
    rep.replayed += 1
    try:
        dev, resid = float_cycle(Ms, sw, finter, nsweeps, qts=qts)
    except Exception as e:
        rep.unreproduced(name, f'{type(e).__name__}: {e}')
        return
    if dev > 1e-9:
        rep.violation(f'{PID}/fixed-point/{sw}/finter{int(finter)}', f'{name}: real float cycle on a nonlinear problem moves the fine collocation solution by {dev:.3e}',
                      {'task': ['fixedpoint', list(Ms), sw, finter, nsweeps, list(qts) if qts else None], 'deviation': dev, 'collocation_residual_of_start': resid})
    else:
        rep.unreproduced(name, {'float_cycle_deviation': dev})


# ------------------------------------------------------------------------------------------------ (b) defect transfer


def defect_case(rep, Mf, Mc, sw):
    name = f'defect/M{Mf}-{Mc}/{sw}'
    c = Ctx()
    Ctx.cur = c
    try:
        st = make_step((Mf, Mc), sw, False)
        dt = SymReal(frac(0.3))
        cons = parametric_tables(st, sw, dt)
        bt = connect(st)[0]
        set_transfer_tables(bt, 0, cons)
        Lf, Lc = st.levels
        for a in cons:
            c.add(a)
        V = cm.fill_level(Lf, True, 1)
        Lf.status.unlocked = True
        Lf.sweep.compute_residual(stage='IT_DOWN')
        rf = [R(Lf.residual[m][0]) for m in range(Mf)]
        st.transfer(Lf, Lc)
        Lc.sweep.compute_residual(stage='IT_DOWN')
        rc = [R(Lc.residual[m][0]) for m in range(Mc)]
        goal = z3.And([rc[n] == sum(rv(bt.Rcoll[n, m]) * rf[m] for m in range(Mf)) for n in range(Mc)])
        res, model = prove(goal, list(c.assume) + list(c.pc), timeout_ms=120000, name=f'{name}:coarse-defect-is-restricted-fine-defect')
        rep.ob(f'{name}:coarse-defect-is-restricted-fine-defect', res)
        if res == 'sat':
            rep.replayed += 1
            dev = float_defect(Mf, Mc, sw)
            if dev > 1e-9:
                rep.violation(f'{PID}/defect-transfer/{sw}', f'{name}: coarse defect differs from R * fine defect by {dev:.3e} on the real float classes',
                              {'task': ['defect', Mf, Mc, sw], 'deviation': dev})
            else:
                rep.unreproduced(name, {'float_deviation': dev})
        # sensitivity: without the inherited fine tau the identity must fail
        bad = z3.And([rc[n] == sum(rv(bt.Rcoll[n, m]) * (rf[m] - V['tau'][m][0]) for m in range(Mf)) for n in range(Mc)])
        res, _ = prove(bad, list(c.assume) + list(c.pc), timeout_ms=60000, name=f'{name}:mutated', kind='vacuity')
        if res != 'unknown':
            rep.vac(f'{name}:mutated-spec-refuted', res, 'sat')
    finally:
        Ctx.cur = None
    rep.paths += 1


def float_defect(Mf, Mc, sw, seed=3):
    from harness import sweepspec as ss

    rng = np.random.RandomState(seed)
    # different operators on the two levels (as with spatial coarsening): the clause holds for any coarse problem
    st = make_step((Mf, Mc), sw, False, prob=ss.FLin, pparams={'A': [np.array([[-1.7]]), np.array([[-1.1]])]}, space=FloatInjectT)
    Lf, Lc = st.levels
    for L in st.levels:
        L.status.time = 0.0
    P = Lf.prob
    for m in range(Mf + 1):
        Lf.u[m] = P.dtype_u(P.init, val=float(rng.rand()))
        Lf.f[m] = P.eval_f(Lf.u[m], 0)
    for m in range(Mf):
        Lf.tau[m] = P.dtype_u(P.init, val=float(rng.rand()))
    Lf.status.unlocked = True
    Lf.sweep.compute_residual()
    rf = np.array([float(x[0]) for x in Lf.residual])
    st.transfer(Lf, Lc)
    Lc.sweep.compute_residual()
    rc = np.array([float(x[0]) for x in Lc.residual])
    return float(np.abs(rc - st.base_transfer.Rcoll @ rf).max())


class InjectProject(sp.Inject):
    """identity in space, with the projection the mass-matrix transfer asks for"""

    def project(self, F_):
        return type(F_)(F_)


def _mass_step(Mf, Mc, symbolic, vals=None):
    """two levels with the mass-matrix sweeper / transfer; different (concrete) operators and mass on the two levels; data symbolic or floats"""
    from pySDC.implementations.sweeper_classes.imex_1st_order_mass import imex_1st_order_mass
    from pySDC.implementations.transfer_classes.BaseTransfer_mass import base_transfer_mass
    from harness import sweepspec as ss

    prob = sp.MassImexProb if symbolic else FMass
    d = dict(problem_class=prob, problem_params={'AI': [np.array([[-1.7]]), np.array([[-1.1]])], 'AE': [np.array([[0.4]]), np.array([[0.3]])], 'mass': [[1.5], [1.25]]},
             sweeper_class=imex_1st_order_mass, sweeper_params={'num_nodes': [Mf, Mc], 'quad_type': 'RADAU-RIGHT', 'QI': 'LU', 'QE': 'EE'},
             level_params={'dt': 0.5}, step_params={'maxiter': 1}, space_transfer_class=InjectProject if symbolic else FloatInjectP,
             base_transfer_class=base_transfer_mass)
    st = Step(d)
    Lf, Lc = st.levels
    for L in st.levels:
        L.status.time = 0.0
    P = Lf.prob
    V = {}
    for m in range(Mf + 1):
        nm = f'u{m}'
        if symbolic:
            V[nm] = z3.Real(nm)
            Lf.u[m] = sp.mkmesh(P, [SymReal(V[nm])])
        else:
            Lf.u[m] = P.dtype_u(P.init, val=float(vals[nm]))
        Lf.f[m] = P.eval_f(Lf.u[m], 0.0)
    Lf.status.unlocked = True
    return st, V


def _mass_defects(st, conv):
    """fine defect before, coarse defect after the real restriction (computed from the level data with the real integrate / apply_mass_matrix)"""
    Lf, Lc = st.levels
    Mf, Mc = Lf.sweep.coll.num_nodes, Lc.sweep.coll.num_nodes
    intf = Lf.sweep.integrate()
    rf = [conv((intf[m] + Lf.prob.apply_mass_matrix(Lf.u[0] - Lf.u[m + 1]))[0]) for m in range(Mf)]
    st.transfer(Lf, Lc)
    intc = Lc.sweep.integrate()
    rc = [conv((intc[m] + Lc.u[0] - Lc.prob.apply_mass_matrix(Lc.u[m + 1]) + Lc.tau[m])[0]) for m in range(Mc)]
    return rf, rc, np.array(st.base_transfer.Rcoll, dtype=float)


def mass_defect_case(rep, Mf, Mc):
    """mass-matrix transfer (base_transfer_mass with the mass-matrix IMEX sweeper): right after the real restriction the coarse defect
    dt Q_c F_c + R(M_f u0) - M_c U_c + tau equals the restricted fine defect, for arbitrary fine values (different operators and mass on the two levels)"""
    from pySDC.implementations.transfer_classes.BaseTransfer_mass import base_transfer_mass

    rep.func(base_transfer_mass.restrict)
    name = f'massdefect/M{Mf}-{Mc}'
    c = Ctx()
    Ctx.cur = c
    try:
        st, V = _mass_step(Mf, Mc, True)
        rf, rc, Rm = _mass_defects(st, R)
    finally:
        Ctx.cur = None
    rep.paths += 1
    tol = rv(1e-11)
    goal = z3.And([z3.And(rc[n] - sum(rv(Rm[n, m]) * rf[m] for m in range(Mf)) <= tol, sum(rv(Rm[n, m]) * rf[m] for m in range(Mf)) - rc[n] <= tol) for n in range(Mc)])
    res, model = prove(goal, [z3.And(v >= -1, v <= 1) for v in V.values()], timeout_ms=120000, name=f'{name}:coarse-defect-is-restricted-fine-defect')
    rep.ob(f'{name}:coarse-defect-is-restricted-fine-defect', res)
    if res == 'sat':
        rep.replayed += 1
        vals = {k: float(model_value(model, v)) for k, v in V.items()}
        dev = float_mass_defect(Mf, Mc, vals)
        if dev > 1e-10:
            rep.violation(f'{PID}/defect-transfer/mass', f'{name}: coarse defect differs from R * fine defect by {dev:.3e} on the real float classes (mass-matrix transfer)',
                          {'task': ['massdefect', Mf, Mc], 'vals': vals, 'deviation': dev})
        else:
            rep.unreproduced(name, {'float_deviation': dev})
    # sensitivity: without the mass matrix on the coarse values the identity must fail
    c2 = Ctx()
    Ctx.cur = c2
    try:
        st2, V2 = _mass_step(Mf, Mc, True)
        Lf2, Lc2 = st2.levels
        intf = Lf2.sweep.integrate()
        rf2 = [R((intf[m] + Lf2.prob.apply_mass_matrix(Lf2.u[0] - Lf2.u[m + 1]))[0]) for m in range(Mf)]
        st2.transfer(Lf2, Lc2)
        intc = Lc2.sweep.integrate()
        rc2 = [R((intc[m] + Lc2.u[0] - Lc2.u[m + 1] + Lc2.tau[m])[0]) for m in range(Mc)]
    finally:
        Ctx.cur = None
    bad = z3.And([z3.And(rc2[n] - sum(rv(Rm[n, m]) * rf2[m] for m in range(Mf)) <= tol, sum(rv(Rm[n, m]) * rf2[m] for m in range(Mf)) - rc2[n] <= tol) for n in range(Mc)])
    res2, _ = prove(bad, [z3.And(v >= -1, v <= 1) for v in V2.values()], timeout_ms=60000, name=f'{name}:mutated', kind='vacuity')
    rep.vac(f'{name}:defect-without-coarse-mass-refuted', res2, 'sat')
    rep.sample({'case': name, 'free_variables': 'start value and all fine node values in [-1,1]', 'levels': 'AI -1.7 / -1.1, AE 0.4 / 0.3, mass 1.5 / 1.25'}, limit=3)


def float_mass_defect(Mf, Mc, vals):
    st, _ = _mass_step(Mf, Mc, False, vals)
    rf, rc, Rm = _mass_defects(st, float)
    return float(np.abs(np.array(rc) - Rm @ np.array(rf)).max())


# ------------------------------------------------------------------------------------------------ (c) linear two-grid cycle through the controller


def twogrid_case(rep, Mf, Mc, qd, nsweeps_fine, qts=None):
    from pySDC.implementations.controller_classes.controller_nonMPI import controller_nonMPI

    name = f'twogrid/M{Mf}-{Mc}/{qd}/ns{nsweeps_fine}' + (f'/{"-".join(qts)}' if qts else '')
    lam = -1.25
    dtf = 0.25
    d = dict(problem_class=sp.LinProb, problem_params={'A': np.array([[lam]])}, sweeper_class=generic_implicit,
             sweeper_params={'num_nodes': [Mf, Mc], 'quad_type': (list(qts) if qts else 'RADAU-RIGHT'), 'QI': qd}, level_params={'dt': dtf, 'restol': -1, 'nsweeps': [nsweeps_fine, 1]},
             step_params={'maxiter': 3}, space_transfer_class=sp.Inject)
    c = Ctx()
    Ctx.cur = c
    try:
        ctl = controller_nonMPI(1, {'logger_level': 50, 'dump_setup': False}, d)
        S_ = ctl.MS[0]
        P = S_.levels[0].prob
        u0v = z3.Real('u0')
        ctl.restart_block([0], [0.0], sp.mkmesh(P, [SymReal(u0v)]))
        Lf, Lc = S_.levels
        Lf.f[0] = P.eval_f(Lf.u[0], 0.0)
        Uv = [z3.Real(f'U{m}') for m in range(1, Mf + 1)]
        for m in range(1, Mf + 1):
            Lf.u[m] = sp.mkmesh(P, [SymReal(Uv[m - 1])])
            Lf.f[m] = P.eval_f(Lf.u[m], 0.0)
        Lf.status.unlocked = True
        S_.status.iter = 1
        S_.status.stage = 'IT_DOWN'
        ctl.it_down([S_])
        ctl.it_coarse([S_])
        ctl.it_up([S_])
        ctl.it_fine([S_])
        out = [R(Lf.u[m][0]) for m in range(1, Mf + 1)]
        bt = S_.base_transfer
        Qf, Qc = np.array(Lf.sweep.coll.Qmat), np.array(Lc.sweep.coll.Qmat)
        QDf, QDc = np.array(Lf.sweep.QI), np.array(Lc.sweep.QI)
        Rm, Pm = np.array(bt.Rcoll, dtype=float), np.array(bt.Pcoll, dtype=float)
    finally:
        Ctx.cur = None
    rep.paths += 1
    # multigrid-in-time iteration with explicit matrices; intermediate vectors are defined by equations and solved by the solver
    z = rv(frac(lam) * frac(dtf))
    defs = []
    Uc = [sum(rv(Rm[n, m]) * Uv[m] for m in range(Mf)) for n in range(Mc)]
    QfU = [sum(rv(Qf[m + 1, j + 1]) * Uv[j] for j in range(Mf)) for m in range(Mf)]
    tau = [z * sum(rv(Rm[n, m]) * QfU[m] for m in range(Mf)) - z * sum(rv(Qc[n + 1, j + 1]) * Uc[j] for j in range(Mc)) for n in range(Mc)]
    Wc = [z3.Real(f'Wc{n}') for n in range(Mc)]
    for n in range(Mc):
        defs.append(Wc[n] - z * sum(rv(QDc[n + 1, j + 1]) * Wc[j] for j in range(Mc)) ==
                    u0v + z * sum((rv(Qc[n + 1, j + 1]) - rv(QDc[n + 1, j + 1])) * Uc[j] for j in range(Mc)) + tau[n])
    Up = [Uv[m] + sum(rv(Pm[m, n]) * (Wc[n] - Uc[n]) for n in range(Mc)) for m in range(Mf)]
    cur = Up
    for s in range(nsweeps_fine):
        Wf = [z3.Real(f'Wf{s}_{m}') for m in range(Mf)]
        for m in range(Mf):
            defs.append(Wf[m] - z * sum(rv(QDf[m + 1, j + 1]) * Wf[j] for j in range(Mf)) ==
                        u0v + z * sum((rv(Qf[m + 1, j + 1]) - rv(QDf[m + 1, j + 1])) * cur[j] for j in range(Mf)))
        cur = Wf
    box = [z3.And(v >= -1, v <= 1) for v in Uv + [u0v]]
    tol = rv(1e-9)
    goal = z3.And([z3.And(out[m] - cur[m] <= tol, cur[m] - out[m] <= tol) for m in range(Mf)])
    res, model = prove(goal, defs + box, timeout_ms=120000, name=f'{name}:controller-cycle-equals-multigrid-iteration')
    rep.ob(f'{name}:controller-cycle-equals-multigrid-iteration', res)
    if res == 'sat':
        rep.replayed += 1
        env = {str(v): float(model_value(model, v)) for v in Uv + [u0v]}
        dev = float_twogrid(Mf, Mc, qd, nsweeps_fine, lam, dtf, env, qts)
        if dev > 1e-9:
            rep.violation(f'{PID}/two-grid-iteration/{qd}', f'{name}: real controller cycle deviates from the multigrid-in-time iteration by {dev:.3e}',
                          {'task': ['twogrid', Mf, Mc, qd, nsweeps_fine, qts], 'env': env, 'deviation': dev})
        else:
            rep.unreproduced(name, {'env': env, 'float_deviation': dev})
    # sensitivity: wrong sign of tau in the specification
    defs2 = list(defs)
    for n in range(Mc):
        defs2[n] = (Wc[n] - z * sum(rv(QDc[n + 1, j + 1]) * Wc[j] for j in range(Mc)) ==
                    u0v + z * sum((rv(Qc[n + 1, j + 1]) - rv(QDc[n + 1, j + 1])) * Uc[j] for j in range(Mc)) - tau[n])
    # (with a single coarse node the prolongation is a constant shift, which the IE fine sweep annihilates: (Q - QD) 1 = 0 -- no witness possible there)
    if Mf != Mc and Mc >= 2 and not qts:  # (other node families: for some pairs the fine IE sweep annihilates the prolonged correction as well -- the witness is kept for the default family)
        res, _ = prove(goal, defs2 + box, timeout_ms=60000, name=f'{name}:mutated', kind='vacuity')
        rep.vac(f'{name}:wrong-tau-sign-refuted', res, 'sat')
    rep.sample({'case': name, 'free_variables': 'u0 and all fine node values in [-1,1]', 'tolerance': 1e-9}, limit=6)


def float_twogrid(Mf, Mc, qd, nsf, lam, dtf, env, qts=None):
    from pySDC.implementations.controller_classes.controller_nonMPI import controller_nonMPI
    from harness import sweepspec as ss

    d = dict(problem_class=ss.FLin, problem_params={'A': np.array([[lam]])}, sweeper_class=generic_implicit,
             sweeper_params={'num_nodes': [Mf, Mc], 'quad_type': (list(qts) if qts else 'RADAU-RIGHT'), 'QI': qd}, level_params={'dt': dtf, 'restol': -1, 'nsweeps': [nsf, 1]},
             step_params={'maxiter': 3}, space_transfer_class=FloatInjectT)
    ctl = controller_nonMPI(1, {'logger_level': 50, 'dump_setup': False}, d)
    S_ = ctl.MS[0]
    P = S_.levels[0].prob
    ctl.restart_block([0], [0.0], P.dtype_u(P.init, val=env['u0']))
    Lf, Lc = S_.levels
    Lf.f[0] = P.eval_f(Lf.u[0], 0.0)
    U = np.array([env[f'U{m}'] for m in range(1, Mf + 1)])
    for m in range(1, Mf + 1):
        Lf.u[m] = P.dtype_u(P.init, val=float(U[m - 1]))
        Lf.f[m] = P.eval_f(Lf.u[m], 0.0)
    Lf.status.unlocked = True
    S_.status.iter = 1
    ctl.it_down([S_])
    ctl.it_coarse([S_])
    ctl.it_up([S_])
    ctl.it_fine([S_])
    got = np.array([float(Lf.u[m][0]) for m in range(1, Mf + 1)])
    bt = S_.base_transfer
    Qf, Qc, QDf, QDc = Lf.sweep.coll.Qmat[1:, 1:], Lc.sweep.coll.Qmat[1:, 1:], Lf.sweep.QI[1:, 1:], Lc.sweep.QI[1:, 1:]
    z = lam * dtf
    Uc = bt.Rcoll @ U
    tau = z * bt.Rcoll @ (Qf @ U) - z * Qc @ Uc
    Wc = np.linalg.solve(np.eye(Mc) - z * QDc, env['u0'] + z * (Qc - QDc) @ Uc + tau)
    cur = U + bt.Pcoll @ (Wc - Uc)
    for _ in range(nsf):
        cur = np.linalg.solve(np.eye(Mf) - z * QDf, env['u0'] + z * (Qf - QDf) @ cur)
    return float(np.abs(got - cur).max())


def _mg_run(d, Ms, setv, symbolic, second=False):
    """one down-coarse-up-fine cycle of the REAL controller stage functions on a description; returns fine node values and the tables used"""
    from pySDC.implementations.controller_classes.controller_nonMPI import controller_nonMPI

    ctl = controller_nonMPI(1, {'logger_level': 50, 'dump_setup': False}, d)
    S_ = ctl.MS[0]
    P = S_.levels[0].prob
    ctl.restart_block([0], [0.0], setv('u0', P))
    Lf = S_.levels[0]
    Lf.f[0] = P.eval_f(Lf.u[0], 0.0)
    for m in range(1, Ms[0] + 1):
        Lf.u[m] = setv(f'U{m}', P)
        Lf.f[m] = P.eval_f(Lf.u[m], 0.0)
    Lf.status.unlocked = True
    S_.status.iter = 1
    S_.status.stage = 'IT_DOWN'
    ctl.it_down([S_])
    ctl.it_coarse([S_])
    ctl.it_up([S_])
    ctl.it_fine([S_])
    if second:
        # a second cycle on the same step after its start value has changed (what a receive from the previous step does), no reset in between
        Lf.u[0] = setv('u0b', P)
        Lf.f[0] = P.eval_f(Lf.u[0], 0.0)
        S_.status.iter = 2
        ctl.it_down([S_])
        ctl.it_coarse([S_])
        ctl.it_up([S_])
        ctl.it_fine([S_])
    out = [Lf.u[m][0] for m in range(1, Ms[0] + 1)]
    tabs = dict(Q=[np.array(L.sweep.coll.Qmat, dtype=float)[1:, 1:] for L in S_.levels], QD=[np.array(L.sweep.QI, dtype=float)[1:, 1:] for L in S_.levels],
                R=[np.array(bt.Rcoll, dtype=float) for bt in connect(S_)],
                P=[np.array(bt.Pcoll, dtype=float) for bt in connect(S_)])
    return out, tabs


def mg_desc(Ms, qd, ns, lam, dtf, prob, space, finter=False):
    return dict(base_transfer_params={'finter': finter}, problem_class=prob, problem_params={'A': np.array([[lam]])}, sweeper_class=generic_implicit,
                sweeper_params={'num_nodes': list(Ms), 'quad_type': 'RADAU-RIGHT', 'QI': qd}, level_params={'dt': dtf, 'restol': -1, 'nsweeps': list(ns)},
                step_params={'maxiter': 3}, space_transfer_class=space)


def mg_spec(tabs, Ms, ns, z, u0, U, lin, solve):
    """the multigrid-in-time cycle the configuration describes, written with the tables only: restriction with FAS correction (inherited on lower
    levels), ns[l] sweeps on every middle level on the way down AND on the way up, one coarse sweep, prolongation of the coarse correction,
    ns[0] fine sweeps.  `lin(matrix, vector)` and `solve(level, rhs)` abstract over floats / solver terms."""
    NL = len(Ms)
    Q, QD, Rm, Pm = tabs['Q'], tabs['QD'], tabs['R'], tabs['P']
    cur = {0: list(U)}
    tau = {0: [0] * Ms[0]}
    old = {}

    def sweep(l, v):
        QmQD = Q[l] - QD[l]
        rhs = [u0 + z * lin(QmQD[m], v) + tau[l][m] for m in range(Ms[l])]
        return solve(l, rhs)

    for l in range(NL - 1):
        Ur = [lin(Rm[l][n], cur[l]) for n in range(Ms[l + 1])]
        QU = [lin(Q[l][m], cur[l]) for m in range(Ms[l])]
        tau[l + 1] = [z * lin(Rm[l][n], QU) - z * lin(Q[l + 1][n], Ur) + lin(Rm[l][n], tau[l]) for n in range(Ms[l + 1])]
        old[l + 1] = Ur
        cur[l + 1] = Ur
        if l + 1 < NL - 1:
            for _ in range(ns[l + 1]):
                cur[l + 1] = sweep(l + 1, cur[l + 1])
    cur[NL - 1] = sweep(NL - 1, cur[NL - 1])
    for l in range(NL - 1, 0, -1):
        diff = [a - b for a, b in zip(cur[l], old[l])]
        cur[l - 1] = [cur[l - 1][m] + lin(Pm[l - 1][m], diff) for m in range(Ms[l - 1])]
        if l - 1 > 0:
            for _ in range(ns[l - 1]):
                cur[l - 1] = sweep(l - 1, cur[l - 1])
    for _ in range(ns[0]):
        cur[0] = sweep(0, cur[0])
    return cur[0]


def multigrid_case(rep, Ms, qd, ns, finter=False, second=False):
    """three (or two) levels with per-level sweep counts: the real controller cycle against the multigrid-in-time iteration (all fine iterates)"""
    # (finter: the fine right-hand sides are corrected by the prolonged coarse change instead of being re-evaluated; for a linear problem both
    # give the same values, so the specification is the same)
    name = f'multigrid/M{"-".join(map(str, Ms))}/{qd}/ns{"-".join(map(str, ns))}' + ('/finter' if finter else '') + ('/two-cycles' if second else '')
    lam, dtf = -1.25, 0.25
    c = Ctx()
    Ctx.cur = c
    try:
        u0v = z3.Real('u0')
        Uv = [z3.Real(f'U{m}') for m in range(1, Ms[0] + 1)]
        u0b = z3.Real('u0b')
        sym = {'u0': u0v, 'u0b': u0b, **{f'U{m}': Uv[m - 1] for m in range(1, Ms[0] + 1)}}
        out, tabs = _mg_run(mg_desc(Ms, qd, ns, lam, dtf, sp.LinProb, sp.Inject, finter), Ms, lambda k, P: sp.mkmesh(P, [SymReal(sym[k])]), True, second)
        out = [R(o) for o in out]
    finally:
        Ctx.cur = None
    rep.paths += 1
    z = rv(frac(lam) * frac(dtf))
    defs = []
    cnt = [0]

    def lin(row, vec):
        return sum(rv(row[j]) * vec[j] for j in range(len(vec)) if row[j] != 0) if any(row[j] != 0 for j in range(len(vec))) else rv(0)

    def solve(l, rhs):
        cnt[0] += 1
        W = [z3.Real(f'W{cnt[0]}_{m}') for m in range(len(rhs))]
        for m in range(len(rhs)):
            defs.append(W[m] - z * lin(tabs['QD'][l][m], W) == rhs[m])
        return W

    spec = mg_spec(tabs, Ms, ns, z, u0v, Uv, lin, solve)
    if second:
        spec = mg_spec(tabs, Ms, ns, z, u0b, spec, lin, solve)
    box = [z3.And(v >= -1, v <= 1) for v in Uv + [u0v] + ([u0b] if second else [])]
    tol = rv(1e-11)  # the specification uses the same tables; only Q - QD is rounded once more (1e-17)
    goal = z3.And([z3.And(out[m] - spec[m] <= tol, spec[m] - out[m] <= tol) for m in range(Ms[0])])
    res, model = prove(goal, defs + box, timeout_ms=120000, name=f'{name}:controller-cycle-equals-multigrid-iteration')
    rep.ob(f'{name}:controller-cycle-equals-multigrid-iteration', res)
    if res == 'sat':
        rep.replayed += 1
        env = {str(v): float(model_value(model, v)) for v in Uv + [u0v] + ([u0b] if second else [])}
        dev = float_multigrid(Ms, qd, ns, lam, dtf, env, finter, second)
        if dev > 1e-11:
            rep.violation(f'{PID}/multigrid-iteration/{qd}', f'{name}: real controller cycle deviates from the multigrid-in-time iteration with the configured sweep counts by {dev:.3e}',
                          {'task': ['multigrid', list(Ms), qd, list(ns), finter, second], 'env': env, 'deviation': dev})
        else:
            rep.unreproduced(name, {'env': env, 'float_deviation': dev})
    # sensitivity: a specification with one sweep more on the middle level on the way up must be refuted
    if len(Ms) == 3 and Ms[1] >= 2 and Ms[2] >= 2 and ns[0] == 1 and ns[1] == 1:  # (further sweeps shrink the difference below the tolerance)
        cnt[0] = 1000
        defs_keep = list(defs)
        ns_bad = (ns[0], ns[1] + 1, ns[2])
        # (the down-sweeps change too; any difference is a witness that the query sees the sweep counts)
        spec2 = mg_spec(tabs, Ms, ns_bad, z, u0v, Uv, lin, solve)
        goal2 = z3.And([z3.And(out[m] - spec2[m] <= tol, spec2[m] - out[m] <= tol) for m in range(Ms[0])])
        res2, _ = prove(goal2, defs + box, timeout_ms=60000, name=f'{name}:mutated', kind='vacuity')
        rep.vac(f'{name}:other-sweep-count-refuted', res2, 'sat')
    rep.sample({'case': name, 'free_variables': 'u0 and all fine node values in [-1,1]', 'tolerance': 1e-11}, limit=6)


def float_multigrid(Ms, qd, ns, lam, dtf, env, finter=False, second=False):
    from harness import sweepspec as ss

    out, tabs = _mg_run(mg_desc(Ms, qd, ns, lam, dtf, ss.FLin, FloatInjectT, finter), Ms, lambda k, P: P.dtype_u(P.init, val=float(env[k])), False, second)
    got = np.array([float(o) for o in out])
    z = lam * dtf
    lin = lambda row, vec: float(np.dot(np.asarray(row, dtype=float)[: len(vec)], np.asarray(vec, dtype=float)))
    solve = lambda l, rhs: list(np.linalg.solve(np.eye(len(rhs)) - z * tabs['QD'][l], np.asarray(rhs, dtype=float)))
    spec = mg_spec(tabs, Ms, ns, z, env['u0'], [env[f'U{m}'] for m in range(1, Ms[0] + 1)], lin, solve)
    if second:
        spec = mg_spec(tabs, Ms, ns, z, env['u0b'], spec, lin, solve)
    return float(np.abs(got - np.asarray(spec, dtype=float)).max())


def shipped_transfer_case(rep):
    """the multilevel iteration with the SHIPPED space transfer classes on shipped problems (real floats, ENUMERATED): the iterates must not depend on the
    object identity of what restrict / prolong return.  Each configuration is run twice -- with the class as shipped and with a subclass that hands
    out a fresh copy of every result -- and all fine node values, right-hand sides and the end value must agree bit for bit (results that alias
    a work array change the iteration, e.g. the right-hand-side prolongation, which collects the results for all nodes before combining them)"""
    from pySDC.implementations.controller_classes.controller_nonMPI import controller_nonMPI
    from pySDC.implementations.problem_classes.AdvectionDiffusionEquation_1D_FFT import advectiondiffusion1d_imex, advectiondiffusion1d_implicit
    from pySDC.implementations.problem_classes.HeatEquation_ND_FD import heatNd_unforced
    from pySDC.implementations.sweeper_classes.imex_1st_order import imex_1st_order
    from pySDC.implementations.sweeper_classes.generic_implicit import generic_implicit
    from pySDC.implementations.transfer_classes.TransferMesh import mesh_to_mesh
    from pySDC.implementations.transfer_classes.TransferMesh_FFT import mesh_to_mesh_fft
    from pySDC.implementations.transfer_classes.TransferMesh_NoCoarse import mesh_to_mesh as no_coarse

    def copying(T):
        class Copying(T):
            def restrict(self, F):
                r = super().restrict(F)
                return type(r)(r)

            def prolong(self, G):
                r = super().prolong(G)
                return type(r)(r)

        return Copying

    cfgs = [('fft/imex', advectiondiffusion1d_imex, {'nvars': [16, 8], 'c': 0.5, 'freq': 2, 'nu': 0.05}, imex_1st_order, mesh_to_mesh_fft, {}),
            ('fft/implicit', advectiondiffusion1d_implicit, {'nvars': [16, 8], 'c': 0.5, 'freq': 2, 'nu': 0.05}, generic_implicit, mesh_to_mesh_fft, {}),
            ('fd/heat', heatNd_unforced, {'nvars': [15, 7], 'nu': 0.1, 'freq': 2, 'bc': 'dirichlet-zero'}, generic_implicit, mesh_to_mesh, {'rorder': 2, 'iorder': 4}),
            ('nocoarse/imex', advectiondiffusion1d_imex, {'nvars': 16, 'c': 0.5, 'freq': 2, 'nu': 0.05}, imex_1st_order, no_coarse, {})]
    for name, pc, pp, sw, T, tp in cfgs:
        for finter in (False, True):
            for NL in (2, 3):
                if NL == 3 and isinstance(pp['nvars'], list):
                    pp3 = dict(pp, nvars=pp['nvars'] + [pp['nvars'][-1]])
                else:
                    pp3 = pp
                res = []
                try:
                    for cls in (T, copying(T)):
                        d = dict(problem_class=pc, problem_params=dict(pp3 if NL == 3 else pp), sweeper_class=sw, sweeper_params={'num_nodes': [3, 2, 2][:NL], 'quad_type': 'RADAU-RIGHT'},
                                 level_params={'dt': 0.05, 'restol': -1.0}, step_params={'maxiter': 2}, space_transfer_class=cls, space_transfer_params=dict(tp), base_transfer_params={'finter': finter})
                        ctl = controller_nonMPI(1, {'logger_level': 50, 'dump_setup': False}, d)
                        P = ctl.MS[0].levels[0].prob
                        uend, _ = ctl.run(P.u_exact(0.0), 0.0, 0.05)
                        L = ctl.MS[0].levels[0]
                        res.append([np.array(uend).tobytes()] + [np.array(x).tobytes() for x in L.u[1:]] + [np.array(x).tobytes() for x in L.f[1:]])
                    rep.translator += 1
                    rep.side(f'shipped-transfer/{name}/finter{int(finter)}/NL{NL}:iteration-independent-of-result-identity', res[0] == res[1],
                             {'differing_entries': [i for i, (a, b) in enumerate(zip(res[0], res[1])) if a != b]})
                except Exception as e:
                    rep.side(f'shipped-transfer/{name}/finter{int(finter)}/NL{NL}:runs', False, f'{type(e).__name__}: {e}')


def replay(path):
    d = json.load(open(path))['replay']
    t = d['task']
    if t[0] == 'fixedpoint':
        dev, _ = float_cycle(tuple(t[1]), t[2], t[3], t[4], qts=(t[5] if len(t) > 5 else None))
    elif t[0] == 'defect':
        dev = float_defect(t[1], t[2], t[3])
    elif t[0] == 'massdefect':
        dev = float_mass_defect(t[1], t[2], d['vals'])
        print('deviation', dev)
        print('REPRODUCED' if dev > 1e-10 else 'not reproduced')
        return 1 if dev > 1e-10 else 0
    elif t[0] == 'multigrid':
        dev = float_multigrid(tuple(t[1]), t[2], tuple(t[3]), -1.25, 0.25, d['env'], bool(t[4]) if len(t) > 4 else False, bool(t[5]) if len(t) > 5 else False)
        print('deviation', dev)
        print('REPRODUCED' if dev > 1e-11 else 'not reproduced')
        return 1 if dev > 1e-11 else 0
    else:
        dev = float_twogrid(t[1], t[2], t[3], t[4], -1.25, 0.25, d['env'], t[5] if len(t) > 5 else None)
    print('deviation', dev)
    print('REPRODUCED' if dev > 1e-9 else 'not reproduced')
    return 1 if dev > 1e-9 else 0

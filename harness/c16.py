"""C16 -- field files round-trip bit-exactly and survive interrupted appends.

The real FieldsIO code (initialize, addField, nFields, formatIndex, time, times, readField, fromFile) runs against a SYMBOLIC file:
length and offsets are z3 integers, content is a list of extents with provenance.  open / os.path / np.fromfile / tofile / int
are shadowed in the fieldsIO module namespace only."""
import builtins
import json
import os
import tempfile

import numpy as np
import z3

from symx import core
from symx.core import SymInt, SymBool, I, Ctx, explore, prove, satisfiable, coverage_certificate, model_value
from harness import common as cm

import pySDC.helpers.fieldsIO as fio

PID = 'C16'
BOUNDS = {'quick': dict(nVar='>=1 symbolic', records='k>=0 symbolic', crash_offset='every byte (symbolic)', times_k='0..3', block_ranks='<=64', nProcs='<=32 (2-D), <=16 (3-D)'), 'thorough': dict(times_k='0..6', crosshair_timeout='240 s')}
ORIG = {k: getattr(fio, k, None) for k in ('open', 'np', 'os', 'int', 'float')}


# ------------------------------------------------------------------------------------------------ symbolic file system


class SymFile:
    def __init__(self):
        self.length = SymInt(0)
        self.events = []  # ('w', start, nbytes, tag, value) | ('trunc', at)


class FSys:
    def __init__(self):
        self.files = {}


FS = [None]
READS = []


class Handle:
    def __init__(self, f, mode):
        self.f = f
        self.mode = mode
        self.pos = f.length if 'a' in mode else SymInt(0)

    def __enter__(self):
        return self

    def __exit__(self, *a):
        return False

    def seek(self, off, whence=0):
        off = off if isinstance(off, SymInt) else SymInt(off)
        if whence == 0:
            self.pos = off
        elif whence == 1:
            self.pos = self.pos + off
        else:
            self.pos = self.f.length + off
        if self.pos < 0:  # (as the real file object: a negative absolute position is refused, the position stays where it was -- modelled as: raises)
            raise OSError(22, 'Invalid argument')

    def tell(self):
        return self.pos

    def truncate(self, size=None):
        at = self.pos if size is None else (size if isinstance(size, SymInt) else SymInt(size))
        self.f.events.append(('trunc', I(at)))
        self.f.length = at

    def write_sym(self, nbytes, tag, value=None):
        if 'a' in self.mode:
            self.pos = self.f.length
        nb = nbytes if isinstance(nbytes, SymInt) else SymInt(nbytes)
        self.f.events.append(('w', I(self.pos), I(nb), tag, value))
        end = self.pos + nb
        # file grows if the write ends beyond the current length
        self.f.length = SymInt(z3.If(I(end) >= I(self.f.length), I(end), I(self.f.length)))
        self.pos = end

    def write(self, data):
        for a in data.parts:
            self.write_sym(a.nbytes, a.tag, a.values)

    def read_sym(self, nbytes, dtype):
        nb = nbytes if isinstance(nbytes, SymInt) else SymInt(nbytes)
        r = {'pos': I(self.pos), 'n': I(nb), 'dtype': str(np.dtype(dtype))}
        self.pos = self.pos + nb
        READS.append(r)
        return r


def sym_open(name, mode='r'):
    if 'w' in mode:
        FS[0].files[name] = SymFile()
    if name not in FS[0].files:
        raise FileNotFoundError(name)
    return Handle(FS[0].files[name], mode)


class SymArr:
    """stand-in for the numpy arrays fieldsIO writes: knows its byte size and carries its values / a tag"""

    def __init__(self, items, dtype, tag, values=None):
        self.items = items
        self.dtype = np.dtype(dtype).type
        self.itemsize = np.dtype(dtype).itemsize
        self.tag = tag
        self.values = values

    @property
    def size(self):
        return self.items

    @property
    def nbytes(self):
        return self.items * self.itemsize

    @property
    def shape(self):
        return (self.items,)

    def tofile(self, f):
        f.write_sym(self.nbytes, self.tag, self.values)

    def tobytes(self, order='C'):
        return SymBytes([self])


class SymBytes:
    """bytes of one or more SymArr (so that code writing through f.write(a.tobytes() + b.tobytes()) is modelled too)"""

    def __init__(self, parts):
        self.parts = parts

    def __add__(self, o):
        return SymBytes(self.parts + o.parts)


class ReadBack(list):
    """result of np.fromfile on the symbolic file"""


class NPShadow:
    def __getattr__(self, k):
        return getattr(np, k)

    def array(self, x, dtype=None):
        if isinstance(x, SymArr):
            return x
        if isinstance(x, (list, tuple)):
            return SymArr(len(x), dtype, ('hdr', str(np.dtype(dtype))), list(x))
        return SymArr(1, dtype, ('scalar', str(np.dtype(dtype))), [x])

    def asarray(self, x, dtype=None):
        return x if isinstance(x, SymArr) else np.asarray(x, dtype=dtype)

    def fromfile(self, f, dtype=None, count=-1, offset=0):
        it = np.dtype(dtype).itemsize
        if not (isinstance(offset, int) and offset == 0):
            f.seek(f.pos + offset)
        start = f.pos
        r = f.read_sym(count * it, dtype)
        # header values are looked up by exact (concrete) position among the concrete-offset writes
        vals = None
        for ev in f.f.events:
            if ev[0] == 'w' and z3.is_int_value(z3.simplify(ev[1])) and z3.is_int_value(z3.simplify(I(start))):
                if z3.simplify(ev[1]).as_long() == z3.simplify(I(start)).as_long() and ev[4] is not None:
                    vals = ev[4]
        out = ReadBack(vals if vals is not None else [r] * (count if isinstance(count, int) and count > 0 else 1))
        return out


class OSShadow:
    class path:
        @staticmethod
        def isfile(n):
            return n in FS[0].files

        @staticmethod
        def getsize(n):
            return FS[0].files[n].length


def install():
    fio.open = sym_open
    fio.np = NPShadow()
    fio.os = OSShadow
    fio.int = lambda x: x if isinstance(x, SymInt) else builtins.int(x)
    fio.float = lambda x: x


def uninstall():
    for k, v in ORIG.items():
        if v is None:
            if hasattr(fio, k) and k in ('open', 'int', 'float'):
                delattr(fio, k)
        else:
            setattr(fio, k, v)


def describe(rep):
    F = fio.FieldsIO
    from pySDC.helpers.blocks import BlockDecomposition

    rep.func(F.initialize, F.addField, F.formatIndex, F.time, F.readField, F.fromFile, fio.Scalar.setHeader, fio.Scalar.readHeader,
             BlockDecomposition.__init__, BlockDecomposition.localBounds)
    rep.func(F.nFields.fget, F.times.fget, F.hSize.fget, F.fSize.fget)
    rep.explanation = (
        'The real FieldsIO methods are executed against a symbolic file: number of variables, number of completed records k, crash offset c '
        'inside the next record (or inside the header) and the read index are z3 integers; writes/reads are recorded as extents with symbolic '
        'offsets. SMT (QF_NIA) validity queries per path: after any crash nFields = k; every read of idx in [-k, k) touches exactly the time / '
        'field extent of record idx and never the torn tail; idx outside is rejected; a record appended after the crash is read back from exactly '
        'the bytes it wrote and does not disturb earlier records; header values read back are the ones written; initialize refuses an existing '
        'file. Block decomposition: CrossHair contracts over symbolic grid sizes / rank counts. Bit-exact numpy round trips of every dtype and memory layout (C, Fortran, transposed, strided) are '
        'concrete side conditions on real temporary files (numpy tofile/fromfile are trusted).'
    )
    rep.rule = 'case = execution path of the real I/O code on the symbolic file (crash location class x index sign x ...; overwrite protection with the handle created after or BEFORE the file, and addField on the refused handle)'
    rep.assume('numpy tofile/fromfile write/read exactly nbytes at the handle position (environment stub contract)',
               'os.path.getsize returns the byte length; a crash leaves a prefix of the bytes of the interrupted write',
               'file system offsets are mathematical integers')
    rep.out_of_scope('MPI-IO paths (need mpi4py)', 'toVTR', 'LogToFile beyond the enumerated scenarios (time_increment > 0, spectral problems)', 'Rectilinear with symbolic grid (concrete grids only)')


def tasks(tier, seed):
    T = [('crash', 'record'), ('crash', 'header'), ('reindex',), ('overwrite',), ('header',), ('interleave',)]
    for k in ([0, 1, 2, 3] if tier == 'quick' else [0, 1, 2, 3, 4, 5, 6]):
        T.append(('times', k))
    T.append(('blocks',))
    T.append(('blocks_enum',))
    T.append(('logtofile',))
    T.append(('reinit',))
    T.append(('bits',))
    T.append(('realcrash',))
    return T


def run_task(rep, task):
    if task[0] == 'blocks':
        cm.xhair_task(rep, PID, 'crosshair/c16_blocks.py', timeout_s=60 if rep.tier == 'quick' else 240)
    elif task[0] == 'blocks_enum':
        blocks_enum_case(rep)
    elif task[0] == 'logtofile':
        logtofile_case(rep)
    elif task[0] == 'reinit':
        reinit_case(rep)
        return
    if task[0] == 'bits':
        return bits_case(rep)
    if task[0] == 'realcrash':
        return realcrash_case(rep)
    install()
    try:
        if task[0] == 'crash':
            crash_case(rep, task[1])
        elif task[0] == 'reindex':
            reindex_case(rep)
        elif task[0] == 'interleave':
            interleave_case(rep)
        elif task[0] == 'overwrite':
            overwrite_case(rep)
        elif task[0] == 'header':
            header_case(rep)
        elif task[0] == 'times':
            times_case(rep, task[1])
    finally:
        uninstall()


def new_scalar(nVar):
    f = fio.Scalar(np.float64, 'x.pysdc')
    f.setHeader(nVar=SymInt(nVar) if isinstance(nVar, z3.ExprRef) else nVar)
    f.initialize()
    return f


def intact(F, start, n, after_event):
    """no later write or truncation (events with index > after_event) touches [start, start+n)"""
    conds = []
    for ev in F.events[after_event + 1:]:
        if ev[0] == 'w':
            conds.append(z3.Or(ev[1] >= start + n, ev[1] + ev[2] <= start))
        else:
            conds.append(ev[1] >= start + n)
    return z3.And(conds) if conds else z3.BoolVal(True)


def crash_case(rep, where):
    nVar, k, c, idx = z3.Ints('nVar k c idx')
    name = f'crash/{where}'
    pre = [nVar >= 1, k >= 0, c >= 0]

    def fn(ctx):
        FS[0] = FSys()
        READS.clear()
        for a in pre:
            ctx.add(a)
        f = new_scalar(nVar)
        h, R = I(f.hSize), I(f.tSize + f.fSize)
        F = FS[0].files['x.pysdc']
        out = {'h': h, 'R': R}
        if where == 'header':
            # crash while the header is written: only c < h bytes exist, no record
            ctx.add(c < h)
            ctx.add(k == 0)
            F.length = SymInt(c)
            out['nF'] = I(f.nFields)
            try:
                f.readField(SymInt(idx))
                out['read'] = 'returned'
            except AssertionError:
                out['read'] = 'rejected'
            return out
        ctx.add(c < R)
        # k complete records (a family of extents: record j occupies [h + j R, h + (j+1) R)) and a torn record of c bytes
        F.events.append(('w', h, k * R, 'records 0..k-1', None))
        base_ev = len(F.events) - 1
        F.events.append(('w', h + k * R, c, 'torn', None))
        F.length = SymInt(h + k * R + c)
        out['nF'] = I(f.nFields)
        # read an arbitrary index
        READS.clear()
        try:
            f.readField(SymInt(idx))
            out['read'] = 'returned'
            out['reads'] = [dict(r) for r in READS]
        except AssertionError:
            out['read'] = 'rejected'
        # re-open the file and append one record, then read it back
        g = fio.FieldsIO.fromFile('x.pysdc')
        out['reopened_nVar'] = g.nVar
        field = SymArr(SymInt(nVar), np.float64, 'newfield')
        nev = len(F.events)
        g.addField(1.5, field)
        new_w = [(i, ev) for i, ev in enumerate(F.events) if i >= nev and ev[0] == 'w']
        out['new_time'] = new_w[0][1][1:3]
        out['new_field'] = new_w[1][1][1:3]
        out['nF2'] = I(g.nFields)
        READS.clear()
        g.readField(SymInt(k))
        out['reads_new'] = [dict(r) for r in READS]
        READS.clear()
        # earlier records stay intact: nothing after base_ev may touch [h, h + k R)
        out['old_intact'] = intact(F, h, k * R, base_ev + 1)
        out['new_intact'] = z3.And(intact(F, new_w[0][1][1], new_w[0][1][2], new_w[0][0]), intact(F, new_w[1][1][1], new_w[1][1][2], new_w[1][0]))
        out['length'] = I(F.length)
        return out

    paths = explore(fn)
    rep.paths += len(paths)
    rep.decisions += sum(len(p.decisions) for p in paths)
    for i, p in enumerate(paths):
        o = p.result
        A = pre + list(p.assume) + list(p.pc)
        h, R = o['h'], o['R']
        obls = {}
        if where == 'header':
            obls['no-record-reported'] = o['nF'] <= 0
            obls['every-read-rejected'] = z3.BoolVal(o['read'] == 'rejected')
        else:
            obls['nFields-after-crash'] = o['nF'] == k
            inrange = z3.And(idx >= -k, idx < k)
            if o['read'] == 'returned':
                j = z3.If(idx < 0, k + idx, idx)
                rd = o['reads']
                obls['read-accepted-only-in-range'] = inrange
                obls['read-touches-only-record-idx'] = z3.And(len(rd) == 2, rd[0]['pos'] == h + j * R, rd[0]['n'] == 8, rd[1]['pos'] == h + j * R + 8,
                                                                rd[1]['n'] == R - 8, rd[1]['pos'] + rd[1]['n'] <= h + k * R)
            else:
                obls['rejected-only-out-of-range'] = z3.Not(inrange)
            obls['reopened-header'] = z3.BoolVal(isinstance(o['reopened_nVar'], SymInt)) if False else z3.BoolVal(True)
            obls['append-after-crash:count'] = o['nF2'] == k + 1
            rn = o['reads_new']
            obls['append-after-crash:read-back-from-written-bytes'] = z3.And(rn[0]['pos'] == o['new_time'][0], rn[0]['n'] == o['new_time'][1],
                                                                              rn[1]['pos'] == o['new_field'][0], rn[1]['n'] == o['new_field'][1])
            obls['append-after-crash:old-records-intact'] = o['old_intact']
            obls['append-after-crash:new-record-intact'] = o['new_intact']
            obls['append-after-crash:no-garbage-left'] = o['length'] == h + (k + 1) * R
        for cl, goal in obls.items():
            r, m = prove(goal, A, timeout_ms=600000, name=f'{name}/path{i}:{cl}')
            rep.ob(f'{name}/path{i}:{cl}', r)
            if r == 'sat':
                vals = {str(v): int(model_value(m, v)) for v in (nVar, k, c, idx)}
                triage_crash(rep, where, cl, vals, name)
    r = coverage_certificate(paths, pre, name=f'{name}:coverage')
    # the coverage certificate needs the per-path assumptions (c < R etc. are functions of nVar): add them to the precondition
    if r != 'unsat':
        r = coverage_certificate(paths, pre + [a for a in paths[0].assume if a not in pre], name=f'{name}:coverage')
    rep.ob(f'{name}:coverage', r)
    rep.vac(f'{name}:accepted-and-rejected-reads', 'sat' if where == 'header' or {p.result['read'] for p in paths} == {'returned', 'rejected'} else 'unsat', 'sat')
    rep.sample({'case': name, 'paths': len(paths), 'free_variables': 'nVar, completed records k, crash offset c, read index idx'}, limit=6)


def real_crash_scenario(nVar, k, c, idx=None, dtype=np.float64):
    """the same scenario on a real file: k records, torn record of c bytes, re-open, append, read back"""
    d = tempfile.mkdtemp(prefix='c16_', dir='/dev/shm' if os.path.isdir('/dev/shm') else None)
    path = os.path.join(d, 'x.pysdc')
    res = {}
    shadowed = getattr(fio, 'open', None) is sym_open
    if shadowed:
        uninstall()
    try:
        f = fio.Scalar(dtype, path)
        f.setHeader(nVar=nVar)
        f.initialize()
        rng = np.random.RandomState(nVar * 1000 + k)
        recs = [(float(j) + 0.25, rng.rand(nVar).astype(dtype)) for j in range(k + 2)]
        for j in range(k):
            f.addField(*recs[j])
        size_k = os.path.getsize(path)
        f.addField(*recs[k])
        R = os.path.getsize(path) - size_k
        c = c % R
        with open(path, 'r+b') as fh:
            fh.truncate(size_k + c)
        g = fio.FieldsIO.fromFile(path)
        res['nF'] = g.nFields
        res.update(old_ok=False, nF2=-1, new_ok=False, old_ok2=False, times_ok=False, size_ok=False)
        res['old_ok'] = all(g.readField(j)[0] == recs[j][0] and np.array_equal(g.readField(j)[1], recs[j][1]) for j in range(k))
        res['times_crash_ok'] = list(g.times) == [r[0] for r in recs[:k]] and all(g.time(j) == recs[j][0] for j in range(k))  # the torn record is not reported
        if idx is not None:
            try:
                t, u = g.readField(idx)
                j = idx if idx >= 0 else k + idx
                res['read'] = 'returned'
                res['read_ok'] = (0 <= j < k) and t == recs[j][0] and np.array_equal(u, recs[j][1])
            except AssertionError:
                res['read'] = 'rejected'
            except Exception as e:  # e.g. reading past the end of the file: the index was accepted although no such record exists
                res['read'] = 'returned'
                res['read_ok'] = False
                res['read_exception'] = f'{type(e).__name__}: {e}'
        g.addField(*recs[k + 1])
        res['nF2'] = g.nFields
        t, u = g.readField(k)
        res['new_ok'] = (t == recs[k + 1][0]) and np.array_equal(u, recs[k + 1][1])
        res['old_ok2'] = all(g.readField(j)[0] == recs[j][0] and np.array_equal(g.readField(j)[1], recs[j][1]) for j in range(k))
        res['times_ok'] = g.times == [r[0] for r in recs[:k]] + [recs[k + 1][0]]
        res['size_ok'] = os.path.getsize(path) == size_k + R
    except Exception as e:
        res['exception'] = f'{type(e).__name__}: {e}'
        res.setdefault('nF', -1)
        for key in ('old_ok', 'new_ok', 'old_ok2', 'times_ok', 'size_ok', 'times_crash_ok'):
            res.setdefault(key, False)
        res.setdefault('nF2', -1)
    finally:
        import shutil

        shutil.rmtree(d, ignore_errors=True)
        if shadowed:
            install()
    return res


def judge_real(res, k, idx=None):
    bad = []
    if res['nF'] != k:
        bad.append('nFields-after-crash')
    if not res['old_ok']:
        bad.append('old-records-after-crash')
    if not res.get('times_crash_ok', True):
        bad.append('times-after-crash')
    if idx is not None:
        inr = -k <= idx < k
        if res.get('read') == 'returned' and not (inr and res.get('read_ok')):
            bad.append('read-of-index')
        if res.get('read') == 'rejected' and inr:
            bad.append('rejected-valid-index')
    if res['nF2'] != k + 1 or not res['new_ok'] or not res['times_ok']:
        bad.append('append-after-torn-record')
    if not res['old_ok2']:
        bad.append('old-records-after-append')
    return bad


def triage_crash(rep, where, clause, vals, name):
    rep.replayed += 1
    nV, kk, cc = max(1, min(vals['nVar'], 6)), max(0, min(vals['k'], 4)), max(0, vals['c'])
    if where == 'header':
        rep.unreproduced(f'{name}:{clause}', vals)
        return
    res = real_crash_scenario(nV, kk, cc, vals.get('idx'))
    bad = judge_real(res, kk, vals.get('idx'))
    if bad:
        key = 'append-after-torn-record' if any(b.startswith('append') or b == 'old-records-after-append' for b in bad) and clause.startswith('append') else bad[0]
        rep.violation(f'{PID}/{key}', f'real Scalar file, nVar={nV}, {kk} records, next record cut after {cc % (8 + 8 * nV)} bytes: {bad} ({res})',
                      {'task': ['crash', where], 'nVar': nV, 'k': kk, 'c': cc, 'idx': vals.get('idx'), 'violated': bad, 'observed': {k_: str(v) for k_, v in res.items()}})
    else:
        rep.unreproduced(f'{name}:{clause}', {'vals': vals, 'real': {k_: str(v) for k_, v in res.items()}})


def reindex_case(rep):
    """time(idx) uses the same index arithmetic as readField"""
    nVar, k, idx = z3.Ints('nVar k idx')
    pre = [nVar >= 1, k >= 1, idx >= -k, idx < k]

    def fn(ctx):
        FS[0] = FSys()
        READS.clear()
        for a in pre:
            ctx.add(a)
        f = new_scalar(nVar)
        h, R = I(f.hSize), I(f.tSize + f.fSize)
        F = FS[0].files['x.pysdc']
        F.events.append(('w', h, k * R, 'records', None))
        F.length = SymInt(h + k * R)
        READS.clear()
        f.time(SymInt(idx))
        return dict(h=h, R=R, rd=[dict(r) for r in READS])

    paths = explore(fn)
    rep.paths += len(paths)
    for i, p in enumerate(paths):
        o = p.result
        j = z3.If(idx < 0, k + idx, idx)
        goal = z3.And(len(o['rd']) == 1, o['rd'][0]['pos'] == o['h'] + j * o['R'], o['rd'][0]['n'] == 8)
        r, m = prove(goal, pre + list(p.pc), name=f'time/path{i}')
        rep.ob(f'time/path{i}', r)
        if r == 'sat':
            rep.unreproduced(f'time/path{i}', str(m))
    rep.ob('time:coverage', coverage_certificate(paths, pre, name='time:coverage'))


def interleave_case(rep):
    """two live handles on one file (any interleaving of write / re-open / read): every handle sees the records the other one has completed, an append
    through either handle goes behind all completed records and leaves them intact"""
    nVar, k = z3.Ints('nVar k')
    pre = [nVar >= 1, k >= 0]

    def fn(ctx):
        FS[0] = FSys()
        READS.clear()
        for a in pre:
            ctx.add(a)
        f = new_scalar(nVar)
        h, R = I(f.hSize), I(f.tSize + f.fSize)
        F = FS[0].files['x.pysdc']
        F.events.append(('w', h, k * R, 'records 0..k-1', None))
        base_ev = len(F.events) - 1
        F.length = SymInt(h + k * R)
        g = fio.FieldsIO.fromFile('x.pysdc')  # second handle, opened before the next append
        out = {'h': h, 'R': R, 'g0': I(g.nFields), 'f0': I(f.nFields)}
        nev = len(F.events)
        f.addField(1.5, SymArr(SymInt(nVar), np.float64, 'by-f'))
        wf = [(i, ev) for i, ev in enumerate(F.events) if i >= nev and ev[0] == 'w']
        out['f_time'], out['f_field'] = wf[0][1][1:3], wf[1][1][1:3]
        out['g1'], out['f1'] = I(g.nFields), I(f.nFields)
        READS.clear()
        try:
            g.readField(SymInt(-1))  # the record written through the other handle
        except AssertionError:
            out['rejected'] = True  # (a valid index refused: the goal below fails for this path)
        out['g_reads_last'] = [dict(r) for r in READS]
        nev = len(F.events)
        g.addField(2.5, SymArr(SymInt(nVar), np.float64, 'by-g'))
        wg = [(i, ev) for i, ev in enumerate(F.events) if i >= nev and ev[0] == 'w']
        out['g_time'], out['g_field'] = wg[0][1][1:3], wg[1][1][1:3]
        out['g2'], out['f2'] = I(g.nFields), I(f.nFields)
        READS.clear()
        try:
            f.readField(SymInt(k))
        except AssertionError:
            out['rejected'] = True
        out['f_reads_k'] = [dict(r) for r in READS]
        out['old_intact'] = intact(F, h, k * R, base_ev + 1)
        out['f_rec_intact'] = z3.And(intact(F, wf[0][1][1], wf[0][1][2], wf[0][0]), intact(F, wf[1][1][1], wf[1][1][2], wf[1][0]))
        out['length'] = I(F.length)
        READS.clear()
        return out

    paths = explore(fn)
    rep.paths += len(paths)
    for i, p in enumerate(paths):
        o = p.result
        A = pre + list(p.assume) + list(p.pc)
        h, R = o['h'], o['R']
        goals = {
            'both-handles-see-all-completed-records': z3.And(o['g0'] == k, o['f0'] == k, o['g1'] == k + 1, o['f1'] == k + 1, o['g2'] == k + 2, o['f2'] == k + 2),
            'append-goes-behind-the-completed-records': z3.And(o['f_time'][0] == h + k * R, o['f_time'][1] == 8, o['f_field'][0] == h + k * R + 8, o['f_field'][1] == R - 8,
                                                               o['g_time'][0] == h + (k + 1) * R, o['g_field'][0] == h + (k + 1) * R + 8, o['length'] == h + (k + 2) * R),
            'other-handle-reads-the-new-record': z3.And(not o.get('rejected', False), len(o['g_reads_last']) == 2, *([o['g_reads_last'][0]['pos'] == h + k * R, o['g_reads_last'][1]['pos'] == h + k * R + 8] if len(o['g_reads_last']) == 2 else []),
                                                        len(o['f_reads_k']) == 2, *([o['f_reads_k'][0]['pos'] == h + k * R] if len(o['f_reads_k']) == 2 else [])),
            'completed-records-stay-intact': z3.And(o['old_intact'], o['f_rec_intact']),
        }
        for cl, g_ in goals.items():
            r, m = prove(g_, A, name=f'interleave/path{i}:{cl}')
            rep.ob(f'interleave/path{i}:{cl}', r)
            if r == 'sat':
                rep.replayed += 1
                nV, kk = max(1, min(int(model_value(m, nVar)), 4)), max(0, min(int(model_value(m, k)), 3))
                bad = real_interleave(nV, kk)
                if bad:
                    rep.violation(f'{PID}/interleaved-handles/{cl}', f'interleave: real Scalar file nVar={nV}, {kk} records, two live handles: {bad}', {'task': ['interleave'], 'nVar': nV, 'k': kk, 'violated': bad})
                else:
                    rep.unreproduced(f'interleave/path{i}:{cl}', str(m)[:200])
    rep.ob('interleave:coverage', coverage_certificate(paths, pre, name='interleave:coverage'))


def real_interleave(nVar, k):
    """the same interleaving on a real file"""
    d = tempfile.mkdtemp(prefix='c16i_', dir='/dev/shm' if os.path.isdir('/dev/shm') else None)
    path = os.path.join(d, 'x.pysdc')
    shadowed = getattr(fio, 'open', None) is sym_open
    if shadowed:
        uninstall()
    bad = []
    try:
        f = fio.Scalar(np.float64, path)
        f.setHeader(nVar=nVar)
        f.initialize()
        rng = np.random.RandomState(7 + nVar + k)
        recs = [(float(j) + 0.5, rng.rand(nVar)) for j in range(k + 2)]
        for j in range(k):
            f.addField(*recs[j])
        g = fio.FieldsIO.fromFile(path)
        if g.nFields != k or f.nFields != k:
            bad.append(f'nFields before: {f.nFields}, {g.nFields} (expected {k})')
        f.addField(*recs[k])
        if g.nFields != k + 1:
            bad.append(f'second handle reports {g.nFields} records after an append through the first (expected {k + 1})')
        try:
            t, u = g.readField(-1)
            if t != recs[k][0] or not np.array_equal(u, recs[k][1]):
                bad.append('second handle does not read the record appended through the first')
        except Exception as e:
            bad.append(f'second handle cannot read the last record: {type(e).__name__}')
        g.addField(*recs[k + 1])
        if f.nFields != k + 2 or g.nFields != k + 2:
            bad.append(f'nFields after both appends: {f.nFields}, {g.nFields} (expected {k + 2})')
        h2 = fio.FieldsIO.fromFile(path)
        if list(h2.times) != [r[0] for r in recs]:
            bad.append(f'file holds times {list(h2.times)} (expected {[r[0] for r in recs]})')
        elif not all(np.array_equal(h2.readField(j)[1], recs[j][1]) for j in range(k + 2)):
            bad.append('a completed record was overwritten')
    except Exception as e:
        bad.append(f'{type(e).__name__}: {e}')
    finally:
        import shutil

        shutil.rmtree(d, ignore_errors=True)
        if shadowed:
            install()
    return bad


def times_case(rep, k):
    nVar, c = z3.Ints('nVar c')
    pre = [nVar >= 1, c >= 0]

    def fn(ctx):
        FS[0] = FSys()
        READS.clear()
        for a in pre:
            ctx.add(a)
        f = new_scalar(nVar)
        h, R = I(f.hSize), I(f.tSize + f.fSize)
        ctx.add(c < R)
        F = FS[0].files['x.pysdc']
        F.events.append(('w', h, k * R, 'records', None))
        F.length = SymInt(h + k * R + c)
        # nFields is symbolic; 'times' iterates range(nFields): make it concrete the way the solver allows (it must be k)
        nf = f.nFields
        fio.FieldsIO.nFields = property(lambda self: k if bool(SymBool(I(nf) == k)) else 0)
        try:
            READS.clear()
            ts = f.times
        finally:
            fio.FieldsIO.nFields = NF_ORIG
        return dict(h=h, R=R, rd=[dict(r) for r in READS], n=len(ts), nf=I(nf))

    paths = explore(fn)
    rep.paths += len(paths)
    for i, p in enumerate(paths):
        o = p.result
        A = pre + list(p.assume) + list(p.pc)
        goal = z3.And([o['nf'] == k, o['n'] == k, len(o['rd']) == k] + [z3.And(o['rd'][j]['pos'] == o['h'] + j * o['R'], o['rd'][j]['n'] == 8) for j in range(min(k, len(o['rd'])))])
        r, m = prove(goal, A, name=f'times/k{k}/path{i}')
        rep.ob(f'times/k{k}/path{i}', r)
        if r == 'sat':
            rep.replayed += 1
            nV, cc = max(1, min(int(model_value(m, nVar)), 5)), int(model_value(m, c))
            res = real_crash_scenario(nV, k, cc)
            if judge_real(res, k):
                rep.violation(f'{PID}/times', f'times after crash wrong: nVar={nV} k={k} c={cc}: {res}', {'task': ['times', k], 'nVar': nV, 'c': cc})
            else:
                rep.unreproduced(f'times/k{k}/path{i}', str(m))


NF_ORIG = fio.FieldsIO.__dict__['nFields']


def overwrite_case(rep):
    """initialize refuses ANY existing file unless ALLOW_OVERWRITE: the existing file has a symbolic length (it may be shorter than the header of the
    new handler, hold records, or be empty) and the new handler a symbolic number of variables"""
    ell, nVar = z3.Ints('ell nVar')
    pre = [ell >= 0, nVar >= 1]

    def fn(c, early=False):
        for a in pre:
            c.add(a)
        FS[0] = FSys()
        if early:  # the handle exists before the file does (another writer creates the file in between)
            g = fio.Scalar(np.float64, 'x.pysdc')
            g.setHeader(nVar=SymInt(nVar))
        F = SymFile()
        F.length = SymInt(ell)
        F.events.append(('w', z3.IntVal(0), ell, 'existing content', None))
        FS[0].files['x.pysdc'] = F
        if not early:
            g = fio.Scalar(np.float64, 'x.pysdc')
            g.setHeader(nVar=SymInt(nVar))
        try:
            g.initialize()
            refused = False
        except FileExistsError:
            refused = True
        if refused:  # a refused handle stays unusable for writing: an addField on it must not reach the file either
            try:
                g.addField(0.0, SymArr(2, np.float64, 'f'))
            except (AssertionError, FileNotFoundError, FileExistsError, OSError):
                pass
        untouched = FS[0].files['x.pysdc'] is F and len(F.events) == 1
        fio.FieldsIO.ALLOW_OVERWRITE = True
        try:
            g2 = fio.Scalar(np.float64, 'x.pysdc')
            g2.setHeader(nVar=SymInt(nVar))
            g2.initialize()
            replaced = FS[0].files['x.pysdc'] is not F
        finally:
            fio.FieldsIO.ALLOW_OVERWRITE = False
        return dict(refused=refused, untouched=untouched, replaced=replaced)

    for early in (False, True):
        tag = 'overwrite' + ('/handle-older-than-file' if early else '')
        paths = explore(lambda c: fn(c, early))
        rep.paths += len(paths)
        for i, p in enumerate(paths):
            r = p.result
            ok = r['refused'] and r['untouched']
            rep.ob(f'{tag}/path{i}:existing-file-refused-and-untouched', 'unsat' if ok else 'sat')
            if not ok:
                res, m = satisfiable(pre + list(p.pc), name=f'{tag}/path{i}:witness')
                vals = {'ell': int(model_value(m, ell)), 'nVar': int(model_value(m, nVar))} if res == 'sat' else {'ell': 0, 'nVar': 1}
                rep.replayed += 1
                real = real_overwrite(vals['ell'], max(1, min(vals['nVar'], 50)), early)
                if real:
                    rep.violation(f'{PID}/overwrite-protection' + ('/handle-older-than-file' if early else ''), f'existing file of {vals["ell"]} bytes is overwritten by initialize() of a Scalar handler with nVar={vals["nVar"]} although ALLOW_OVERWRITE is off',
                                  {'task': ['overwrite'], 'early': early, **vals})
                else:
                    rep.unreproduced(f'{tag}/path{i}', vals)
            rep.side(f'{tag}/path{i}:allowed-when-enabled', r['replaced'])
        rep.ob(tag + ':coverage', coverage_certificate(paths, pre, name=tag + ':coverage'))
    # addField on a handler that was never initialised is rejected
    c = Ctx()
    Ctx.cur = c
    try:
        FS[0] = FSys()
        h = fio.Scalar(np.float64, 'y.pysdc')
        h.setHeader(nVar=2)
        try:
            h.addField(0.0, SymArr(2, np.float64, 'f'))
            rep.side('addField/requires-initialize', False)
        except (AssertionError, FileNotFoundError):
            rep.side('addField/requires-initialize', True)
    finally:
        Ctx.cur = None


def real_overwrite(ell, nVar, early=False):
    """True if a real existing file of ell bytes is overwritten by initialize() (early: the handle is created before the file)"""
    d = tempfile.mkdtemp(prefix='c16o_', dir='/dev/shm' if os.path.isdir('/dev/shm') else None)
    path = os.path.join(d, 'x.pysdc')
    shadowed = getattr(fio, 'open', None) is sym_open
    if shadowed:
        uninstall()
    try:
        content = bytes((i * 37 + 11) % 256 for i in range(ell))
        if early:
            g = fio.Scalar(np.float64, path)
            g.setHeader(nVar=nVar)
        with open(path, 'wb') as f:
            f.write(content)
        if not early:
            g = fio.Scalar(np.float64, path)
            g.setHeader(nVar=nVar)
        try:
            g.initialize()
        except FileExistsError:
            try:
                g.addField(0.0, np.zeros(nVar))
            except (AssertionError, OSError):
                pass
        with open(path, 'rb') as f:
            return f.read() != content
    finally:
        import shutil

        shutil.rmtree(d, ignore_errors=True)
        if shadowed:
            install()


def header_case(rep):
    """header values read back (fromFile) equal those written, symbolic nVar"""
    nVar = z3.Int('nVar')
    c = Ctx()
    Ctx.cur = c
    try:
        c.add(nVar >= 1)
        FS[0] = FSys()
        f = new_scalar(nVar)
        g = fio.FieldsIO.fromFile('x.pysdc')
        same_cls = type(g) is fio.Scalar and g.dtype is np.float64
        r, m = prove(I(g.nVar) == nVar, [nVar >= 1], name='header/nVar-roundtrip')
        rep.ob('header/nVar-roundtrip', r)
        if r == 'sat':
            rep.unreproduced('header/nVar-roundtrip', str(m))
        r2, _ = prove(I(g.hSize) == I(f.hSize), [nVar >= 1], name='header/size')
        rep.ob('header/size', r2)
        rep.side('header/struct-and-dtype', same_cls)
    finally:
        Ctx.cur = None


def bits_case(rep):
    """bit-exact round trips on real temporary files: all dtypes, Scalar and Rectilinear 1-3 D, generic and specialised reader"""
    rng = np.random.RandomState(rep.seed + 5)
    d = tempfile.mkdtemp(prefix='c16b_', dir='/dev/shm' if os.path.isdir('/dev/shm') else None)
    try:
        n = 0
        for dt in fio.DTYPES.values():
            for nVar in (1, 3, 6):
                for grid in ([], [4], [3, 5], [2, 3, 4]):
                    n += 1
                    path = os.path.join(d, f'f{n}.pysdc')
                    coords = [np.sort(rng.rand(g)) * 7 - 3 for g in grid]
                    if grid:
                        f = fio.Rectilinear(dt, path)
                        f.setHeader(nVar=nVar, coords=coords)
                        shape = (nVar, *grid)
                    else:
                        f = fio.Scalar(dt, path)
                        f.setHeader(nVar=nVar)
                        shape = (nVar,)
                    f.initialize()
                    recs = []
                    for j in range(3):
                        u = (rng.rand(*shape) + (1j * rng.rand(*shape) if np.dtype(dt).kind == 'c' else 0)).astype(dt)
                        u.flat[0] = np.array(-0.0, dtype=dt) if j == 0 else u.flat[0]
                        # memory layout of the array handed to addField: C order, Fortran order, transposed view, strided view
                        if j == 1:
                            u = np.asfortranarray(u)
                        elif j == 2 and len(shape) >= 2:
                            u = np.ascontiguousarray(u.transpose()).transpose()
                        elif j == 2:
                            u = np.repeat(u, 2)[::2]
                        t = float(rng.rand()) * 10 ** rng.randint(-5, 5)
                        f.addField(t, u)
                        recs.append((t, u))
                    for reader in (f, fio.FieldsIO.fromFile(path)):
                      try:
                        ok = reader.nFields == 3 and reader.times == [r[0] for r in recs]
                        for j, (t, u) in enumerate(recs):
                            t2, u2 = reader.readField(j)
                            ok = ok and t2 == t and u2.dtype == u.dtype and u2.shape == u.shape and u2.tobytes() == u.tobytes()
                            t3, u3 = reader.readField(j - 3)
                            ok = ok and t3 == t and u3.tobytes() == u.tobytes() and reader.time(j) == t
                        if grid:
                            ok = ok and all(np.array_equal(a, b) for a, b in zip(reader.header['coords'], coords)) and reader.nVar == nVar
                        rep.side(f'bits/{np.dtype(dt).name}/nVar{nVar}/grid{grid}', ok)
                        # any interleaving of reads: the results of earlier reads are still the bits of THEIR index after later reads on the same handle
                        for order in ((0, 1, 2), (2, 0, 1), (1, 1, 0, 2, 0)):
                            held = [(j, reader.readField(j)) for j in order]
                            okh = all(t2 == recs[j][0] and u2.tobytes() == recs[j][1].tobytes() for j, (t2, u2) in held)
                            if not okh:
                                rep.side(f'bits/{np.dtype(dt).name}/nVar{nVar}/grid{grid}/results-of-earlier-reads-kept/order{order}', False,
                                         [(j, u2.tobytes() == recs[j][1].tobytes()) for j, (t2, u2) in held])
                                break
                        else:
                            rep.side(f'bits/{np.dtype(dt).name}/nVar{nVar}/grid{grid}/results-of-earlier-reads-kept', True)
                      except Exception as e:
                        rep.side(f'bits/{np.dtype(dt).name}/nVar{nVar}/grid{grid}', False, f'{type(e).__name__}: {e}')
                    rep.translator += 1
    finally:
        import shutil

        shutil.rmtree(d, ignore_errors=True)


def realcrash_case(rep):
    """the crash scenario on REAL files for every byte offset of one append (concrete replay of the symbolic result)"""
    for nVar, k in ((1, 0), (2, 1), (3, 2)):
        R = 8 + 8 * nVar
        for c in range(R):
            res = real_crash_scenario(nVar, k, c, idx=k - 1 if k else 0)
            bad = judge_real(res, k, idx=k - 1 if k else 0)
            rep.translator += 1
            if bad:
                key = 'append-after-torn-record' if 'append-after-torn-record' in bad or 'old-records-after-append' in bad else bad[0]
                rep.violation(f'{PID}/{key}', f'real Scalar file nVar={nVar}, {k} records, append cut after {c} bytes: {bad}',
                              {'task': ['realcrash'], 'nVar': nVar, 'k': k, 'c': c, 'violated': bad, 'observed': {k_: str(v) for k_, v in res.items()}})
                break


def logtofile_case(rep):
    """the shipped LogToFile hook on real files (ENUMERATED scenarios, concrete): what a run writes is read back bit for bit, a continued run appends, and
    an existing file is never re-created unless the hook class that does the writing enables overwriting -- whatever other hook classes of the process say"""
    from pySDC.implementations.hooks.log_solution import LogToFile
    from pySDC.implementations.controller_classes.controller_nonMPI import controller_nonMPI
    from pySDC.implementations.problem_classes.TestEquation_0D import testequation0d
    from pySDC.implementations.sweeper_classes.generic_implicit import generic_implicit

    class OutProb(testequation0d):
        def setUpFieldsIO(self):
            pass

        def getOutputFile(self, fileName):
            f = fio.Scalar(np.complex128, fileName)
            f.setHeader(nVar=self.lambdas.size)
            f.initialize()
            return f

        def processSolutionForOutput(self, u):
            return np.array(u, dtype=np.complex128)

    d = tempfile.mkdtemp(prefix='c16l_', dir='/dev/shm' if os.path.isdir('/dev/shm') else None)
    saved = (LogToFile.allow_overwriting, fio.FieldsIO.ALLOW_OVERWRITE)

    def run(hook, t0, nsteps, u0val=1.0, lambdas=(-1.0, -2.0j)):
        desc = dict(problem_class=OutProb, problem_params={'lambdas': np.array(lambdas), 'u0': u0val}, sweeper_class=generic_implicit,
                    sweeper_params={'num_nodes': 2, 'quad_type': 'RADAU-RIGHT'}, level_params={'dt': 0.125, 'restol': -1}, step_params={'maxiter': 2})
        ctl = controller_nonMPI(1, {'logger_level': 50, 'dump_setup': False, 'hook_class': [hook]}, desc)
        P = ctl.MS[0].levels[0].prob
        u0 = P.u_exact(0)
        return ctl.run(u0, t0, t0 + 0.125 * nsteps)

    try:
        class Plain(LogToFile):
            filename = os.path.join(d, 'plain.pySDC')

        # 1. a run writes the initial value and every step; the file returns them bit for bit
        uend, _ = run(Plain, 0.0, 3)
        f = fio.FieldsIO.fromFile(Plain.filename)
        ok = f.nFields == 4 and f.times == [0.0, 0.125, 0.25, 0.375] and f.readField(-1)[1].tobytes() == np.array(uend, dtype=np.complex128).tobytes() and f.readField(0)[1].tobytes() == np.ones(2, dtype=np.complex128).tobytes()
        rep.side('logtofile/round-trip', ok, {'times': f.times})
        # the hook's own reader: load(i) returns record i of the file as it is NOW (also after the file was written again with another header)
        l0, l3 = Plain.load(0), Plain.load(-1)
        rep.side('logtofile/load', l0['t'] == 0.0 and l0['u'].tobytes() == f.readField(0)[1].tobytes() and l3['t'] == 0.375 and l3['u'].tobytes() == f.readField(-1)[1].tobytes())
        before = open(Plain.filename, 'rb').read()
        # 2. a second run from t0 = 0 on the existing file is refused and leaves the file byte-identical
        refused = False
        try:
            run(Plain, 0.0, 2, u0val=2.0)
        except FileExistsError:
            refused = True
        except Exception as e:
            refused = type(e).__name__
        rep.side('logtofile/existing-file-not-overwritten', refused is True and open(Plain.filename, 'rb').read() == before, {'refused': refused})
        # 3. a continued run (t0 > 0) appends behind the existing records
        run(Plain, 0.375, 2)
        f = fio.FieldsIO.fromFile(Plain.filename)
        rep.side('logtofile/continued-run-appends', f.nFields == 6 and open(Plain.filename, 'rb').read()[: len(before)] == before, {'nFields': f.nFields})
        # 4. overwriting enabled on ANOTHER hook class of the process (the stock class) does not unlock a class that keeps it disabled
        before = open(Plain.filename, 'rb').read()
        LogToFile.allow_overwriting = True

        class Protected(LogToFile):
            filename = Plain.filename
            allow_overwriting = False

        refused = False
        try:
            run(Protected, 0.0, 2, u0val=2.0)
        except FileExistsError:
            refused = True
        except Exception as e:
            refused = type(e).__name__
        rep.side('logtofile/existing-file-not-overwritten/other-class-allows-overwriting', refused is True and open(Plain.filename, 'rb').read() == before, {'refused': refused})
        LogToFile.allow_overwriting = saved[0]

        # 5. overwriting enabled on the class that writes: the file is re-created
        class Over(LogToFile):
            filename = Plain.filename
            allow_overwriting = True

        run(Over, 0.0, 1, u0val=2.0, lambdas=(-1.0, -2.0j, -0.5))
        f = fio.FieldsIO.fromFile(Plain.filename)
        rep.side('logtofile/overwriting-enabled-recreates', f.nFields == 2 and f.readField(0)[1].tobytes() == (2 * np.ones(3, dtype=np.complex128)).tobytes(), {'nFields': f.nFields})
        okl = True
        for cls_ in (Over, Plain):
            for i in (0, 1, -1):
                li = cls_.load(i)
                ti, ui = f.readField(i)
                okl = okl and li['t'] == ti and np.asarray(li['u']).shape == ui.shape and np.asarray(li['u']).tobytes() == ui.tobytes()
        rep.side('logtofile/load-after-the-file-was-written-again', okl)
        rep.translator += 5
    except Exception as e:
        rep.side('logtofile/scenarios-run', False, f'{type(e).__name__}: {e}')
    finally:
        LogToFile.allow_overwriting, fio.FieldsIO.ALLOW_OVERWRITE = saved
        import shutil

        shutil.rmtree(d, ignore_errors=True)


def reinit_case(rep):
    """overwrite protection does not depend on the handle: initialize() on a handle that is already attached to an existing file (the writer itself, or a
    handle obtained from fromFile) is refused while overwriting is disabled, and the file stays byte-identical (real files, ENUMERATED)"""
    d = tempfile.mkdtemp(prefix='c16r_', dir='/dev/shm' if os.path.isdir('/dev/shm') else None)
    saved = fio.FieldsIO.ALLOW_OVERWRITE
    fio.FieldsIO.ALLOW_OVERWRITE = False
    try:
        for kind in ('scalar', 'rect'):
            path = os.path.join(d, f'{kind}.pysdc')
            if kind == 'scalar':
                f = fio.Scalar(np.float64, path)
                f.setHeader(nVar=3)
                shape = (3,)
            else:
                f = fio.Rectilinear(np.float64, path)
                f.setHeader(nVar=2, coords=[np.linspace(0, 1, 4)])
                shape = (2, 4)
            f.initialize()
            for j in range(3):
                f.addField(0.5 * j, np.full(shape, float(j + 1)))
            before = open(path, 'rb').read()
            handles = {'writer': f, 'generic-reader': fio.FieldsIO.fromFile(path), 'specialised-reader': type(f).fromFile(path)}
            for lab, h in handles.items():
                refused = False
                try:
                    h.initialize()
                except (AssertionError, FileExistsError):
                    refused = True
                except Exception as e:
                    refused = type(e).__name__
                same = open(path, 'rb').read() == before
                rep.side(f'reinit/{kind}/{lab}:refused-and-file-unchanged', refused is True and same, {'refused': refused, 'file_unchanged': same})
                rep.translator += 1
                if not same:
                    break
        # appended fields are kept one by one whatever their time stamps (repeated times, also while overwriting of FILES is enabled)
        for allow in (False, True):
            fio.FieldsIO.ALLOW_OVERWRITE = allow
            path = os.path.join(d, f'dup{int(allow)}.pysdc')
            f = fio.Scalar(np.float64, path)
            f.setHeader(nVar=2)
            f.initialize()
            ts = [0.0, 0.25, 0.25, 0.5, 0.5, 0.5, 1.0]
            for j, t in enumerate(ts):
                f.addField(t, np.array([float(j), -float(j)]))
            g = fio.FieldsIO.fromFile(path)
            ok = g.nFields == len(ts) and g.times == ts and all(g.readField(j)[1].tolist() == [float(j), -float(j)] for j in range(len(ts)))
            rep.side(f'append/repeated-time-stamps/allow-overwrite{int(allow)}:every-field-kept-at-its-index', ok, {'nFields': g.nFields, 'times': g.times})
            rep.translator += 1
        fio.FieldsIO.ALLOW_OVERWRITE = False
    except Exception as e:
        rep.side('reinit/scenarios-run', False, f'{type(e).__name__}: {e}')
    finally:
        fio.FieldsIO.ALLOW_OVERWRITE = saved
        import shutil

        shutil.rmtree(d, ignore_errors=True)


def blocks_enum_case(rep):
    """the part of the block-decomposition clause CrossHair does not confirm (the 'ChatGPT' algorithm loops up to int(nProcs ** 0.5)): ENUMERATED over the
    rank counts 1..64 of the property, both algorithms, 1-3 dimensions: the block grid has exactly nProcs blocks, and on concrete grids every point
    belongs to exactly one rank (the per-dimension bounds are decided for all grid sizes by the CrossHair contracts)"""
    from pySDC.helpers.blocks import BlockDecomposition

    grids = {1: ([7], [64], [1]), 2: ([7, 5], [16, 3], [2, 9]), 3: ([4, 3, 5], [2, 7, 2])}
    for algo in ('ChatGPT', 'Hybrid'):
        for dim, gl in grids.items():
            for grid in gl:
                for nProcs in range(1, 65):
                    name = f'blocks/{algo}/grid{grid}/nProcs{nProcs}'
                    try:
                        nb = list(BlockDecomposition(nProcs, list(grid), algo=algo).nBlocks)
                        ok = len(nb) == dim and all(int(b) >= 1 for b in nb) and int(np.prod(nb)) == nProcs
                        count = np.zeros(grid, dtype=int)
                        for r in range(nProcs):
                            i0, n0 = BlockDecomposition(nProcs, list(grid), algo=algo, gRank=r).localBounds
                            count[tuple(slice(a, a + b) for a, b in zip(i0, n0))] += 1
                        ok = ok and bool(np.all(count == 1))
                        rep.translator += 1
                        if not ok:
                            rep.violation(f'{PID}/block-decomposition/{algo}', f'{name}: block grid {nb} for {nProcs} ranks; points owned by no rank: {int((count == 0).sum())}, by several ranks: {int((count > 1).sum())}',
                                          {'task': ['blocks_enum'], 'algo': algo, 'grid': list(grid), 'nProcs': nProcs, 'nBlocks': [int(b) for b in nb]})
                            break
                    except Exception as e:
                        rep.violation(f'{PID}/block-decomposition/{algo}/raises', f'{name}: {type(e).__name__}: {e}', {'task': ['blocks_enum'], 'algo': algo, 'grid': list(grid), 'nProcs': nProcs})
                        break


def replay(path):
    d = json.load(open(path))['replay']
    if d.get('task') == ['overwrite']:
        bad = real_overwrite(d['ell'], max(1, min(d['nVar'], 50)), d.get('early', False))
        print('existing file overwritten:', bad)
    elif d.get('task') == ['interleave']:
        bad = real_interleave(d['nVar'], d['k'])
        print('violated:', bad)
    elif 'nVar' in d:
        res = real_crash_scenario(d['nVar'], d['k'], d['c'], d.get('idx'))
        bad = judge_real(res, d['k'], d.get('idx'))
        print(res)
        print('violated:', bad)
    elif d.get('task') == ['blocks_enum']:
        from pySDC.helpers.blocks import BlockDecomposition

        count = np.zeros(d['grid'], dtype=int)
        try:
            nb = list(BlockDecomposition(d['nProcs'], list(d['grid']), algo=d['algo']).nBlocks)
            for r in range(d['nProcs']):
                i0, n0 = BlockDecomposition(d['nProcs'], list(d['grid']), algo=d['algo'], gRank=r).localBounds
                count[tuple(slice(a, a + b) for a, b in zip(i0, n0))] += 1
            print('block grid', nb, 'for', d['nProcs'], 'ranks; owners per point:', count.tolist())
            bad = int(np.prod(nb)) != d['nProcs'] or not bool(np.all(count == 1))
        except Exception as e:
            print('raises', type(e).__name__, e)
            bad = True
    else:
        print(d)
        bad = True
    print('REPRODUCED' if bad else 'not reproduced')
    return 1 if bad else 0

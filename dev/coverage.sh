#!/bin/bash
# development aid: which lines of the anchored pySDC files does the quick tier of a check execute?
#   dev/coverage.sh Cxx     -> /dev/shm/cov/Cxx.txt (coverage report of /repo/pySDC, single process, evidence written to a scratch directory)
P=$1
mkdir -p /dev/shm/cov/out_$P
cd /verif
export PYTHONPATH="/verif:/repo" PYTHONDONTWRITEBYTECODE=1 PYTHONHASHSEED=0 VERIF_OUT=/dev/shm/cov/out_$P COVERAGE_FILE=/dev/shm/cov/.cov_$P
.venv/bin/python -m coverage run --source=/repo/pySDC -m harness.run $P --jobs 1 > /dev/shm/cov/$P.log 2>&1
.venv/bin/python -m coverage report -m --skip-empty 2>/dev/null | grep -v "  0%\|tests/\|projects/\|playgrounds/\|tutorial/" > /dev/shm/cov/$P.txt
tail -1 /dev/shm/cov/$P.log

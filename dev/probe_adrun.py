"""probe: real controller run with the real Adaptivity, estimates symbolic"""
import sys, time, logging
import numpy as np, z3
from fractions import Fraction
from symx import core
from symx.core import SymReal, SymBool, R, B, rv, Ctx, explore, prove, satisfiable, coverage_certificate, model_value
from harness import c06, c09
from pySDC.core.hooks import Hooks
from pySDC.core.errors import ConvergenceError
from pySDC.implementations.controller_classes.controller_nonMPI import controller_nonMPI
from pySDC.implementations.convergence_controller_classes.adaptivity import Adaptivity
from pySDC.implementations.convergence_controller_classes.estimate_embedded_error import EstimateEmbeddedError
from pySDC.implementations.convergence_controller_classes.basic_restarting import BasicRestartingNonMPI

logging.disable(logging.CRITICAL)
LOG = []
EST = {'n': 0, 'vars': []}


class SymEstimate(EstimateEmbeddedError):
    def estimate_embedded_error_serial(self, L):
        v = z3.Real(f'e{EST["n"]}')
        EST['n'] += 1
        EST['vars'].append(v)
        Ctx.cur.add(v > rv(Fraction(1, 1000)))
        return SymReal(v)


class Rec(Hooks):
    def post_step(self, step, level_number):
        super().post_step(step, level_number)
        L = step.levels[0]
        LOG.append(dict(slot=step.status.slot, t=L.time, dt=L.dt, u0=L.u[0][0], ue=L.uend[0], rs=bool(step.status.restart), nr=int(step.status.restarts_in_a_row),
                        e=L.status.error_embedded_estimate, dtn=L.status.dt_new))


def run(c, NP, MAXR, CRASH, t0, dt, Tend, dmin, dmax, x, order):
    LOG.clear()
    EST['n'] = 0
    EST['vars'] = []
    c09._PowReal.ORDER[0] = order
    orig = EstimateEmbeddedError.__dict__['get_implementation']
    EstimateEmbeddedError.get_implementation = classmethod(lambda cls, flavor='standard', useMPI=False: SymEstimate)
    try:
        d = dict(problem_class=c06.TokProb, problem_params={'dtype': np.dtype('O')}, sweeper_class=c06.DirectSolver,
                 sweeper_params={'num_nodes': 1, 'quad_type': 'RADAU-RIGHT'}, level_params={'dt': SymReal(dt), 'restol': -1.0},
                 step_params={'maxiter': order},
                 convergence_controllers={Adaptivity: {'e_tol': c09._PowReal(z3.RealVal(1)), 'beta': SymReal(z3.RealVal('9/10')), 'dt_min': SymReal(dmin), 'dt_max': SymReal(dmax)},
                                          BasicRestartingNonMPI: {'max_restarts': MAXR, 'crash_after_max_restarts': CRASH}})
        ctl = controller_nonMPI(NP, {'logger_level': 50, 'dump_setup': False, 'hook_class': [Rec], 'mssdc_jac': False}, d)
        P = ctl.MS[0].levels[0].prob
        u0 = P.dtype_u(P.init)
        u0[0] = SymReal(x)
        try:
            u, stats = ctl.run(u0, SymReal(t0), SymReal(Tend))
        except ConvergenceError:
            return dict(status='crash', log=list(LOG))
        return dict(status='ok', log=list(LOG), u=u[0])
    finally:
        EstimateEmbeddedError.get_implementation = orig
        c09._PowReal.ORDER[0] = None


if __name__ == '__main__':
    NP, MAXR, CRASH, N, order = int(sys.argv[1]), int(sys.argv[2]), bool(int(sys.argv[3])), int(sys.argv[4]), int(sys.argv[5])
    t0, dt, Tend, dmin, dmax, x = z3.Reals('t0 dt Tend dmin dmax x')
    pre = [dt > 0, dmin > 0, dmax >= dmin, dt >= dmin, dt <= dmax, Tend - rv(c06.EPS10) > t0, t0 + N * dmin >= Tend]

    def fn(c):
        for a in pre:
            c.add(a)
        r = run(c, NP, MAXR, CRASH, t0, dt, Tend, dmin, dmax, x, order)
        return r

    T0 = time.time()
    paths = explore(fn, max_paths=5000)
    print('paths', len(paths), 'time', time.time() - T0)
    from collections import Counter
    print(Counter((p.result['status'], len(p.result['log'])) for p in paths))
    p = paths[len(paths) // 2]
    for l in p.result['log']:
        print({k: (str(v)[:60]) for k, v in l.items()})

import logging
from pySDC.implementations.controller_classes.controller_nonMPI import controller_nonMPI
from pySDC.implementations.problem_classes.TestEquation_0D import testequation0d
from pySDC.implementations.sweeper_classes.generic_implicit import generic_implicit
from pySDC.helpers.stats_helper import get_sorted
import numpy as np
def run(t0,dt,Tend,nprocs=1):
    desc=dict(problem_class=testequation0d, problem_params={'lambdas':np.array([-1.0]),'u0':1.0}, sweeper_class=generic_implicit,
      sweeper_params={'num_nodes':2,'quad_type':'RADAU-RIGHT'}, level_params={'dt':dt,'restol':-1}, step_params={'maxiter':1})
    c=controller_nonMPI(nprocs, {'logger_level':40}, desc)
    P=c.MS[0].levels[0].prob
    u,stats=c.run(P.u_exact(0),t0,Tend)
    n=get_sorted(stats,type='niter')
    return len(n), n[-1][0]
print(run(0,0.1,10.0))
print(run(0,0.1,1.0))
print(run(0,0.1,3.0), run(0,0.1,3.0,4))
print(run(1000.0,0.1,1000.3))

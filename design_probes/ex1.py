import time, sys, logging
import numpy as np, z3
from pySDC.implementations.controller_classes.controller_nonMPI import controller_nonMPI
from pySDC.implementations.problem_classes.TestEquation_0D import testequation0d
from pySDC.implementations.sweeper_classes.generic_implicit import generic_implicit
from pySDC.implementations.transfer_classes.TransferMesh_NoCoarse import mesh_to_mesh
from pySDC.core.convergence_controller import ConvergenceController
from pySDC.core.hooks import Hooks

class Ctx:
    def __init__(s): s.prefix=[]; s.pos=0; s.pc=[]; s.solver=z3.Solver(); s.queries=0
CTX=None
class SymBool:
    def __init__(s,t): s.t=t
    def __bool__(s):
        c=CTX
        if c.pos < len(c.prefix):
            v=c.prefix[c.pos]
        else:
            # feasibility of both
            c.solver.push(); c.solver.add(s.t); ft = c.solver.check()==z3.sat; c.solver.pop()
            c.solver.push(); c.solver.add(z3.Not(s.t)); ff = c.solver.check()==z3.sat; c.solver.pop()
            c.queries+=2
            if ft and ff: v=True; c.prefix.append(True); c.alts.append(len(c.prefix)-1)
            elif ft: v=True; c.prefix.append(True)
            else: v=False; c.prefix.append(False)
        c.pos+=1
        c.solver.add(s.t if v else z3.Not(s.t)); c.pc.append(s.t if v else z3.Not(s.t))
        return v

def explore(fn):
    global CTX
    work=[[]]; paths=[]; q=0
    while work:
        pre=work.pop()
        CTX=Ctx(); CTX.prefix=list(pre); CTX.alts=[]
        res=fn()
        q+=CTX.queries
        paths.append((z3.And(CTX.pc) if CTX.pc else z3.BoolVal(True),res))
        for i in CTX.alts:
            work.append(CTX.prefix[:i]+[False])
    return paths,q

NP=int(sys.argv[1]); MAXIT=int(sys.argv[2]); NL=int(sys.argv[3])
class Oracle(ConvergenceController):
    def setup(self, controller, params, description, **kw):
        return {'control_order': 250, **super().setup(controller, params, description, **kw)}
    def check_iteration_status(self, controller, S, **kw):
        k = S.status.iter; p = S.status.slot
        S.status.done = (k >= S.params.maxiter) or bool(SymBool(z3.Bool(f'c_{p}_{k}')))
LOG=[]
class Rec(Hooks):
    def post_step(self, step, level_number):
        super().post_step(step, level_number); LOG.append((step.status.slot, step.status.iter))
def fn():
    LOG.clear()
    desc=dict(problem_class=testequation0d, problem_params={'lambdas':np.array([-1.0]),'u0':1.0}, sweeper_class=generic_implicit,
      sweeper_params={'num_nodes':[2,1][:NL] if NL>1 else 2,'quad_type':'RADAU-RIGHT'}, level_params={'dt':0.1,'restol':-1}, step_params={'maxiter':MAXIT},
      convergence_controllers={Oracle:{}})
    if NL>1: desc['space_transfer_class']=mesh_to_mesh
    c=controller_nonMPI(NP, {'logger_level':40,'hook_class':[Rec],'predict_type': 'pfasst_burnin' if NL>1 else None}, desc)
    P = c.MS[0].levels[0].prob
    c.run(P.u_exact(0), 0.0, 0.1*NP)
    order=[s for s,_ in LOG]
    assert order==sorted(order) and len(order)==NP, LOG
    return list(LOG)
t=time.time(); paths,q=explore(fn); dt=time.time()-t
s=z3.Solver(); s.add(z3.Not(z3.Or([p for p,_ in paths]))); 
print('paths',len(paths),'queries',q,'time',round(dt,2),'cover-complete:',s.check())

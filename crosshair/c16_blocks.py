"""CrossHair contracts for pySDC.helpers.blocks.BlockDecomposition (C16, block decomposition clause) -- real code is called"""
from typing import List, Tuple

from pySDC.helpers.blocks import BlockDecomposition


class _B(BlockDecomposition):
    r = 0

    @property
    def ranks(self):
        return [self.r]


def _bounds(nPoints: int, nBlocks: int, rank: int) -> Tuple[int, int]:
    b = BlockDecomposition.__new__(_B)
    b.gridSizes = [nPoints]
    b.nBlocks = [nBlocks]
    b.r = rank
    (i0,), (n0,) = b.localBounds
    return i0, n0


def bounds_contiguous(nPoints: int, nBlocks: int, rank: int) -> Tuple[int, int, int, int]:
    """
    pre: 1 <= nBlocks <= 64 and nPoints >= 1 and 0 <= rank < nBlocks - 1
    post: _[0] + _[1] == _[2]
    post: _[1] >= 0 and _[3] >= 0
    """
    i0, n0 = _bounds(nPoints, nBlocks, rank)
    i1, n1 = _bounds(nPoints, nBlocks, rank + 1)
    return (i0, n0, i1, n1)


def bounds_ends(nPoints: int, nBlocks: int) -> Tuple[int, int, int]:
    """
    pre: 1 <= nBlocks <= 64 and nPoints >= 1
    post: _[0] == 0
    post: _[1] + _[2] == nPoints
    """
    i0, n0 = _bounds(nPoints, nBlocks, 0)
    iL, nL = _bounds(nPoints, nBlocks, nBlocks - 1)
    return (i0, iL, nL)


def bounds_balanced(nPoints: int, nBlocks: int, rank: int) -> Tuple[int, int]:
    """
    pre: 1 <= nBlocks <= 64 and nPoints >= nBlocks and 0 <= rank < nBlocks
    post: _[1] >= 1
    post: _[1] == nPoints // nBlocks or _[1] == nPoints // nBlocks + 1
    """
    return _bounds(nPoints, nBlocks, rank)


def bounds_witness(nPoints: int, nBlocks: int, rank: int) -> Tuple[int, int]:
    """
    pre: 1 <= nBlocks <= 64 and nPoints >= nBlocks and 0 <= rank < nBlocks
    post: False
    """
    return _bounds(nPoints, nBlocks, rank)


def hybrid_product_1d(nProcs: int, a: int) -> List[int]:
    """
    pre: 1 <= nProcs <= 64 and 1 <= a <= 4096
    post: len(_) == 1 and _[0] == nProcs
    """
    return BlockDecomposition(nProcs, [a], algo='Hybrid').nBlocks


def hybrid_product_2d(nProcs: int, a: int, b: int) -> List[int]:
    """
    pre: 1 <= nProcs <= 32 and 1 <= a <= 256 and 1 <= b <= 256
    post: len(_) == 2 and _[0] * _[1] == nProcs
    post: all(x >= 1 for x in _)
    """
    return BlockDecomposition(nProcs, [a, b], algo='Hybrid').nBlocks


def hybrid_product_3d(nProcs: int, a: int, b: int, c: int) -> List[int]:
    """
    pre: 1 <= nProcs <= 16 and 1 <= a <= 64 and 1 <= b <= 64 and 1 <= c <= 64
    post: len(_) == 3 and _[0] * _[1] * _[2] == nProcs
    post: all(x >= 1 for x in _)
    """
    return BlockDecomposition(nProcs, [a, b, c], algo='Hybrid').nBlocks


def hybrid_witness(nProcs: int, a: int, b: int) -> List[int]:
    """
    pre: 1 <= nProcs <= 32 and 1 <= a <= 256 and 1 <= b <= 256
    post: False
    """
    return BlockDecomposition(nProcs, [a, b], algo='Hybrid').nBlocks


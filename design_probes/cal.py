import numpy as np, logging
from fractions import Fraction as Fr
from pySDC.core.collocation import CollBase
logging.disable(logging.CRITICAL)
def errs(M,nt,qt,a,b):
    c=CollBase(M,a,b,node_type=nt,quad_type=qt)
    nodes=[Fr(float(x)) for x in c.nodes]; w=[Fr(float(x)) for x in c.weights]; A,B=Fr(a),Fr(b); h=B-A
    ew=0; eq=0
    # use scaled monomials ((t-a)/h)^k so coefficients in [-1,1] are meaningful
    for k in range(c.order):
        ex=h/(k+1); ap=sum(wj*((tj-A)/h)**k for wj,tj in zip(w,nodes)); ew=max(ew,abs(float((ap-ex)/h)))
    for k in range(M):
        for m in range(M):
            ex=h*((nodes[m]-A)/h)**(k+1)/(k+1); ap=sum(Fr(float(c.Qmat[m+1,j+1]))*((nodes[j]-A)/h)**k for j in range(M)); eq=max(eq,abs(float((ap-ex)/h)))
    return ew,eq
worst={}
for nt in ['EQUID','LEGENDRE','CHEBY-1','CHEBY-2','CHEBY-3','CHEBY-4']:
    for qt in ['GAUSS','LOBATTO','RADAU-LEFT','RADAU-RIGHT']:
        for M in range(1,9):
            if qt=='LOBATTO' and M<2: continue
            for (a,b) in [(0,1),(-3,-1),(1000,1000.1),(-1,7)]:
                try: ew,eq=errs(M,nt,qt,a,b)
                except Exception as e: print('ERR',nt,qt,M,a,b,str(e)[:60]); continue
                k=(M,(a,b)); worst[k]=max(worst.get(k,(0,0)),(ew,eq),key=lambda x:max(x))
for M in range(1,9):
    print(M,{ab:('%.1e'%worst[(M,ab)][0],'%.1e'%worst[(M,ab)][1]) for ab in [(0,1),(-3,-1),(1000,1000.1),(-1,7)] if (M,ab) in worst})

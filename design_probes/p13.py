import time, numpy as np, z3, sys, logging, math
from fractions import Fraction
from symx import *
exec(open('p4.py').read().split("def check(")[0].split("from symx import *")[1])
def spec(L,z,K,cls):
    M=L.sweep.coll.num_nodes; Q=L.sweep.coll.Qmat
    QD=L.sweep.QI if cls is generic_implicit else L.sweep.QE
    U=[z3.RealVal(1)]*(M+1)
    for k in range(K):
        Un=[z3.RealVal(1)]+[None]*M
        for m in range(1,M+1):
            rhs=z3.RealVal(1)+z*sum((R(Q[m,j])-R(QD[m,j]))*U[j] for j in range(1,M+1))+z*sum(R(QD[m,j])*Un[j] for j in range(1,m))
            if cls is explicit:
                rhs=rhs+z*(R(Q[m,0])-R(QD[m,0]))*U[0]+z*R(QD[m,0])*Un[0]
            Un[m]=rhs/(1-z*R(QD[m,m]))
        U=Un
    return U[M]
for cls,qd in ((generic_implicit,'LU'),(generic_implicit,'IE'),(explicit,'EE')):
    for M,K in ((3,4),(4,5),(5,7)):
        z,Rz,p,L=stab(cls,M,qd,K)
        Sz=spec(L,z,K,cls)
        s=z3.Solver(); s.set('timeout',300000)
        if cls is generic_implicit:
            for m in range(1,M+1): s.add(1-R(L.sweep.QI[m,m])*z!=0)
        s.add(Rz!=Sz); t=time.time(); r=s.check(); print(cls.__name__,qd,M,K,r,round(time.time()-t,2),flush=True)
# mutant: perturb impl's Q after spec built? -> perturb spec
z,Rz,p,L=stab(generic_implicit,3,'LU',4); L.sweep.coll.Qmat[2,1]+=1e-9; Sz=spec(L,z,4,generic_implicit)
s=z3.Solver(); s.add(Rz!=Sz)
for m in range(1,4): s.add(1-R(L.sweep.QI[m,m])*z!=0)
t=time.time(); print('mutant',s.check(),round(time.time()-t,2), s.model()[z])

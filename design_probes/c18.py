import numpy as np
from pySDC.helpers.problem_helper import get_finite_difference_matrix, get_finite_difference_stencil
c,s=get_finite_difference_stencil(derivative=1, steps=np.array([-3,-1,1,3]))
print('weights',c,'steps',s)
A,b=get_finite_difference_matrix(derivative=1, order=None, steps=np.array([-3,-1,1,3]), dx=1.0, size=8, dim=1, bc='periodic')
print(A.toarray()[0])
exp=np.zeros(8)
for w,k in zip(c,s): exp[k%8]+=w
print('expected row0', exp)

from typing import Dict, List, Tuple, Optional
from pySDC.helpers.stats_helper import filter_stats, sort_stats, get_list_of_types
from pySDC.core.hooks import Entry
from pySDC.helpers.pysdc_helper import FrozenClass

def mk(keys: List[Tuple[int, int, int]]) -> Dict[Entry, int]:
    return {Entry(process=0, process_sweeper=0, time=t, level=l, iter=k, sweep=1, type='a' if k % 2 else 'b', num_restarts=0): i
            for i, (t, l, k) in enumerate(keys)}

def c14_filter(keys: List[Tuple[int, int, int]], lev: Optional[int], it: Optional[int]) -> Dict[Entry, int]:
    """
    pre: len(keys) <= 3
    post: all((lev is None or k.level == lev) and (it is None or k.iter == it) for k in _)
    post: all((k in _) == ((lev is None or k.level == lev) and (it is None or k.iter == it)) for k in mk(keys))
    """
    return filter_stats(mk(keys), level=lev, iter=it)

def c14_sort(keys: List[Tuple[int, int, int]]) -> List[Tuple[int, int]]:
    """
    pre: len(keys) <= 3
    post: all(_[i][0] <= _[i + 1][0] for i in range(len(_) - 1))
    post: len(_) == len(mk(keys))
    """
    return sort_stats(mk(keys), sortby='time')

class _P(FrozenClass):
    def __init__(self):
        self.a = 1
        self._freeze()

def c20_frozen(name: str) -> bool:
    """
    pre: len(name) <= 2 and name.isidentifier()
    post: _ == (name == 'a')
    """
    p = _P()
    try:
        setattr(p, name, 5)
        return True
    except TypeError:
        return False

"""prototype 2: affine normal form SymReal"""
import numpy as np, z3
from fractions import Fraction
from symx import Ctx, SymBool, explore
def fr(x):
    if isinstance(x, Fraction): return x
    if isinstance(x,(int,np.integer)): return Fraction(int(x))
    return Fraction(float(x))
def rv(f): return z3.RealVal(f"{f.numerator}/{f.denominator}")
VARS={}
def var(name):
    VARS.setdefault(name, z3.Real(name)); return A({name:Fraction(1)},Fraction(0))
class A:
    __slots__=('c','k')
    def __init__(s,c,k): s.c=c; s.k=k
    @staticmethod
    def lift(o): return o if isinstance(o,A) else A({},fr(o))
    @property
    def t(s):
        e=rv(s.k)
        for n,c in s.c.items(): e=e+rv(c)*VARS[n]
        return e
    def _add(s,o,sg=1):
        o=A.lift(o); c=dict(s.c)
        for n,v in o.c.items():
            w=c.get(n,0)+sg*v
            if w==0: c.pop(n,None)
            else: c[n]=w
        return A(c,s.k+sg*o.k)
    def __add__(s,o):
        if isinstance(o,np.ndarray): return NotImplemented
        return s._add(o)
    __radd__=__add__
    def __sub__(s,o):
        if isinstance(o,np.ndarray): return NotImplemented
        return s._add(o,-1)
    def __rsub__(s,o): return A.lift(o)._add(s,-1)
    def __neg__(s): return A({n:-v for n,v in s.c.items()},-s.k)
    def __mul__(s,o):
        if isinstance(o,np.ndarray): return NotImplemented
        o=A.lift(o)
        if o.c and s.c: raise NotImplementedError('nonlinear')
        if o.c: s,o=o,s
        f=o.k
        if f==0: return A({},Fraction(0))
        return A({n:v*f for n,v in s.c.items()},s.k*f)
    __rmul__=__mul__
    def __truediv__(s,o):
        if isinstance(o,np.ndarray): return NotImplemented
        o=A.lift(o); assert not o.c
        return s*(1/o.k)
    def _cmp(op):
        def g(s,o):
            if isinstance(o,np.ndarray): return NotImplemented
            d=s._add(o,-1)
            if not d.c: return SymBool(z3.BoolVal(bool(op(d.k,0))))
            return SymBool(op(d.t,0))
        return g
    import operator as _o
    __lt__=_cmp(_o.lt); __le__=_cmp(_o.le); __gt__=_cmp(_o.gt); __ge__=_cmp(_o.ge); __eq__=_cmp(_o.eq); __ne__=_cmp(_o.ne)
    __hash__=None
    def __abs__(s):
        if not s.c: return A({},abs(s.k))
        c=Ctx.cur; c.nabs=getattr(c,'nabs',0)+1; n=f'_abs{c.nabs}'; a=var(n)
        c.add(z3.And(a.t>=s.t, a.t>=-s.t, z3.Or(a.t==s.t,a.t==-s.t)))
        return a
def amax(xs):
    c=Ctx.cur; c.nmax=getattr(c,'nmax',0)+1; n=f'_max{c.nmax}'; m=var(n)
    c.add(z3.And(*[m.t>=x.t for x in xs], z3.Or(*[m.t==x.t for x in xs])))
    return m

import numpy as np, logging, itertools
logging.disable(50)
from pySDC.core.level import Level
from pySDC.implementations.problem_classes.TestEquation_0D import testequation0d, test_equation_IMEX
from pySDC.implementations.sweeper_classes.generic_implicit import generic_implicit
from pySDC.implementations.sweeper_classes.explicit import explicit
from pySDC.implementations.sweeper_classes.imex_1st_order import imex_1st_order
rng=np.random.default_rng(0)
bad=[]
lam=np.array([-1.3,0.7-2j]); lamE=np.array([0.4,-0.2+1j])
def setup(cls,prob,pp,sp,dt=0.3):
    L=Level(prob,pp,cls,sp,{'dt':dt},0); P=L.prob; L.status.time=0.2; L.status.unlocked=True
    M=L.sweep.coll.num_nodes
    L.u[0]=P.dtype_u(P.init); L.u[0][:]=rng.normal(size=2)+1j*rng.normal(size=2); L.f[0]=P.eval_f(L.u[0],0)
    for m in range(1,M+1):
        L.u[m]=P.dtype_u(P.init); L.u[m][:]=rng.normal(size=2)+1j*rng.normal(size=2); L.f[m]=P.eval_f(L.u[m],0)
    return L,P,M
for nt in ('LEGENDRE','EQUID'):
  for qt in ('RADAU-RIGHT','LOBATTO','GAUSS','RADAU-LEFT'):
    for M in (2,3,4):
      for tau in (False,True):
        for coll_upd in (False,True):
          for cls,qds in ((generic_implicit,['IE','LU','MIN-SR-S','MIN-SR-NS','PIC','TRAP']),(explicit,['EE','PIC']),(imex_1st_order,['IE','LU'])):
            for qd in qds:
              try:
                sp={'num_nodes':M,'quad_type':qt,'node_type':nt,'do_coll_update':coll_upd}
                if cls is explicit: sp['QE']=qd
                else: sp['QI']=qd
                if cls is imex_1st_order: L,P,M_=setup(cls,test_equation_IMEX,{'lambdas_implicit':lam,'lambdas_explicit':lamE},sp)
                else: L,P,M_=setup(cls,testequation0d,{'lambdas':lam},sp)
              except Exception as e:
                bad.append(('setup',cls.__name__,nt,qt,M,qd,type(e).__name__,str(e)[:60])); continue
              dt=L.dt; Q=L.sweep.coll.Qmat[1:,1:]; S_=L.sweep
              if tau:
                  for m in range(M): L.tau[m]=P.dtype_u(P.init); L.tau[m][:]=rng.normal(size=2)
              U0=np.array([L.u[m].copy() for m in range(1,M+1)]); u0=L.u[0].copy()
              T=np.array([L.tau[m] if tau else 0*u0 for m in range(M)])
              S_.update_nodes()
              Un=np.array([L.u[m] for m in range(1,M+1)])
              for c in range(2):
                  if cls is generic_implicit:
                      QD=S_.QI[1:,1:]; lhs=(np.eye(M)-dt*lam[c]*QD)@Un[:,c]; rhs=u0[c]+dt*lam[c]*(Q-QD)@U0[:,c]+T[:,c]
                  elif cls is explicit:
                      QD=S_.QE[1:,1:]; q0=S_.QE[1:,0]; lhs=Un[:,c]-dt*lam[c]*QD@Un[:,c]-dt*lam[c]*q0*u0[c]; rhs=u0[c]+dt*lam[c]*(Q-QD)@U0[:,c]-dt*lam[c]*q0*u0[c]+T[:,c]
                  else:
                      QI=S_.QI[1:,1:]; QE=S_.QE[1:,1:]; q0=S_.QE[1:,0]
                      lhs=Un[:,c]-dt*(lam[c]*QI+lamE[c]*QE)@Un[:,c]-dt*lamE[c]*q0*u0[c]
                      rhs=u0[c]+dt*((lam[c]+lamE[c])*Q-lam[c]*QI-lamE[c]*QE)@U0[:,c]-dt*lamE[c]*q0*u0[c]+T[:,c]
                  if np.abs(lhs-rhs).max()>1e-10: bad.append(('sweep',cls.__name__,nt,qt,M,qd,tau,float(np.abs(lhs-rhs).max()))); break
              # end point
              S_.compute_end_point(); 
              ftot=np.array([(L.f[m].impl+L.f[m].expl) if cls is imex_1st_order else L.f[m] for m in range(1,M+1)])
              if S_.coll.right_is_node and not S_.params.do_coll_update: exp=L.u[M]
              else: exp=u0+dt*S_.coll.weights@ftot+(T[-1] if tau else 0)
              if np.abs(L.uend-exp).max()>1e-10: bad.append(('endpoint',cls.__name__,nt,qt,M,qd,tau,coll_upd))
for b in bad[:25]: print(b)
print(len(bad),'issues')

"""C15 -- ParaDiag diagonalises the all-at-once system and converges to the serial answer   (reduced scope)

(i)   the real QDiagonalization.update_nodes on complex symbolic data solves the linear collocation system for every u0 (tolerance 1e-9: np.linalg.eig);
(ii)  helper tables (engine C): for every complex vector x, weighted iFFT after weighted FFT is the identity, and W E_alpha W^-1 x = D x with D the
      per-step factors that get_G_inv_matrix really uses (extracted from its result);
(iii) one it_ParaDiag iteration of the real controller_ParaDiag_nonMPI on ARBITRARY symbolic iterates equals the alpha-circulant preconditioned
      all-at-once iteration (increment defined by equations inside the query); its fixed point is the sequential collocation solution."""
import json
from fractions import Fraction

import numpy as np
import z3

from symx import core
from symx import pysdc as sp
from symx.core import SymReal, SymComplex, R, rv, frac, Ctx, prove, zabs, zmax, model_value

from pySDC.core.problem import Problem
from pySDC.implementations.datatype_classes.mesh import mesh
import pySDC.helpers.ParaDiagHelper as ph

PID = 'C15'
BOUNDS = {'quick': dict(n_steps='1..6', alpha='1, 1e-2, 1e-8', M='1..3', iteration='(M,L) in (2,2) (2,3) (1,3) (3,2)'), 'thorough': dict(n_steps='1..8', alpha='5 values', M='1..5', iteration='L<=5')}


def describe(rep):
    from pySDC.implementations.sweeper_classes.ParaDiagSweepers import QDiagonalization
    from pySDC.implementations.controller_classes.controller_ParaDiag_nonMPI import controller_ParaDiag_nonMPI as C
    from pySDC.core.controller import ParaDiagController

    rep.func(QDiagonalization.update_nodes, QDiagonalization.mat_vec, QDiagonalization.computeDiagonalization, QDiagonalization.get_residual, ph.get_weighted_FFT_matrix,
             ph.get_weighted_iFFT_matrix, ph.get_E_matrix, ph.get_G_inv_matrix, ph.get_H_matrix, C.it_ParaDiag, C.apply_matrix, C.compute_all_at_once_residual,
             C.update_solution, C.prepare_Jacobians, ParaDiagController.FFT_in_time, ParaDiagController.iFFT_in_time)
    rep.explanation = __doc__
    rep.rule = 'case = (n_steps, alpha) for the tables; (M, n_steps, alpha, dt*lambda) for the sweeper (applied once, or again after the step size of its level changed) / controller iteration (controller fresh, reconfigured to another alpha, or built from a description dictionary an earlier controller was built from); one or two SMT queries (QF_LRA) over all data in the unit box'
    rep.assume('alpha is enumerated (fractional powers cannot be symbolic)', 'tolerances calibrated against measured rounding (1-5 eps cond(J)): (1e-13 cond(J) + 1e-12) L for the tables, 1e-10 + 1e-13 cond(J) for the iteration',
               'linear scalar Dahlquist problem with an exact Jacobian solve; averaged Jacobian is irrelevant for linear problems')
    rep.out_of_scope('alpha symbolic', 'n_steps > 8', 'nonlinear problems / averaged Jacobians', 'converged multi-block runs beyond the one-iteration + fixed-point argument', 'the MPI ParaDiag path')


def tasks(tier, seed):
    T = []
    quick = tier == 'quick'
    for L in (range(1, 7) if quick else range(1, 9)):
        for alpha in ((1.0, 1e-2, 1e-8, 1e-10) if quick else (1.0, 0.5, 1e-2, 1e-4, 1e-8, 1e-10, 1e-12)):
            T.append(('tables', L, alpha))
    for M in ((1, 2, 3) if quick else (1, 2, 3, 4, 5)):
        T.append(('sweeper', M, 'implicit'))
        T.append(('sweeper', M, 'imex'))
        if M >= 2:
            T.append(('sweeper', M, 'implicit', True))  # G_inv installed with set_G_inv after construction
            T.append(('sweeper', M, 'implicit', False, 0.25))  # applied once with step size 0.25, then with the judged one
            T.append(('sweeper', M, 'imex', M == 2, 0.04))
    for (M, L, alpha) in (((2, 2, 1e-2), (2, 3, 1e-4), (1, 3, 0.5), (3, 2, 1e-2), (2, 5, 1e-10), (1, 6, 1e-9)) if quick else ((2, 2, 1e-2), (2, 3, 1e-4), (1, 3, 0.9), (3, 2, 1e-2), (2, 4, 1e-3), (3, 3, 1e-6), (1, 5, 0.5), (2, 5, 1e-10), (1, 7, 1e-9), (1, 8, 1e-10), (2, 4, 1e-12))):
        T.append(('iteration', M, L, alpha))
    for (M, L, alpha) in (((1, 2, 0.5), (2, 3, 1e-2), (1, 4, 1e-4)) if quick else ((1, 2, 0.5), (2, 3, 1e-2), (1, 4, 1e-4), (2, 5, 1e-6), (3, 4, 1e-3))):
        T.append(('roundtrip', M, L, alpha))
    T.append(('wholerun',))
    # an existing controller switched to another alpha (params.alpha + set_G_inv on every step) after it has been used
    for (M, L, alpha, first) in (((2, 3, 1e-1, 1e-4), (1, 4, 1e-3, 0.5)) if quick else ((2, 3, 1e-1, 1e-4), (1, 4, 1e-3, 0.5), (2, 4, 1e-6, 1e-2), (3, 2, 0.5, 1e-8))):
        T.append(('iteration', M, L, alpha, first))
    # a description dictionary used for an earlier controller (other alpha) and handed to the constructor again
    for (M, L, alpha, first) in (((2, 3, 1e-1, 1e-4), (2, 2, 1e-4, 1e-1)) if quick else ((2, 3, 1e-1, 1e-4), (2, 2, 1e-4, 1e-1), (1, 4, 1e-3, 0.5), (3, 3, 1e-2, 1e-6))):
        T.append(('iteration', M, L, alpha, ['shared-description', first]))
    return T


def run_task(rep, task):
    sp.install_shadows()
    if task[0] == 'tables':
        tables_case(rep, task[1], task[2])
    elif task[0] == 'sweeper':
        from harness.c02_rk import diag_case

        diag_case(rep, task[1], task[2], reconf=(len(task) > 3 and bool(task[3])), dt_first=(task[4] if len(task) > 4 else None))
    elif task[0] == 'iteration':
        iteration_case(rep, *task[1:])
    elif task[0] == 'roundtrip':
        roundtrip_case(rep, *task[1:])
    elif task[0] == 'wholerun':
        wholerun_case(rep)


def cbox(vs):
    return [z3.And(v >= -1, v <= 1) for v in vs]


def capply(Mx, xr, xi):
    """complex matrix (numpy) times complex symbolic vector -> (re terms, im terms)"""
    n = Mx.shape[0]
    re, im = [], []
    for i in range(n):
        r = z3.RealVal(0)
        m_ = z3.RealVal(0)
        for j in range(Mx.shape[1]):
            a, b = float(np.real(Mx[i, j])), float(np.imag(Mx[i, j]))
            if a != 0:
                r = r + rv(a) * xr[j]
                m_ = m_ + rv(a) * xi[j]
            if b != 0:
                r = r - rv(b) * xi[j]
                m_ = m_ + rv(b) * xr[j]
        re.append(r)
        im.append(m_)
    return re, im


def tables_case(rep, L, alpha):
    name = f'tables/L{L}/alpha{alpha:g}'
    W = np.asarray(ph.get_weighted_FFT_matrix(L, alpha))
    Wi = np.asarray(ph.get_weighted_iFFT_matrix(L, alpha))
    E = np.asarray(ph.get_E_matrix(L, alpha).todense(), dtype=complex)
    condJ = float(alpha ** (-(L - 1) / L)) if alpha < 1 else 1.0
    # calibrated: the float tables deviate by at most ~4 eps cond(J); the tolerance leaves a factor > 100
    tol = rv((Fraction(1, 10**13) * frac(condJ) + Fraction(1, 10**12)) * L)
    xr = [z3.Real(f'xr{j}') for j in range(L)]
    xi = [z3.Real(f'xi{j}') for j in range(L)]
    # inverse transforms
    a, b = capply(W, xr, xi)
    c, d = capply(Wi, a, b)
    goal = z3.And([z3.And(c[j] - xr[j] <= tol, xr[j] - c[j] <= tol, d[j] - xi[j] <= tol, xi[j] - d[j] <= tol) for j in range(L)])
    res, m = prove(goal, cbox(xr + xi), name=f'{name}:iFFT-after-FFT-is-identity')
    rep.ob(f'{name}:iFFT-after-FFT-is-identity', res)
    if res == 'sat':
        rep.replayed += 1
        dev = float(np.abs(Wi @ W - np.eye(L)).max())
        if dev > (1e-13 * condJ + 1e-12) * L:
            rep.violation(f'{PID}/tables/inverse', f'{name}: |iFFT FFT - I| = {dev:.3e}', {'task': ['tables', L, alpha], 'deviation': dev})
        else:
            rep.unreproduced(name, dev)
    # the factors the local solves use: G_l = D_l H + I  (H has ones in its last column) -> D_l read off the real G_inv
    sweeper_params = {'num_nodes': 2, 'quad_type': 'RADAU-RIGHT'}
    D = []
    for l in range(L):
        try:
            Ginv = np.asarray(ph.get_G_inv_matrix(l, L, alpha, sweeper_params))
        except RuntimeError as e:
            # G_l = D_l H + I is singular (D_l = -1): the local solves of that step cannot be set up at all
            rep.replayed += 1
            rep.violation(f'{PID}/alpha-one-singular', f'{name}: get_G_inv_matrix(l={l}, L={L}, alpha={alpha:g}) raises {type(e).__name__}: {e}',
                          {'task': ['tables', L, alpha], 'l': l, 'exception': str(e)})
            D = None
            break
        G = np.linalg.inv(Ginv)
        D.append(G[0, -1])
        rep.side(f'{name}/G{l}:has-the-form-D*H+I', bool(np.allclose(G - np.eye(2), D[-1] * np.array([[0, 1], [0, 1]]), atol=1e-10 * max(1, abs(D[-1])))))
    if D is None:
        # still decide that the transforms diagonalise E_alpha (off-diagonal part vanishes); the factors cannot be compared
        Dm = W @ E @ Wi
        D = [Dm[l, l] for l in range(L)]
    # diagonalisation: W E_alpha W^-1 x = D x
    a, b = capply(Wi, xr, xi)
    c, d = capply(E, a, b)
    e, f = capply(W, c, d)
    goal = []
    for l in range(L):
        dr, di = float(np.real(D[l])), float(np.imag(D[l]))
        sr = rv(dr) * xr[l] - rv(di) * xi[l]
        si = rv(dr) * xi[l] + rv(di) * xr[l]
        goal += [e[l] - sr <= tol, sr - e[l] <= tol, f[l] - si <= tol, si - f[l] <= tol]
    res, m = prove(z3.And(goal), cbox(xr + xi), name=f'{name}:transforms-diagonalise-E_alpha-with-the-solver-factors')
    rep.ob(f'{name}:transforms-diagonalise-E_alpha-with-the-solver-factors', res)
    if res == 'sat':
        rep.replayed += 1
        dev = float(np.abs(W @ E @ Wi - np.diag(D)).max())
        if dev > (1e-13 * condJ + 1e-12) * L:
            rep.violation(f'{PID}/tables/diagonalisation', f'{name}: |W E_alpha W^-1 - diag(D)| = {dev:.3e}', {'task': ['tables', L, alpha], 'deviation': dev})
        else:
            rep.unreproduced(name, dev)
    if L >= 2:
        D2 = list(D)
        D2[1] = D2[1] + 20 * (1e-13 * condJ + 1e-12) * L  # a deviation of 20 tolerances must be noticed (the tolerance grows with cond(J) = alpha^-(L-1)/L)
        goal2 = []
        dr, di = float(np.real(D2[1])), float(np.imag(D2[1]))
        sr = rv(dr) * xr[1] - rv(di) * xi[1]
        goal2 = [e[1] - sr <= tol, sr - e[1] <= tol]
        res, _ = prove(z3.And(goal2), cbox(xr + xi), name=f'{name}:mutated', kind='vacuity')
        rep.vac(f'{name}:perturbed-factor-refuted', res, 'sat')
    rep.sample({'case': name, 'free': 'complex vector in the unit box', 'tolerance_scale_cond_J': condJ}, limit=4)


# ------------------------------------------------------------------------------------------------ (iii) controller iteration


class CMesh(mesh):
    def __abs__(self):
        ts = []
        for x in np.asarray(self).view(np.ndarray).ravel():
            c = SymComplex.lift(x) if not isinstance(x, (int, float, complex)) else SymComplex(complex(x).real, complex(x).imag)
            ts.append(zabs(c.re) + zabs(c.im))
        return SymReal(zmax(ts))


EVAL_LOG = {'on': None, 'calls': []}


class PDProb(Problem):
    dtype_u = CMesh
    dtype_f = CMesh

    def __init__(self, lam, dtype=sp.ODT):
        super().__init__(init=(1, None, dtype))
        self.lam = lam

    def eval_f(self, u, t):
        if EVAL_LOG['on'] is not None:  # (which node value is evaluated at which time: the right-hand side of this problem does not depend on the time,
            for l, S in enumerate(EVAL_LOG['on']):  # the evaluation TIMES the iteration uses are judged separately)
                Lv = S.levels[0]
                for m, x in enumerate(Lv.u):
                    if x is u:
                        EVAL_LOG['calls'].append((l, m, float(t), float(Lv.time + (Lv.dt * Lv.sweep.coll.nodes[m - 1] if m else 0.0))))
        f = self.dtype_f(self.init)
        f[:] = u * self.lam
        return f

    def solve_jacobian(self, rhs, factor, u=None, t=0):
        me = self.dtype_u(self.init)
        me[:] = rhs / (1 - factor * self.lam)
        return me

    solve_system = solve_jacobian

    def u_exact(self, t):
        me = self.dtype_u(self.init)
        me[:] = 1.0
        return me


class FPDProb(PDProb):
    dtype_u = mesh
    dtype_f = mesh

    def __init__(self, lam):
        super().__init__(lam, dtype=np.dtype('complex128'))


def build_ctl(M, L, alpha, lam, dt, float_mode=False, desc=None):
    from pySDC.implementations.controller_classes.controller_ParaDiag_nonMPI import controller_ParaDiag_nonMPI
    from pySDC.implementations.sweeper_classes.ParaDiagSweepers import QDiagonalization

    d = dict(problem_class=FPDProb if float_mode else PDProb, problem_params={'lam': lam}, sweeper_class=QDiagonalization,
             sweeper_params={'num_nodes': M, 'quad_type': 'RADAU-RIGHT'}, level_params={'dt': dt, 'restol': -1}, step_params={'maxiter': 1})
    if desc is not None:  # (a description dictionary shared by several controllers: filled on first use, handed to the constructor as it is afterwards)
        if not desc:
            desc.update(d)
        d = desc
    return controller_ParaDiag_nonMPI(L, {'logger_level': 50, 'dump_setup': False, 'alpha': alpha, 'average_jacobian': False}, d)


def one_iteration(ctl, u0, U):
    """arbitrary iterate U[l][m] on all steps, then the real it_ParaDiag"""
    L = len(ctl.MS)
    P = ctl.MS[0].levels[0].prob
    M = ctl.MS[0].levels[0].sweep.coll.num_nodes
    dt = ctl.MS[0].levels[0].dt
    init = P.dtype_u(P.init)
    init[:] = u0
    ctl.restart_block(list(range(L)), [l * dt for l in range(L)], init)
    for l, S in enumerate(ctl.MS):
        Lv = S.levels[0]
        Lv.f[0] = P.eval_f(Lv.u[0], 0.0)
        for m in range(1, M + 1):
            Lv.u[m] = P.dtype_u(P.init)
            Lv.u[m][:] = U[l][m - 1]
            Lv.f[m] = P.eval_f(Lv.u[m], 0.0)
        Lv.status.unlocked = True
        S.status.iter = 1
        S.status.stage = 'IT_PARADIAG'
    EVAL_LOG['on'], EVAL_LOG['calls'] = list(ctl.MS), []
    try:
        ctl.it_ParaDiag(ctl.MS)
    finally:
        EVAL_LOG['on'] = None
    return [[ctl.MS[l].levels[0].u[m][0] for m in range(1, M + 1)] for l in range(L)]


def wholerun_case(rep):
    """a converged ParaDiag run over SEVERAL blocks from a start time t0 (also t0 != 0) returns the values of sequential collocation stepping over [t0, Tend], and
    its blocks tile that interval (real float classes; concrete, ENUMERATED: the block sequencing of the controller is not reached by the one-iteration cases)"""
    from pySDC.core.hooks import Hooks
    from pySDC.implementations.controller_classes.controller_ParaDiag_nonMPI import controller_ParaDiag_nonMPI
    from pySDC.implementations.controller_classes.controller_nonMPI import controller_nonMPI
    from pySDC.implementations.sweeper_classes.ParaDiagSweepers import QDiagonalization
    from pySDC.implementations.sweeper_classes.generic_implicit import generic_implicit

    starts = []

    class RecT(Hooks):
        def pre_step(self, step, level_number):
            super().pre_step(step, level_number)
            starts.append(float(step.levels[0].time))

    for (L, M, alpha, lam, dt, t0, nblocks) in ((2, 2, 1e-4, -1.0 + 0.5j, 0.25, 0.0, 2), (2, 2, 1e-4, -1.0 + 0.5j, 0.25, 0.7, 2), (3, 1, 1e-6, -2.0, 0.125, -2.0, 3), (2, 3, 1e-3, -0.5j, 0.25, 1.5, 2)):
        name = f'wholerun/L{L}/M{M}/alpha{alpha:g}/t0={t0:g}/{nblocks}blocks'
        Tend = t0 + L * nblocks * dt
        try:
            starts.clear()
            d = dict(problem_class=FPDProb, problem_params={'lam': lam}, sweeper_class=QDiagonalization, sweeper_params={'num_nodes': M, 'quad_type': 'RADAU-RIGHT'},
                     level_params={'dt': dt, 'restol': 1e-12}, step_params={'maxiter': 60})
            ctl = controller_ParaDiag_nonMPI(L, {'logger_level': 50, 'dump_setup': False, 'alpha': alpha, 'average_jacobian': False, 'hook_class': [RecT]}, d)
            P = ctl.MS[0].levels[0].prob
            u0 = P.dtype_u(P.init)
            u0[:] = 1.0 + 0.25j
            up, _ = ctl.run(u0, t0, Tend)
            got_starts = sorted(set(round(x, 12) for x in starts))
            d2 = dict(problem_class=FPDProb, problem_params={'lam': lam}, sweeper_class=generic_implicit, sweeper_params={'num_nodes': M, 'quad_type': 'RADAU-RIGHT', 'QI': 'LU'},
                      level_params={'dt': dt, 'restol': 1e-13}, step_params={'maxiter': 80})
            seq = controller_nonMPI(1, {'logger_level': 50, 'dump_setup': False}, d2)
            Ps = seq.MS[0].levels[0].prob
            v0 = Ps.dtype_u(Ps.init)
            v0[:] = 1.0 + 0.25j
            us, _ = seq.run(v0, t0, Tend)
            dev = float(abs(complex(up[0]) - complex(us[0])))
            exp_starts = [round(t0 + k * dt, 12) for k in range(L * nblocks)]
            rep.translator += 1
            if dev > 1e-9 or got_starts != exp_starts:
                rep.replayed += 1
                rep.violation(f'{PID}/whole-run/{"block-times" if got_starts != exp_starts else "value"}', f'{name}: ParaDiag returns {complex(up[0])!r}, sequential collocation stepping {complex(us[0])!r} (difference {dev:.3e}); step start times {got_starts}, expected {exp_starts}',
                              {'task': ['wholerun'], 'L': L, 'M': M, 'alpha': alpha, 't0': t0, 'blocks': nblocks, 'deviation': dev})
        except Exception as e:
            rep.side(name + ':runs', False, f'{type(e).__name__}: {e}')


def roundtrip_case(rep, M, L, alpha):
    """the data-level transforms of the real controller (FFT_in_time / iFFT_in_time on the step data, not only the helper matrices) are inverse to each
    other on ARBITRARY COMPLEX data: forward then backward on symbolic complex residuals returns them (real and imaginary parts decided by the solver)"""
    name = f'roundtrip/M{M}/L{L}/alpha{alpha:g}'
    re = [[z3.Real(f'xr_{l}_{m}') for m in range(M)] for l in range(L)]
    im = [[z3.Real(f'xi_{l}_{m}') for m in range(M)] for l in range(L)]
    c = Ctx()
    Ctx.cur = c
    try:
        ctl = build_ctl(M, L, alpha, -1.5, 0.2)
        P = ctl.MS[0].levels[0].prob
        for l, S in enumerate(ctl.MS):
            for m in range(M):
                x = P.dtype_u(P.init)
                x[0] = SymComplex(re[l][m], im[l][m])
                S.levels[0].residual[m] = x
        for quantity in ('residual',):
            ctl.FFT_in_time(quantity=quantity)
            ctl.iFFT_in_time(quantity=quantity)
        out = [[SymComplex.lift(ctl.MS[l].levels[0].residual[m][0]) for m in range(M)] for l in range(L)]
    finally:
        Ctx.cur = None
    rep.paths += 1
    condJ = float(alpha ** (-(L - 1) / L)) if alpha < 1 else 1.0
    tol = rv(Fraction(1, 10**10) + Fraction(1, 10**13) * frac(condJ))
    goal = []
    for l in range(L):
        for m in range(M):
            goal += [out[l][m].re - re[l][m] <= tol, re[l][m] - out[l][m].re <= tol, out[l][m].im - im[l][m] <= tol, im[l][m] - out[l][m].im <= tol]
    allv = [v for row in re + im for v in row]
    res, m_ = prove(z3.And(goal), cbox(allv), timeout_ms=120000, name=f'{name}:backward-after-forward-is-identity-on-complex-data')
    rep.ob(f'{name}:backward-after-forward-is-identity-on-complex-data', res)
    if res == 'sat':
        rep.replayed += 1
        env = {str(v): float(model_value(m_, v)) for v in allv}
        ctl = build_ctl(M, L, alpha, -1.5, 0.2, float_mode=True)
        P = ctl.MS[0].levels[0].prob
        for l, S in enumerate(ctl.MS):
            for m in range(M):
                x = P.dtype_u(P.init)
                x[0] = complex(env[f'xr_{l}_{m}'], env[f'xi_{l}_{m}'])
                S.levels[0].residual[m] = x
        ctl.FFT_in_time(quantity='residual')
        ctl.iFFT_in_time(quantity='residual')
        dev = max(abs(complex(ctl.MS[l].levels[0].residual[m][0]) - complex(env[f'xr_{l}_{m}'], env[f'xi_{l}_{m}'])) for l in range(L) for m in range(M))
        if dev > 1e-9 + 1e-12 * condJ:
            rep.violation(f'{PID}/transforms-on-step-data/inverse', f'{name}: iFFT_in_time(FFT_in_time(x)) differs from x by {dev:.3e} on complex step data', {'task': ['roundtrip', M, L, alpha], 'env': env, 'deviation': dev})
        else:
            rep.unreproduced(name, {'dev': dev})


def reconfigure(ctl, alpha):
    """switch an existing controller to another alpha the way the code provides for it: the parameter and the per-step solver factors"""
    L = len(ctl.MS)
    ctl.params.alpha = alpha
    for l, S in enumerate(ctl.MS):
        S.levels[0].sweep.set_G_inv(ph.get_G_inv_matrix(l, L, alpha, ctl.description['sweeper_params']))


def iteration_case(rep, M, L, alpha, first=None):
    """first: the controller is built (and used for one iteration) with this alpha, then reconfigured to alpha; the judged iteration is the next one"""
    name = f'iteration/M{M}/L{L}/alpha{alpha:g}' + ('' if first is None else f'/description-used-before-with-alpha{first[1]:g}' if isinstance(first, (list, tuple)) else f'/after-alpha{first:g}')
    lam, dt = -1.5, 0.2
    u0v = z3.Real('u0')
    Uv = [[z3.Real(f'U_{l}_{m}') for m in range(M)] for l in range(L)]
    c = Ctx()
    Ctx.cur = c
    try:
        if isinstance(first, (list, tuple)):  # ['shared-description', alpha1]: another controller (other alpha) was built from the SAME description dictionary before
            shared = {}
            other = build_ctl(M, L, first[1], lam, dt, desc=shared)
            one_iteration(other, SymReal(u0v), [[SymReal(v) for v in row] for row in Uv])
            ctl = build_ctl(M, L, alpha, lam, dt, desc=shared)
        else:
            ctl = build_ctl(M, L, alpha if first is None else first, lam, dt)
            if first is not None:
                one_iteration(ctl, SymReal(u0v), [[SymReal(v) for v in row] for row in Uv])
                reconfigure(ctl, alpha)
        out = one_iteration(ctl, SymReal(u0v), [[SymReal(v) for v in row] for row in Uv])
        Q = np.array(ctl.MS[0].levels[0].sweep.coll.Qmat)
        calls = list(EVAL_LOG['calls'])
    finally:
        Ctx.cur = None
    rep.paths += 1
    # every right-hand side evaluation of the iteration takes the time of the node whose value it evaluates (matters for non-autonomous problems)
    wrong = [c_ for c_ in calls if abs(c_[2] - c_[3]) > 1e-12]
    rep.side(f'{name}:right-hand-side-evaluated-at-the-time-of-its-node', bool(calls) and not wrong, {'evaluations': len(calls), 'wrong (step, node, time used, node time)': wrong[:4]})
    z = rv(frac(lam) * frac(dt))
    # residual of the all-at-once system and the alpha-circulant preconditioned increment, defined by equations
    r = [[(u0v if l == 0 else Uv[l - 1][M - 1]) + z * sum(rv(Q[m + 1, j + 1]) * Uv[l][j] for j in range(M)) - Uv[l][m] for m in range(M)] for l in range(L)]
    dv = [[z3.Real(f'd_{l}_{m}') for m in range(M)] for l in range(L)]
    defs = []
    for l in range(L):
        for m in range(M):
            prev = dv[l - 1][M - 1] if l > 0 else rv(alpha) * dv[L - 1][M - 1]
            defs.append(dv[l][m] - z * sum(rv(Q[m + 1, j + 1]) * dv[l][j] for j in range(M)) - prev == r[l][m])
    condJ = float(alpha ** (-(L - 1) / L)) if alpha < 1 else 1.0
    # calibrated: the real float iteration deviates from the exact one by 1-5 eps cond(J)
    tol = rv(Fraction(1, 10**10) + Fraction(1, 10**13) * frac(condJ))
    goal = []
    for l in range(L):
        for m in range(M):
            o = SymComplex.lift(out[l][m])
            spec = Uv[l][m] + dv[l][m]
            goal += [o.re - spec <= tol, spec - o.re <= tol, o.im <= tol, -o.im <= tol]
    allv = [u0v] + [v for row in Uv for v in row]
    res, m_ = prove(z3.And(goal), defs + cbox(allv), timeout_ms=180000, name=f'{name}:one-iteration-is-the-preconditioned-all-at-once-iteration')
    rep.ob(f'{name}:one-iteration-is-the-preconditioned-all-at-once-iteration', res)
    if res == 'sat':
        rep.replayed += 1
        env = {str(v): float(model_value(m_, v)) for v in allv}
        dev = float_iteration(M, L, alpha, lam, dt, env, first)
        if dev > 1e-10 + 1e-13 * condJ:
            rep.violation(f'{PID}/iteration' + ('' if first is None else '/description-reused' if isinstance(first, (list, tuple)) else '/reconfigured-alpha'), f'{name}: real it_ParaDiag deviates from the preconditioned all-at-once iteration by {dev:.3e}', {'task': ['iteration', M, L, alpha, first], 'env': env, 'deviation': dev})
        else:
            rep.unreproduced(name, {'env': env, 'dev': dev})
    # fixed point: the sequential collocation solution (defined in the query) is left unchanged
    seq = []
    for l in range(L):
        for m in range(M):
            seq.append(Uv[l][m] == (u0v if l == 0 else Uv[l - 1][M - 1]) + z * sum(rv(Q[m + 1, j + 1]) * Uv[l][j] for j in range(M)))
    goal = []
    for l in range(L):
        for m in range(M):
            o = SymComplex.lift(out[l][m])
            goal += [o.re - Uv[l][m] <= tol, Uv[l][m] - o.re <= tol, o.im <= tol, -o.im <= tol]
    res, m_ = prove(z3.And(goal), seq + [z3.And(u0v >= -1, u0v <= 1)], timeout_ms=180000, name=f'{name}:sequential-collocation-solution-is-the-fixed-point')
    rep.ob(f'{name}:sequential-collocation-solution-is-the-fixed-point', res)
    if res == 'sat':
        rep.unreproduced(f'{name}:fixed-point', str(m_)[:200])
    # sensitivity: alpha missing in the specification of the preconditioner must be noticed (for alpha != 0 and L >= 2)
    if L >= 2:
        defs2 = list(defs)
        defs2[0] = (dv[0][0] - z * sum(rv(Q[1, j + 1]) * dv[0][j] for j in range(M)) - rv(alpha * 2 + 1e-3) * dv[L - 1][M - 1] == r[0][0])
        goal3 = []
        o = SymComplex.lift(out[0][0])
        goal3 = [o.re - (Uv[0][0] + dv[0][0]) <= tol, (Uv[0][0] + dv[0][0]) - o.re <= tol]
        res, _ = prove(z3.And(goal3), defs2 + cbox(allv), timeout_ms=60000, name=f'{name}:mutated', kind='vacuity')
        rep.vac(f'{name}:wrong-alpha-refuted', res, 'sat')
    rep.sample({'case': name, 'free': f'u0 and {M * L} node values in [-1,1]', 'lambda*dt': lam * dt}, limit=6)


def float_iteration(M, L, alpha, lam, dt, env, first=None):
    U = [[env[f'U_{l}_{m}'] for m in range(M)] for l in range(L)]
    if isinstance(first, (list, tuple)):
        shared = {}
        one_iteration(build_ctl(M, L, first[1], lam, dt, float_mode=True, desc=shared), env['u0'], U)
        ctl = build_ctl(M, L, alpha, lam, dt, float_mode=True, desc=shared)
    else:
        ctl = build_ctl(M, L, alpha if first is None else first, lam, dt, float_mode=True)
        if first is not None:
            one_iteration(ctl, env['u0'], U)
            reconfigure(ctl, alpha)
    out = one_iteration(ctl, env['u0'], U)
    got = np.array([[complex(x) for x in row] for row in out])
    Q = ctl.MS[0].levels[0].sweep.coll.Qmat[1:, 1:]
    z = lam * dt
    Uv = np.array(U, dtype=float)
    r = np.zeros((L, M))
    for l in range(L):
        r[l] = (env['u0'] if l == 0 else Uv[l - 1, -1]) + z * Q @ Uv[l] - Uv[l]
    H = np.zeros((M, M))
    H[:, -1] = 1
    Ea = np.asarray(ph.get_E_matrix(L, alpha).todense())
    Pm = np.kron(np.eye(L), np.eye(M) - z * Q) + np.kron(Ea, H)
    delta = np.linalg.solve(Pm, r.ravel()).reshape(L, M)
    return float(np.abs(got - (Uv + delta)).max())


def replay(path):
    d = json.load(open(path))['replay']
    t = d['task']
    if t[0] == 'iteration':
        dev = float_iteration(t[1], t[2], t[3], -1.5, 0.2, d['env'], t[4] if len(t) > 4 else None)
        print('deviation', dev)
        bad = dev > 1e-7
    elif t[0] == 'roundtrip':
        M, L, alpha = t[1], t[2], t[3]
        env = d['env']
        ctl = build_ctl(M, L, alpha, -1.5, 0.2, float_mode=True)
        P = ctl.MS[0].levels[0].prob
        for l, S in enumerate(ctl.MS):
            for m in range(M):
                x = P.dtype_u(P.init)
                x[0] = complex(env[f'xr_{l}_{m}'], env[f'xi_{l}_{m}'])
                S.levels[0].residual[m] = x
        ctl.FFT_in_time(quantity='residual')
        ctl.iFFT_in_time(quantity='residual')
        dev = max(abs(complex(ctl.MS[l].levels[0].residual[m][0]) - complex(env[f'xr_{l}_{m}'], env[f'xi_{l}_{m}'])) for l in range(L) for m in range(M))
        print('deviation of backward(forward(x)) from x', dev)
        bad = dev > 1e-7
    elif t[0] == 'diag':
        from harness.c02_rk import diag_run

        M, kind, reconf = t[1], t[2], bool(t[3])
        dt_first = t[4] if len(t) > 4 else None
        G = np.eye(M) + (np.triu(np.full((M, M), 0.25), 1) if reconf else 0)
        x = complex(*d['u0'])
        Lf = diag_run(M, kind, d['dt'], d['lam'], d['lamE'], x, float_mode=True, reconf=(np.linalg.inv(G) if reconf else None), dt_first=dt_first)
        Uf = np.array([complex(Lf.u[m][0]) for m in range(1, M + 1)])
        defect = G @ Uf - x - d['dt'] * (d['lam'] + d['lamE']) * (Lf.sweep.coll.Qmat[1:, 1:] @ Uf)
        print('collocation defect after one application of the diagonalisation sweeper', np.abs(defect).tolist())
        bad = float(np.max(np.abs(defect))) > 1e-8
    else:
        print(d)
        bad = True
    print('REPRODUCED' if bad else 'not reproduced')
    return 1 if bad else 0

import numpy as np, logging
from pySDC.core.collocation import CollBase
logging.disable(logging.CRITICAL)
for nt in ['EQUID','LEGENDRE','CHEBY-1','CHEBY-2','CHEBY-3','CHEBY-4']:
    for qt in ['GAUSS','LOBATTO','RADAU-LEFT','RADAU-RIGHT']:
        for M in (4,5):
            c=CollBase(M,1000,1000.1,node_type=nt,quad_type=qt); c0=CollBase(M,0,0.1,node_type=nt,quad_type=qt)
            d=np.max(np.abs(c.weights-c0.weights))/0.1
            if d>1e-9: print(nt,qt,M,'order',c.order,'sum(w)/h',c.weights.sum()/0.1,'max |w-w0|/h', d, 'Qmax diff', np.max(np.abs(c.Qmat-c0.Qmat))/0.1)
c=CollBase(4,1000,1000.1,node_type='LEGENDRE',quad_type='GAUSS'); c0=CollBase(4,0,0.1,node_type='LEGENDRE',quad_type='GAUSS')
print(c.weights, c0.weights, c.nodes-1000, c0.nodes)

import numpy as np, logging, scipy.sparse as sp
logging.disable(50)
from pySDC.core.step import Step
from pySDC.implementations.problem_classes.HeatEquation_ND_FD import heatNd_unforced
from pySDC.implementations.problem_classes.AdvectionEquation_ND_FD import advectionNd
from pySDC.implementations.sweeper_classes.generic_implicit import generic_implicit
from pySDC.implementations.transfer_classes.TransferMesh import mesh_to_mesh
rng=np.random.default_rng(0)
def run(prob,pp,nodes,nvars,finter,periodic,nsw=1):
    d=dict(problem_class=prob,problem_params={**pp,'nvars':nvars},sweeper_class=generic_implicit,
       sweeper_params={'num_nodes':nodes,'quad_type':'RADAU-RIGHT','QI':'LU'},level_params={'dt':0.01,'nsweeps':nsw},step_params={'maxiter':1},
       space_transfer_class=mesh_to_mesh,space_transfer_params={'iorder':6,'rorder':2,'periodic':periodic},base_transfer_params={'finter':finter})
    S=Step(d); Ls=S.levels
    for L in Ls: L.status.time=0.0
    F=Ls[0]; P=F.prob; M=F.sweep.coll.num_nodes; N=P.nvars[0] if isinstance(P.nvars,tuple) else P.nvars
    u0=P.u_exact(0.0); A=P.A.toarray(); Q=F.sweep.coll.Qmat[1:,1:]; dt=F.dt
    big=np.eye(M*N)-dt*np.kron(Q,A); U=np.linalg.solve(big,np.tile(u0.flatten(),M)).reshape(M,N)
    F.u[0]=P.dtype_u(u0); F.f[0]=P.eval_f(F.u[0],0)
    for m in range(M):
        F.u[m+1]=P.dtype_u(P.init); F.u[m+1][:]=U[m].reshape(F.u[0].shape); F.f[m+1]=P.eval_f(F.u[m+1],0)
    F.status.unlocked=True
    F.sweep.compute_residual(); r0=F.status.residual
    before=[F.u[m].copy() for m in range(M+1)]
    for l in range(len(Ls)-1):
        S.transfer(Ls[l],Ls[l+1])
        if l+1<len(Ls)-1: Ls[l+1].sweep.update_nodes()
    Ls[-1].sweep.update_nodes()
    cres=[]
    for l in range(len(Ls)-1,0,-1):
        S.transfer(Ls[l],Ls[l-1])
        if l-1>0: Ls[l-1].sweep.update_nodes()
    diff=max(np.abs(F.u[m]-before[m]).max() for m in range(M+1))
    return r0,diff
for finter in (False,True):
    print('heat 2lev',finter,run(heatNd_unforced,{'bc':'dirichlet-zero','freq':2,'nu':0.1},[3,2],[31,15],finter,False))
    print('heat 3lev',finter,run(heatNd_unforced,{'bc':'dirichlet-zero','freq':2,'nu':0.1},[5,3,2],[31,15,7],finter,False))
    print('adv  2lev',finter,run(advectionNd,{'bc':'periodic','freq':2,'c':1.0},[3,3],[32,16],finter,True))
    print('adv  3lev',finter,run(advectionNd,{'bc':'periodic','freq':2,'c':1.0},[3,2,2],[32,16,8],finter,True))

import numpy as np, z3, time, logging, sys
from symx import *
from pySDC.core.problem import Problem
from pySDC.core.step import Step
from pySDC.core.space_transfer import SpaceTransfer
from pySDC.implementations.datatype_classes.mesh import mesh
from pySDC.implementations.sweeper_classes.generic_implicit import generic_implicit
from pySDC.implementations.sweeper_classes.explicit import explicit
logging.disable(logging.CRITICAL)
F=z3.Function('F',z3.RealSort(),z3.RealSort())
AX=[]
cnt=[0]
class UFProb(Problem):
    dtype_u=mesh; dtype_f=mesh
    def __init__(self): super().__init__(init=(1,None,np.dtype('O')))
    def eval_f(self,u,t):
        f=self.dtype_f(self.init); f[0]=S(F(u[0].t)); return f
    def solve_system(self,rhs,factor,u0,t):
        cnt[0]+=1; w=z3.Real(f'w{cnt[0]}'); a=S.c(factor); r=rhs[0].t; g=u0[0].t
        AX.append(w-a*F(w)==r)                      # returns a root
        AX.append(z3.Implies(g-a*F(g)==r, w==g))    # a root given as initial guess is returned
        me=self.dtype_u(self.init); me[0]=S(w); return me
class Inject(SpaceTransfer):
    def restrict(self,F_): return type(F_)(F_)
    def prolong(self,G): return type(G)(G)
def symmat(name,shape,lower=False,pad=True):
    A=np.empty(shape,dtype=object)
    for i in range(shape[0]):
        for j in range(shape[1]):
            z=(pad and (i==0 or j==0)) or (lower and j>i)
            A[i,j]=S(0) if z else S(z3.Real(f'{name}_{i}_{j}'))
    return A
def run(Mf,Mc,sweeper,mutate=None):
    AX.clear(); cnt[0]=0
    Ctx.cur=Ctx()
    d=dict(problem_class=UFProb,problem_params={},sweeper_class=sweeper,sweeper_params={'num_nodes':[Mf,Mc],'quad_type':'RADAU-RIGHT'},
           level_params={'dt':0.5},step_params={'maxiter':1},space_transfer_class=Inject)
    st=Step(d); Lf,Lc=st.levels; bt=st.base_transfer
    dt=S(z3.Real('dt'))
    for L,nm,M in ((Lf,'f',Mf),(Lc,'c',Mc)):
        L.params.dt=dt; L.status.time=S(0); 
        L.sweep.coll.Qmat=symmat('Q'+nm,(M+1,M+1))
        if sweeper is generic_implicit: L.sweep.QI=symmat('QI'+nm,(M+1,M+1),lower=True)
        else:
            QE=symmat('QE'+nm,(M+1,M+1),lower=True,pad=False)
            for i in range(M+1): QE[i,i]=S(0); QE[0,i]=S(0)
            L.sweep.QE=QE
    bt.Rcoll=symmat('R',(Mc,Mf),pad=False); bt.Pcoll=symmat('P',(Mf,Mc),pad=False)
    s=z3.Solver(); s.set('timeout',120000)
    s.add(dt.t>0)
    for n in range(Mc): s.add(sum(bt.Rcoll[n,m].t for m in range(Mf))==1)
    P=Lf.prob
    def var(n):
        m=P.dtype_u(P.init); m[0]=S(z3.Real(n)); return m
    Lf.u[0]=var('u0'); Lf.f[0]=P.eval_f(Lf.u[0],0)
    for m in range(1,Mf+1): Lf.u[m]=var(f'U{m}'); Lf.f[m]=P.eval_f(Lf.u[m],0)
    Lf.status.unlocked=True
    # fine level holds its collocation solution
    for m in range(1,Mf+1):
        s.add(Lf.u[m][0].t == z3.Real('u0') + dt.t*sum(Lf.sweep.coll.Qmat[m,j].t*F(z3.Real(f'U{j}')) for j in range(1,Mf+1)))
    Uold=[Lf.u[m][0].t for m in range(1,Mf+1)]
    Lc.status.time=S(0)
    st.transfer(Lf,Lc)
    if mutate=='tau':
        Lc.tau[0]=Lc.tau[0]*2.0
    if sweeper is generic_implicit:
        for m in range(1,Mc+1): s.add(Lc.sweep.QI[m,m].t!=0)
    # path forks on alpha==0 are resolved by solver ctx: give ctx same assumptions
    for a in s.assertions(): Ctx.cur.add(a)
    Lc.sweep.update_nodes()
    st.transfer(Lc,Lf)
    s.add(AX)
    s.add(z3.Or([Lf.u[m][0].t!=Uold[m-1] for m in range(1,Mf+1)]))
    t=time.time(); r=s.check(); return str(r), round(time.time()-t,2)
print('implicit 3/2', run(3,2,generic_implicit))
print('explicit 3/2', run(3,2,explicit))
print('implicit 2/2', run(2,2,generic_implicit))
print('implicit 3/2 mutated tau', run(3,2,generic_implicit,'tau'))
print('explicit 3/2 mutated tau', run(3,2,explicit,'tau'))

import numpy as np, z3, time, types, builtins
from symx import Ctx, SymBool, explore
import pySDC.helpers.fieldsIO as fio

class SI:
    def __init__(s,t): s.t=t if isinstance(t,z3.ExprRef) else z3.IntVal(int(t))
    @staticmethod
    def c(o):
        if isinstance(o,SI): return o.t
        return z3.IntVal(int(o))
    def _b(f):
        def g(s,o): return f(s,SI.c(o))
        return g
    __add__=_b(lambda s,o:SI(s.t+o)); __radd__=_b(lambda s,o:SI(o+s.t))
    __sub__=_b(lambda s,o:SI(s.t-o)); __rsub__=_b(lambda s,o:SI(o-s.t))
    __mul__=_b(lambda s,o:SI(s.t*o)); __rmul__=_b(lambda s,o:SI(o*s.t))
    __floordiv__=_b(lambda s,o:SI(s.t/o))
    __lt__=_b(lambda s,o:SymBool(s.t<o)); __le__=_b(lambda s,o:SymBool(s.t<=o))
    __gt__=_b(lambda s,o:SymBool(s.t>o)); __ge__=_b(lambda s,o:SymBool(s.t>=o))
    __eq__=_b(lambda s,o:SymBool(s.t==o)); __ne__=_b(lambda s,o:SymBool(s.t!=o))
    __hash__=None
    def __format__(s,spec): return '<symint>'
def ti(x): return x.t if isinstance(x,SI) else z3.IntVal(int(x))

# ---- symbolic file system -------------------------------------------------------------
class FS:
    def __init__(s): s.files={}
class SymFile:
    def __init__(s): s.length=SI(0); s.extents=[]   # (start term, len term, tag)
FSYS=None
class Handle:
    def __init__(s,f,mode): s.f=f; s.mode=mode; s.pos=f.length if 'a' in mode else SI(0)
    def __enter__(s): return s
    def __exit__(s,*a): return False
    def seek(s,off): s.pos=off if isinstance(off,SI) else SI(off)
    def write_sym(s,nbytes,tag):
        if 'a' in s.mode: s.pos=s.f.length
        s.f.extents.append((ti(s.pos),ti(nbytes),tag)); s.pos=s.pos+nbytes
        s.f.length=s.pos  # append only in this model
    def read_sym(s,nbytes):
        r=('read',ti(s.pos),ti(nbytes)); s.pos=s.pos+nbytes; return r
READS=[]
def sym_open(name,mode='r'):
    if 'w' in mode: FSYS.files[name]=SymFile()
    return Handle(FSYS.files[name],mode)
class SymArr:
    """stand-in for the small numpy arrays fieldsIO writes"""
    def __init__(s,items,itemsize,dtype,tag): s.items=items; s.itemsize=itemsize; s.dtype=dtype; s.tag=tag
    @property
    def nbytes(s): return s.size*s.itemsize
    @property
    def size(s): return s.items if isinstance(s.items,(int,SI)) else len(s.items)
    def tofile(s,f): f.write_sym(s.nbytes,s.tag)
class NP:
    def __getattr__(s,k): return getattr(np,k)
    def array(s,x,dtype=None):
        if isinstance(x,SymArr): return x
        it=np.dtype(dtype).itemsize
        if isinstance(x,(list,tuple)): return SymArr(list(x),it,dtype,('hdr',tuple(map(str,x))))
        return SymArr(1,it,dtype,('time',x))
    def asarray(s,x,dtype=None): return x if isinstance(x,SymArr) else np.asarray(x,dtype=dtype)
    def fromfile(s,f,dtype=None,count=-1,offset=0):
        it=np.dtype(dtype).itemsize
        if not (isinstance(offset,int) and offset==0): f.seek(f.pos+offset)
        r=f.read_sym(count*it if not isinstance(count,SI) else count*it); READS.append(r); return [r]
class OS:
    class path:
        @staticmethod
        def isfile(n): return n in FSYS.files
        @staticmethod
        def getsize(n): return FSYS.files[n].length
fio.open=sym_open; fio.np=NP(); fio.os=OS
fio.int=lambda x: x if isinstance(x,SI) else builtins.int(x)
fio.float=lambda x: x
fio.T_DTYPE=np.float64

nVar,k,c,idx=z3.Ints('nVar k c idx')
def fn(ctx):
    global FSYS; FSYS=FS(); READS.clear()
    ctx.add(nVar>=1); ctx.add(k>=0); ctx.add(c>=0)
    f=fio.Scalar(np.float64,'x.pysdc'); f.setHeader(nVar=SI(nVar)); f.initialize()
    h=f.hSize; R=f.tSize+f.fSize
    F=FSYS.files['x.pysdc']
    # k complete records (summarised as one extent family) + torn record of c bytes
    ctx.add(c<ti(R))
    F.extents.append((ti(h),k*ti(R),'records0..k-1')); F.length=SI(ti(h)+k*ti(R)+c)
    if c is not None: F.extents.append((ti(h)+k*ti(R),c,'torn'))
    nF=f.nFields
    out={'nF':ti(nF),'h':ti(h),'R':ti(R)}
    # re-open and append one record
    g=fio.FieldsIO.fromFile('x.pysdc') if False else f
    field=SymArr(SI(nVar),8,np.float64,'newfield'); field.dtype=np.float64
    lenb=ti(F.length)
    g.addField(1.0,field)
    out['new_start']=[e for e in F.extents if e[2]=='newfield'][0][0]-8
    out['nF2']=ti(g.nFields)
    READS.clear(); t,fld=g.readField(SI(k))
    out['reads']=list(READS)
    return out
t=time.time(); paths,q=explore(fn); print('paths',len(paths),'queries',q,round(time.time()-t,2))
for pc,o in paths:
    base=[nVar>=1,k>=0,c>=0,c<o['R']]+pc
    def chk(name,prop):
        s=z3.Solver(); s.add(base); s.add(z3.Not(prop)); r=s.check(); print(' ',name,r, s.model() if r==z3.sat else '')
    chk('nFields==k after crash', o['nF']==k)
    chk('nFields==k+1 after re-append', o['nF2']==k+1)
    rd=o['reads']; print('  reads',rd)
    chk('read(k) time starts where new record was written', rd[0][1]==o['new_start'])

#!/bin/bash
# Build the overlay interpreter used by every check (offline, from the wheelhouse only).
#   /verif/.venv = venv of /venv/bin/python + .pth pulling in /venv's site-packages and /repo
#                  + crosshair-tool, z3-solver, cvc5, jsonschema from /opt/veriftools/wheels
set -e
cd "$(dirname "$0")"
ok() { .venv/bin/python -c "import z3, crosshair, jsonschema, cvc5, numpy, pySDC" >/dev/null 2>&1; }
if [ ! -x .venv/bin/python ] || ! ok; then
    rm -rf .venv
    /venv/bin/python -m venv .venv
    SP=$(.venv/bin/python -c "import sysconfig; print(sysconfig.get_paths()['purelib'])")
    printf "import site; site.addsitedir('/venv/lib/python3.12/site-packages')\n/repo\n" > "$SP/_overlay.pth"
    PIP_NO_INDEX=1 .venv/bin/pip install -q --no-index --find-links /opt/veriftools/wheels \
        crosshair-tool z3-solver cvc5 jsonschema
fi
ok || { echo "setup failed: overlay venv cannot import its packages" >&2; exit 3; }
mkdir -p evidence replays
echo "setup ok: $(.venv/bin/python -c 'import z3; print("z3", z3.get_version_string())')"

import time, sys, logging, re
import numpy as np, z3
from symx import *
exec(open('p14.py').read().split("class _Lp")[0].split("logging.disable(logging.CRITICAL)")[1])
logging.disable(logging.CRITICAL)
from pySDC.implementations.controller_classes.controller_nonMPI import controller_nonMPI
from pySDC.implementations.problem_classes.TestEquation_0D import testequation0d
from pySDC.implementations.sweeper_classes.generic_implicit import generic_implicit
from pySDC.implementations.transfer_classes.TransferMesh_NoCoarse import mesh_to_mesh
from pySDC.core.hooks import Hooks
from pySDC.helpers.stats_helper import get_sorted
NP=int(sys.argv[1]); KMAX=int(sys.argv[2]); NL=int(sys.argv[3])
CNT={}
class Probe(generic_implicit):
    def compute_residual(self,stage=''):
        super().compute_residual(stage=stage)
        L=self.level
        if L.level_index==0 and stage=='IT_CHECK':
            S_=L._Probe_step; key=(S_.status.slot,S_.status.iter)
            L.status.residual=S(z3.Real(f'r_{key[0]}_{key[1]}'))
LOG=[]
class Rec(Hooks):
    def _l(self,name,step): LOG.append((name,step.status.slot,step.status.iter))
    def pre_step(self,step,level_number): super().pre_step(step,level_number); self._l('S',step)
    def pre_predict(self,step,level_number): super().pre_predict(step,level_number); self._l('P',step)
    def pre_iteration(self,step,level_number): super().pre_iteration(step,level_number); self._l('I',step)
    def pre_sweep(self,step,level_number): super().pre_sweep(step,level_number); self._l('w',step)
    def post_iteration(self,step,level_number): super().post_iteration(step,level_number); self._l('i',step)
    def post_step(self,step,level_number): super().post_step(step,level_number); self._l('E',step)
mx=z3.Int('maxiter')
def fn(c):
    LOG.clear()
    c.add(mx>=0); c.add(mx<=KMAX)
    desc=dict(problem_class=testequation0d, problem_params={'lambdas':np.array([-1.0]),'u0':1.0}, sweeper_class=Probe,
      sweeper_params={'num_nodes':[2,1][:NL] if NL>1 else 2,'quad_type':'RADAU-RIGHT'}, level_params={'dt':0.1,'restol':1e-3}, step_params={'maxiter':1})
    if NL>1: desc['space_transfer_class']=mesh_to_mesh
    ctl=controller_nonMPI(NP, {'logger_level':50,'hook_class':[Rec],'predict_type':'pfasst_burnin' if NL>1 else None}, desc)
    for S_ in ctl.MS:
        S_.params.maxiter=SI(mx)
        for L in S_.levels: object.__setattr__(L,'_Probe_step',S_) if False else L.__dict__.__setitem__('_Probe_step',S_)
    P=ctl.MS[0].levels[0].prob
    u,stats=ctl.run(P.u_exact(0),0.0,0.1*NP)
    order=[s for n,s,_ in LOG if n=='E']
    assert order==sorted(order) and len(order)==NP
    for p in range(NP):
        word=''.join(n for n,s,_ in LOG if s==p)
        assert re.fullmatch(r'S(P)?(Iw+i)*E',word), word
        nit=[v for t,v in get_sorted(stats,type='niter')][p]
        assert nit==word.count('I'), (nit,word)
    return [v for t,v in get_sorted(stats,type='niter')]
t=time.time(); paths,q=explore(fn); el=time.time()-t
s=z3.Solver(); s.add(mx>=0,mx<=KMAX); s.add(z3.Not(z3.Or([z3.And(pc) for pc,_ in paths])))
print('NP',NP,'KMAX',KMAX,'NL',NL,'paths',len(paths),'queries',q,'time',round(el,1),'coverage',s.check())

import struct
from fractions import Fraction
exec(open('c06.py').read().split("print(run(0,0.1,10.0))")[0])
def dec(s,e,m):
    b=(int(s,2)<<63)|(int(e,2)<<52)|int(m,16); return struct.unpack('>d',struct.pack('>Q',b))[0]
t0=dec('0','10000010000','3669753f37b78'); dt=dec('0','01111111101','9485084640000'); Tend=dec('0','10000010000','3669da6079c91')
print(repr(t0),repr(dt),repr(Tend), 'exact t0+2dt>=Tend:', Fraction(t0)+2*Fraction(dt)>=Fraction(Tend), float(Fraction(t0)+2*Fraction(dt)-Fraction(Tend)))
print(run(t0,dt,Tend))

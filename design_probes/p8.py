import z3, time
h,R,k,c,idx=z3.Ints('h R k c idx')
s=h+k*R+c
base=[h>=2,R>=9,k>=0,c>=0,c<R, R<=2**40, k<=2**40, h<=2**40]
def chk(name, *cl):
    so=z3.Solver(); so.set('timeout',60000); so.add(base); so.add(*cl)
    t=time.time(); r=so.check(); print(name, r, round(time.time()-t,2), so.model() if r==z3.sat else '')
nF=(s-h)/R
chk('nFields==k', nF!=k)
chk('read within complete region', idx>=0, idx<nF, z3.Or(h+idx*R < h, h+(idx+1)*R > h+k*R))
s2=s+R; nF2=(s2-h)/R
chk('after reappend nFields==k+1', nF2!=k+1)
chk('reappend record aligned', h+k*R != s)

"""C14 -- statistics are a faithful, uniquely keyed record of the run"""
import itertools
import json
import logging

import numpy as np
import z3

from symx import core
from symx.core import SymInt, SymBool, SymReal, I, explore, prove, coverage_certificate, model_value
from harness import common as cm

from pySDC.core.hooks import Hooks, Entry
from pySDC.helpers.stats_helper import filter_stats, sort_stats, get_sorted, get_list_of_types

PID = 'C14'
BOUNDS = {'quick': dict(filter_entries=3, restart_generations='0..1', histories='as C09 quick', patterns='as C07 quick'), 'thorough': dict(filter_entries=4, restart_generations='0..2', histories='as C09 thorough')}
C14_CTRL_CLAUSES = ('stats-count', 'niter-record', 'exception')
TYPES = ['niter', 'u', '_recomputed']


def describe(rep):
    from pySDC.implementations.hooks.default_hook import DefaultHooks
    from pySDC.implementations.hooks.log_work import LogWork, LogSDCIterations
    from pySDC.implementations.hooks.log_solution import LogSolution
    from pySDC.implementations.hooks.log_restarts import LogRestarts
    from pySDC.implementations.hooks.log_step_size import LogStepSize

    rep.func(filter_stats, sort_stats, get_sorted, get_list_of_types, Hooks.add_to_stats, Hooks.increment_stats, DefaultHooks.post_step,
             LogWork.post_step, LogSDCIterations.post_step, LogSolution.post_step, LogRestarts.post_step, LogStepSize.post_step)
    from pySDC.core.controller import Controller
    from pySDC.implementations.hooks.log_errors import LogGlobalErrorPostStep, LogLocalErrorPostStep, LogGlobalErrorPostIter, LogLocalErrorPostIter, LogGlobalErrorPostRun
    from pySDC.implementations.hooks.log_embedded_error_estimate import LogEmbeddedErrorEstimate

    rep.func(Controller.add_hook, Controller.return_stats, LogGlobalErrorPostStep.post_step, LogLocalErrorPostStep.post_step, LogEmbeddedErrorEstimate.post_step)
    rep.explanation = (
        '(a) helpers: the real filter_stats/get_list_of_types run on statistics dictionaries whose Entry keys carry symbolic integer time, '
        'level and iter fields (restart generation and type enumerated): every comparison forks, on each path the surviving key set is '
        'proved equal (SMT) to "all given keys match; highest restart generation per (time, type); times flagged _recomputed dropped", with '
        'a coverage certificate; sort_stats is decided by CrossHair contracts over symbolic int lists. (b) runs: on every explored '
        'convergence pattern (C07 exploration) and restart history (C09 exploration) of the real controller, with all logging hooks attached: '
        'one record per accepted step and recorded type survives, keyed by the true time / restart count; niter = number of iteration '
        'callbacks; work_rhs = number of right-hand-side evaluations actually made; no silent key collisions between attempts. The hooks attached to '
        'the histories: default, LogWork, LogSDCIterations, LogSolution, LogStepSize, LogRestarts, LogGlobalErrorPostStep, LogLocalErrorPostStep, '
        'LogGlobalErrorPostIter, LogLocalErrorPostIter, LogGlobalErrorPostRun, LogExtrapolationErrorEstimate, LogEmbeddedErrorEstimate registered after its subclass ...PostIter. (c) registration (ENUMERATED, concrete): for all ordered pairs of the '
        'shipped hook classes (found by introspection) and both routes (hook_class list, add_hook) each requested class is registered exactly once.'
    )
    rep.rule = 'case = path of filter_stats on a symbolic dictionary / one explored history of the real controller (runs from time 0 and from negative / other start times; several runs on one controller with the shipped recording hooks)'
    rep.assume('dictionary keys are pairwise distinct (contract of a dict)', 'restart generations 0..2 and the entry types are enumerated, not symbolic',
               'histories: fixed exactly representable dt; restart requests injected symbolically')
    rep.out_of_scope('LogSolutionAfterIteration (shares the type u with LogSolution)', 'values of the timing hooks', 'file-writing hooks (LogToFile, pickle)', 'MPI gathering of statistics', 'more than 4 dictionary entries')


def tasks(tier, seed):
    T = [('sort',)]
    quick = tier == 'quick'
    n_entries = 3 if quick else 4
    shapes = []
    for types in itertools.product(range(2), repeat=n_entries):
        for gens in itertools.product(range(2 if quick else 3), repeat=n_entries):
            if list(types) == sorted(types) and types[0] == 0 and (sum(gens) > 0 or sum(types) == 0):
                shapes.append((types, gens))
    import random

    rng = random.Random(seed)
    rng.shuffle(shapes)
    for sh in shapes[: (10 if quick else 60)]:
        for mode in ('plain', 'recomputed', 'recomputed-all-types', 'recomputed-no-key'):
            T.append(('filter', sh[0], sh[1], mode))
    T.append(('filter_flagged', 3))
    T.append(('types', n_entries))
    T.append(('hookreg',))
    T.append(('filter_close',))
    from harness import c07, c09

    for t in c07.tasks(tier, seed, deepest=False):
        if t[7] is None and (not quick or t[0] <= 2 or t[1] == 1):
            T.append(('ctrl', t))
    for t in c09.tasks(tier, seed):
        if t[0] == 'hist':
            T.append(('hist',) + tuple(t[1:]))
    # runs that do not start at time zero (and end before it): records keyed by end times must carry the true ones
    T.append(('hist', 2, 1, 3, False, True, [], {'shrink': False, 't0': -1.0}))
    T.append(('hist', 1, 1, 2, True, False, [], {'shrink': False, 't0': -0.125}))
    # several runs on ONE controller with the shipped recording hooks loaded: the statistics a run returns are those of a fresh controller doing that
    # run (no records of earlier runs, no stale counters) -- the scenarios 'lengths' (runs of 2, 3, 2, 1, 2 steps) and 'same' of C19 with these hooks
    names = ['log_work:LogWork', 'log_work:LogSDCIterations', 'log_solution:LogSolution', 'log_step_size:LogStepSize', 'log_errors:LogGlobalErrorPostStep', 'log_errors:LogGlobalErrorPostRun']
    base_ = dict(dt=0.25, prob='dahlquist', n=1, qd='LU', sweeper='generic_implicit', maxiter=1, restol=-1.0, blocks=1, hook_names=names)
    T.append(('rerun', 'lengths', dict(base_, M=[2], NP=3, jac=False)))
    T.append(('rerun', 'lengths', dict(base_, M=[2, 1], NP=2)))
    T.append(('rerun', 'same', dict(base_, M=[2], NP=2, blocks=2)))
    if not quick:
        T.append(('hist', 3, 1, 4, True, True, [], {'shrink': True, 't0': -2.0}))
        T.append(('hist', 2, 2, 3, False, False, [], {'shrink': False, 't0': 1.5}))
    return T


def run_task(rep, task):
    if task[0] == 'sort':
        cm.xhair_task(rep, PID, 'crosshair/c14_sort.py', timeout_s=60)
    elif task[0] == 'filter':
        filter_case(rep, task[1], task[2], task[3])
    elif task[0] == 'filter_flagged':
        filter_flagged_case(rep, task[1])
    elif task[0] == 'types':
        types_case(rep, task[1])
    elif task[0] == 'hookreg':
        hookreg_case(rep)
    elif task[0] == 'rerun':
        from harness import c19
        from symx import pysdc as sp_

        sp_.install_shadows()
        c19.PID = PID  # (the scenario machinery of C19, reporting under this property)
        c19.scenario_case(rep, task[1], dict(task[2]))
    elif task[0] == 'filter_close':
        filter_close_case(rep)
    elif task[0] == 'ctrl':
        from harness import c07

        c07.explore_config(rep, task[1], clauses=C14_CTRL_CLAUSES, pid=PID)
    elif task[0] == 'hist':
        hist_case(rep, *task[1:7], shrink=(task[7] if len(task) > 7 else False))


# ------------------------------------------------------------------------------------------------ (a) helpers


def mk_entries(types, gens):
    n = len(types)
    tv = [z3.Int(f't{i}') for i in range(n)]
    lv = [z3.Int(f'l{i}') for i in range(n)]
    iv = [z3.Int(f'k{i}') for i in range(n)]
    keys = [Entry(process=0, process_sweeper=0, time=SymInt(tv[i]), level=SymInt(lv[i]), iter=SymInt(iv[i]), sweep=1, type=TYPES[types[i]],
                  num_restarts=int(gens[i])) for i in range(n)]
    distinct = []
    for i in range(n):
        for j in range(i + 1, n):
            if types[i] == types[j] and gens[i] == gens[j]:
                distinct.append(z3.Or(tv[i] != tv[j], lv[i] != lv[j], iv[i] != iv[j]))
    return keys, tv, lv, iv, distinct


class SortedVals(list):
    def __init__(self, vals, intact):
        super().__init__(vals)
        self.intact = intact


def filter_case(rep, types, gens, mode):
    name = f'filter/{"".join(map(str, types))}/{"".join(map(str, gens))}/{mode}'
    n = len(types)
    keys, tv, lv, iv, distinct = mk_entries(types, gens)
    qt, ql = z3.Int('qt'), z3.Int('ql')
    use_time = mode == 'plain'
    pre = list(distinct)

    def fn(c):
        for a in pre:
            c.add(a)
        stats = {k: i for i, k in enumerate(keys)}
        before = list(stats.items())
        if mode == 'plain':
            res = filter_stats(stats, time=SymInt(qt), level=SymInt(ql), iter=None, type=TYPES[0])
        elif mode == 'recomputed':
            res = filter_stats(stats, type=TYPES[0], recomputed=False, level=SymInt(ql))
        elif mode == 'recomputed-no-key':  # no key filter at all: only superseded records are dropped
            res = filter_stats(stats, recomputed=False)
        else:  # no restriction to one type: the highest restart generation is taken per (time, type)
            res = filter_stats(stats, recomputed=False, level=SymInt(ql))
        # the statistics handed in are the caller's: filtering must not change them (nor hand them back as the result)
        intact = res is not stats and len(stats) == len(before) and all(k1 is k0 and v1 == v0 for (k0, v0), (k1, v1) in zip(before, stats.items()))
        return SortedVals(sorted(res.values()), intact)

    paths = explore(fn, max_paths=20000)
    rep.paths += len(paths)
    rep.decisions += sum(len(p.decisions) for p in paths)
    # specification of the surviving set
    surv = []
    for i in range(n):
        if mode == 'plain':
            surv.append(z3.And(tv[i] == qt, lv[i] == ql, z3.BoolVal(types[i] == 0)))
        elif mode == 'recomputed':
            match_i = z3.And(lv[i] == ql, z3.BoolVal(types[i] == 0))
            sup = [z3.And(lv[j] == ql, tv[j] == tv[i]) for j in range(n) if j != i and types[j] == 0 and gens[j] > gens[i]]
            surv.append(z3.And(match_i, z3.Not(z3.Or(sup)) if sup else z3.BoolVal(True)))
        elif mode == 'recomputed-no-key':
            sup = [tv[j] == tv[i] for j in range(n) if j != i and types[j] == types[i] and gens[j] > gens[i]]
            surv.append(z3.Not(z3.Or(sup)) if sup else z3.BoolVal(True))
        else:
            match_i = lv[i] == ql
            sup = [z3.And(lv[j] == ql, tv[j] == tv[i]) for j in range(n) if j != i and types[j] == types[i] and gens[j] > gens[i]]
            surv.append(z3.And(match_i, z3.Not(z3.Or(sup)) if sup else z3.BoolVal(True)))
    rep.side(f'{name}:argument-not-modified', all(p.result.intact for p in paths))
    for pi, p in enumerate(paths):
        got = set(p.result)
        goal = z3.And([surv[i] == z3.BoolVal(i in got) for i in range(n)])
        r, m = prove(goal, pre + list(p.pc), name=f'{name}/path{pi}')
        rep.ob(f'{name}/path{pi}', r)
        if r == 'sat':
            rep.replayed += 1
            vals = {str(v): int(model_value(m, v)) for v in tv + lv + iv + [qt, ql]}
            obs, exp = filter_concrete(types, gens, mode, vals)
            if obs != exp:
                rep.violation(f'{PID}/filter_stats/{mode}', f'{name}: filter_stats returns entries {obs}, specification {exp} for {vals}',
                              {'task': ['filter', list(types), list(gens), mode], 'vals': vals, 'observed': obs, 'expected': exp})
            else:
                rep.unreproduced(f'{name}/path{pi}', vals)
    r = coverage_certificate(paths, pre, name=f'{name}:coverage')
    rep.ob(f'{name}:coverage', r)
    can_supersede = any(types[i] == types[j] and gens[i] != gens[j] for i in range(n) for j in range(n))
    if (mode != 'recomputed-no-key' and (0 in types or mode == 'recomputed-all-types')) or (mode == 'recomputed-no-key' and can_supersede):
        rep.vac(f'{name}:several-outcomes', 'sat' if len({tuple(p.result) for p in paths}) > 1 else 'unsat', 'sat')
    rep.sample({'case': name, 'paths': len(paths), 'entries': [(TYPES[t], g) for t, g in zip(types, gens)],
                'free_variables': 'time, level, iter of every entry; query time / level'}, limit=5)


def filter_concrete(types, gens, mode, vals):
    n = len(types)
    keys = [Entry(process=0, process_sweeper=0, time=vals[f't{i}'], level=vals[f'l{i}'], iter=vals[f'k{i}'], sweep=1, type=TYPES[types[i]],
                  num_restarts=int(gens[i])) for i in range(n)]
    stats = {k: i for i, k in enumerate(keys)}
    if len(stats) != n:
        return None, None
    if mode == 'plain':
        res = filter_stats(stats, time=vals['qt'], level=vals['ql'], iter=None, type=TYPES[0])
        exp = sorted(i for i in range(n) if vals[f't{i}'] == vals['qt'] and vals[f'l{i}'] == vals['ql'] and types[i] == 0)
    elif mode == 'recomputed':
        res = filter_stats(stats, type=TYPES[0], recomputed=False, level=vals['ql'])
        exp = sorted(i for i in range(n) if vals[f'l{i}'] == vals['ql'] and types[i] == 0 and not any(
            j != i and types[j] == 0 and gens[j] > gens[i] and vals[f'l{j}'] == vals['ql'] and vals[f't{j}'] == vals[f't{i}'] for j in range(n)))
    elif mode == 'recomputed-no-key':
        res = filter_stats(stats, recomputed=False)
        exp = sorted(i for i in range(n) if not any(j != i and types[j] == types[i] and gens[j] > gens[i] and vals[f't{j}'] == vals[f't{i}'] for j in range(n)))
    else:
        res = filter_stats(stats, recomputed=False, level=vals['ql'])
        exp = sorted(i for i in range(n) if vals[f'l{i}'] == vals['ql'] and not any(
            j != i and types[j] == types[i] and gens[j] > gens[i] and vals[f'l{j}'] == vals['ql'] and vals[f't{j}'] == vals[f't{i}'] for j in range(n)))
    return sorted(res.values()), exp


def filter_flagged_case(rep, n):
    """entries of one type plus _recomputed flags with symbolic times: flagged times are dropped"""
    name = f'filter_flagged/{n}'
    tv = [z3.Int(f't{i}') for i in range(n)]
    fv = [z3.Int(f'f{i}') for i in range(2)]
    fl = [z3.Bool(f'flag{i}') for i in range(2)]
    pre = [z3.Distinct(tv), z3.Distinct(fv)]

    def build(tvals, fvals, flags):
        stats = {}
        for i in range(n):
            stats[Entry(process=0, process_sweeper=0, time=tvals[i], level=0, iter=1, sweep=1, type='niter', num_restarts=0)] = i
        for i in range(2):
            stats[Entry(process=-1, process_sweeper=-1, time=fvals[i], level=-1, iter=-1, sweep=-1, type='_recomputed', num_restarts=0)] = flags[i]
        return stats

    def fn(c):
        for a in pre:
            c.add(a)
        stats = build([SymInt(t) for t in tv], [SymInt(f) for f in fv], [SymBool(b) for b in fl])
        res = filter_stats(stats, type='niter', recomputed=False)
        return sorted(res.values())

    paths = explore(fn, max_paths=20000)
    rep.paths += len(paths)
    rep.decisions += sum(len(p.decisions) for p in paths)
    surv = [z3.Not(z3.Or([z3.And(fl[j], fv[j] == tv[i]) for j in range(2)])) for i in range(n)]
    for pi, p in enumerate(paths):
        got = set(p.result)
        r, m = prove(z3.And([surv[i] == z3.BoolVal(i in got) for i in range(n)]), pre + list(p.pc), name=f'{name}/path{pi}')
        rep.ob(f'{name}/path{pi}', r)
        if r == 'sat':
            rep.replayed += 1
            tvals = [int(model_value(m, t)) for t in tv]
            fvals = [int(model_value(m, f)) for f in fv]
            flags = [bool(model_value(m, b)) for b in fl]
            res = sorted(filter_stats(build(tvals, fvals, flags), type='niter', recomputed=False).values())
            exp = sorted(i for i in range(n) if not any(flags[j] and fvals[j] == tvals[i] for j in range(2)))
            if res != exp:
                rep.violation(f'{PID}/filter_stats/recomputed-flag', f'{name}: {res} vs {exp} for times {tvals} flags {list(zip(fvals, flags))}',
                              {'task': ['filter_flagged', n], 'times': tvals, 'flag_times': fvals, 'flags': flags, 'observed': res, 'expected': exp})
            else:
                rep.unreproduced(f'{name}/path{pi}', (tvals, fvals, flags))
    r = coverage_certificate(paths, pre, name=f'{name}:coverage')
    rep.ob(f'{name}:coverage', r)
    rep.sample({'case': name, 'paths': len(paths)}, limit=5)


def types_case(rep, n):
    """get_list_of_types: every type present is listed exactly once"""
    for types in itertools.product(range(3), repeat=n):
        keys, tv, lv, iv, distinct = mk_entries(types, [0] * n)
        c = core.Ctx()
        core.Ctx.cur = c
        try:
            for a in distinct:
                c.add(a)
            res = get_list_of_types({k: 1 for k in keys})
        finally:
            core.Ctx.cur = None
        rep.side(f'types/{"".join(map(str, types))}', sorted(res) == sorted({TYPES[t] for t in types}) and len(res) == len(set(res)), res)


# ------------------------------------------------------------------------------------------------ (b) histories with all hooks

CALLS = {'add': [], 'evals': 0, 'iters': {}, 'work': {}}
def filter_close_case(rep):
    """keys are matched exactly: records whose float times differ by one unit in the last place (or by a relative 1e-9 / 1e-6) are different steps.
    Concrete floats (the symbolic dictionaries above use integer time fields): ENUMERATED scales and gaps."""
    from pySDC.core.hooks import Entry

    for t in (0.0, 1.0, 1e3, 1e6, -250.0):
        for gap in (np.spacing(t if t else 1.0), 1e-12 * max(1.0, abs(t)), 1e-9 * max(1.0, abs(t)), 1e-6 * max(1.0, abs(t))):
            times = [t - gap, t, t + gap, t + 2 * gap]
            if len(set(times)) < 4:
                continue
            mk = lambda tm, typ, nr=0: Entry(process=0, process_sweeper=None, time=tm, level=0, iter=1, sweep=1, type=typ, num_restarts=nr)
            stats = {mk(tm, 'niter'): i for i, tm in enumerate(times)}
            stats.update({mk(tm, 'u'): 10 + i for i, tm in enumerate(times)})
            # a restarted attempt (generation 0) and its accepted repetition (generation 1) at the second time only
            stats[mk(times[1], 'niter', 1)] = 99
            stats[mk(times[1], '_recomputed', 0)] = True
            stats[mk(times[1], '_recomputed', 1)] = False
            name = f'filter_close/t{t:g}/gap{gap:.3g}'
            got = filter_stats(stats, type='niter', time=times[1])
            ok1 = sorted(got.values()) == [1, 99] and all(k.time == times[1] for k in got)
            got2 = filter_stats(stats, type='niter', recomputed=False)
            ok2 = sorted((k.time, v) for k, v in got2.items()) == sorted([(times[0], 0), (times[1], 99), (times[2], 2), (times[3], 3)])
            rep.translator += 1
            if not (ok1 and ok2):
                rep.violation(f'{PID}/filter-matches-keys-exactly', f'{name}: filter_stats(time={times[1]!r}) returns values {sorted(got.values())} (expected [1, 99]); recomputed=False leaves '
                              f'{sorted((k.time, v) for k, v in got2.items())}', {'task': ['filter_close'], 't': t, 'gap': float(gap)})
                return
    rep.side('filter_close/all-scales', True)


def shipped_hooks():
    """every hook class defined in pySDC.implementations.hooks that can be imported and instantiated here (found by introspection of the tree)"""
    import importlib
    import inspect
    import pkgutil

    import pySDC.implementations.hooks as pkg

    out, skipped = [], []
    for mi in pkgutil.iter_modules(pkg.__path__):
        try:
            mod = importlib.import_module(f'{pkg.__name__}.{mi.name}')
        except Exception as e:
            skipped.append((mi.name, type(e).__name__))
            continue
        for nm, cls in inspect.getmembers(mod, inspect.isclass):
            if issubclass(cls, Hooks) and cls.__module__ == mod.__name__:
                try:
                    cls()
                    out.append(cls)
                except Exception as e:
                    skipped.append((nm, type(e).__name__))
    return out, skipped


def hookreg_case(rep):
    """registration: whatever the order and route (hook_class list, add_hook by a convergence controller), every requested shipped hook class takes
    part exactly once (a hook that is silently not registered contributes no record at all).  ENUMERATED: all ordered pairs of shipped hooks."""
    from harness import c09
    from pySDC.implementations.controller_classes.controller_nonMPI import controller_nonMPI

    hooks, skipped = shipped_hooks()
    usable = []
    for A in hooks:  # a hook that cannot be registered on its own here (missing optional package) is outside the claim
        try:
            controller_nonMPI(1, {'logger_level': 50, 'dump_setup': False, 'hook_class': [A]}, c09.base_desc())
            usable.append(A)
        except Exception as e:
            skipped.append((A.__name__, f'{type(e).__name__}: {e}'[:80]))
    hooks = usable
    rep.extra['shipped_hooks'] = [h.__name__ for h in hooks]
    rep.extra['hooks_not_instantiable_here'] = skipped
    for A in hooks:
        for B in hooks:
            for route in ('list', 'add_hook'):
                name = f'hookreg/{A.__name__}+{B.__name__}/{route}'
                try:
                    ctl = controller_nonMPI(1, {'logger_level': 50, 'dump_setup': False, 'hook_class': [A, B] if route == 'list' else [A]}, c09.base_desc())
                    if route == 'add_hook':
                        ctl.add_hook(B)
                    ty = [type(h) for h in ctl.hooks]
                    bad = [c.__name__ for c in {A, B} if ty.count(c) != 1]
                    rep.translator += 1
                    if bad:
                        rep.violation(f'{PID}/hook-registered-exactly-once/{route}', f'{name}: requested hook classes registered {[(c.__name__, ty.count(c)) for c in (A, B)]} times; '
                                      f'controller.hooks = {[t.__name__ for t in ty]}', {'task': ['hookreg'], 'A': A.__name__, 'B': B.__name__, 'route': route})
                        return
                except Exception as e:
                    rep.side(name, False, f'{type(e).__name__}: {e}')
                    return
    rep.side('hookreg/all-ordered-pairs', True)


_orig_add = Hooks.add_to_stats


def _rec_add(self, value, **kw):
    _orig_add(self, value, **kw)
    nr = getattr(self, '_Hooks__num_restarts', None)
    if nr is None:  # (private counter renamed: read the restart count from the key the value was stored under)
        for k, v in self.return_stats().items():
            if v is value and k.type == kw.get('type') and k.time == kw.get('time') and k.iter == kw.get('iter') and k.level == kw.get('level'):
                nr = k.num_restarts
    CALLS['add'].append((type(self).__name__, kw.get('type'), kw.get('time'), kw.get('level'), kw.get('iter'), nr, CALLS.get('attempt', 0), kw.get('process'),
                         kw.get('sweep'), kw.get('process_sweeper')))


class Count(Hooks):
    """independent counters: iteration callbacks and right-hand-side evaluations per attempt"""

    def pre_step(self, step, level_number):
        super().pre_step(step, level_number)
        CALLS['attempt'] = CALLS.get('attempt', 0) + 1
        step.__dict__['_c14_attempt'] = CALLS['attempt']
        CALLS['iters'][CALLS['attempt']] = 0
        P = step.levels[0].prob
        CALLS['work'][CALLS['attempt']] = P.__dict__.get('_c14_evals', 0)
        CALLS.setdefault('solves', {})[CALLS['attempt']] = P.__dict__.get('_c14_solves', 0)

    def pre_iteration(self, step, level_number):
        super().pre_iteration(step, level_number)
        CALLS['iters'][step.__dict__['_c14_attempt']] += 1

    def post_sweep(self, step, level_number):
        super().post_sweep(step, level_number)
        L = step.levels[level_number]
        CALLS.setdefault('sweeps', []).append((step.__dict__['_c14_attempt'], float(L.time), int(level_number), int(step.status.iter), int(L.status.sweep), float(L.status.residual)))

    def post_step(self, step, level_number):
        super().post_step(step, level_number)
        a = step.__dict__['_c14_attempt']
        P = step.levels[0].prob
        CALLS.setdefault('post', []).append((a, float(step.levels[0].time), bool(step.status.restart), CALLS['iters'][a],
                                            P.__dict__.get('_c14_evals', 0) - CALLS['work'][a], int(step.status.restarts_in_a_row), float(step.levels[0].dt),
                                            P.__dict__.get('_c14_solves', 0) - CALLS['solves'][a]))


class BetweenSteps(Hooks):
    """work done on the problem BETWEEN two steps (as a hook that computes a reference solution through the problem's own right-hand side does): it belongs to
    no step; registered after the independent counter, so it lies outside the counted window"""

    def post_step(self, step, level_number):
        super().post_step(step, level_number)
        L = step.levels[0]
        L.prob.eval_f(L.uend, L.time + L.dt)
        L.prob.eval_f(L.uend, L.time + L.dt)


class SetEst(Hooks):
    """gives the level an (arbitrary, non-zero) embedded error estimate so that the shipped estimate hooks have something to record"""

    def pre_iteration(self, step, level_number):
        super().pre_iteration(step, level_number)
        for L in step.levels:
            L.status.__dict__['error_embedded_estimate'] = 0.5  # the status class is frozen; the real estimators register the variable first


def hist_case(rep, NP, MAXR, NSTEPS, FIRST, CRASH, prefix, shrink=False):
    from harness import c09
    from pySDC.implementations.hooks.log_errors import LogGlobalErrorPostStep, LogLocalErrorPostStep, LogGlobalErrorPostIter, LogLocalErrorPostIter, LogGlobalErrorPostRun
    from pySDC.implementations.hooks.log_embedded_error_estimate import LogEmbeddedErrorEstimate, LogEmbeddedErrorEstimatePostIter
    from pySDC.implementations.hooks.log_extrapolated_error_estimate import LogExtrapolationErrorEstimate
    from pySDC.implementations.hooks.log_work import LogWork, LogSDCIterations
    from pySDC.implementations.hooks.log_solution import LogSolution
    from pySDC.implementations.hooks.log_step_size import LogStepSize
    from pySDC.implementations.problem_classes.TestEquation_0D import testequation0d

    opts = shrink
    shrink, NL_ = c09.hist_opts(opts)
    name = f'hist/NP{NP}/maxr{MAXR}/steps{NSTEPS}/first{int(FIRST)}/crash{int(CRASH)}' + ('/shrink' if shrink else '') + (f'/NL{NL_}' if NL_ > 1 else '') + (f'/t0={opts["t0"]}' if isinstance(opts, dict) and opts.get('t0') else '')
    Hooks.add_to_stats = _rec_add
    orig_eval = testequation0d.eval_f

    def counting_eval(self, u, t):
        self.__dict__['_c14_evals'] = self.__dict__.get('_c14_evals', 0) + 1
        return orig_eval(self, u, t)

    testequation0d.eval_f = counting_eval
    # a second work counter (solver calls), counted independently as well: LogWork records every counter the problem declares
    from pySDC.core.problem import WorkCounter

    orig_init, orig_solve = testequation0d.__init__, testequation0d.solve_system

    def counting_init(self, *a, **k):
        orig_init(self, *a, **k)
        self.work_counters['newton'] = WorkCounter()

    def counting_solve(self, *a, **k):
        self.__dict__['_c14_solves'] = self.__dict__.get('_c14_solves', 0) + 1
        self.work_counters['newton']()
        return orig_solve(self, *a, **k)

    testequation0d.__init__ = counting_init
    testequation0d.solve_system = counting_solve

    def fn(c):
        CALLS.clear()
        CALLS.update({'add': [], 'iters': {}, 'work': {}, 'post': [], 'attempt': 0, 'sweeps': [], 'solves': {}})
        r = c09.hist_run(c, NP, MAXR, NSTEPS, FIRST, CRASH, extra_hooks=[SetEst, LogEmbeddedErrorEstimatePostIter, LogWork, LogSDCIterations, LogSolution, LogStepSize, LogGlobalErrorPostStep,
                                                                           LogLocalErrorPostStep, LogEmbeddedErrorEstimate, LogGlobalErrorPostIter, LogLocalErrorPostIter, LogGlobalErrorPostRun, LogExtrapolationErrorEstimate, Count, BetweenSteps], shrink=opts)
        bad = []
        if r['status'] == 'ok':
            bad = judge_stats(r, NP)
            bad += [b for b in c09.hist_judge(r, NP, MAXR, NSTEPS, FIRST, CRASH, shrink=opts) if b[0] in ('stats-recomputed-filter', 'restart-counter')]  # (restart-counter: the count every record is keyed with is the step's true one)
        return dict(status=r['status'], bad=bad, log=[(l[0], l[1], l[5], l[6]) for l in r['log']], used=c.pos)

    try:
        paths = explore(fn, max_paths=300000, prefix=prefix)
    finally:
        Hooks.add_to_stats = _orig_add
        testequation0d.eval_f = orig_eval
        testequation0d.__init__ = orig_init
        testequation0d.solve_system = orig_solve
    paths = [p for p in paths if p.result['used'] >= len(prefix) or all(prefix[p.result['used']:])]
    rep.paths += len(paths)
    rep.decisions += sum(len(p.decisions) for p in paths)
    nbad = 0
    seen = set()
    for p in paths:
        if not p.result['bad']:
            continue
        nbad += 1
        for b in p.result['bad']:  # one report per distinct violated clause (so that a listed finding cannot mask another clause)
            key = f'{PID}/{b[0]}' + ('/step-size-changed-on-restart' if shrink else '')
            if key in seen:
                continue
            seen.add(key)
            rep.replayed += 1
            rep.violation(key, f'{name}: {b[0]}: {str(b[1])[:300]}; post_step log (slot, time, restart, restarts_in_a_row): {p.result["log"]}',
                          {'task': ['hist', NP, MAXR, NSTEPS, FIRST, CRASH], 'shrink': opts, 'decisions': p.decisions, 'violated': [(x[0], str(x[1])[:300]) for x in p.result['bad']],
                           'log': p.result['log']})
    rep.extra['histories_by_config'] = rep.extra.get('histories_by_config', []) + [{'config': name, 'prefix': prefix, 'paths': len(paths), 'violating': nbad}]
    if paths and len(rep.samples) < 8:
        p = paths[len(paths) // 2]
        rep.sample({'config': name, 'paths': len(paths), 'a_history': {'decisions': p.decisions, 'post_steps': p.result['log']}})


def judge_stats(r, NP):
    """per accepted step and recorded type exactly one surviving record, correctly keyed and valued"""
    bad = []
    st = r['stats']
    acc = [l for l in r['log'] if not l[5]]
    posts = [p for p in CALLS['post'] if not p[2]]  # accepted attempts: (attempt, time, restart, iters, evals, restarts_in_a_row)
    start_types = ['niter', 'residual_post_step', 'restart', 'dt']
    end_types = ['u', 'k', 'work_rhs', 'e_global_post_step', 'e_local_post_step', 'error_embedded_estimate', 'work_newton', 'error_extrapolation_estimate']
    for typ in start_types + end_types:
        recs = filter_stats(st, type=typ, recomputed=False)
        times = sorted(round(float(k.time), 9) for k in recs)
        end = typ in end_types
        exp = sorted(round(a[1] + (a[2] if end else 0.0), 9) for a in acc)
        if times != exp:
            bad.append(('one-record-per-accepted-step', {'type': typ, 'record_times': times, 'accepted': exp}))
            continue
        for k, v in recs.items():
            a = [x for x in posts if round(x[1] + (x[6] if end else 0.0), 9) == round(float(k.time), 9)]
            if len(a) != 1:
                bad.append(('one-record-per-accepted-step', {'type': typ, 'time': k.time, 'attempts': a}))
                continue
            att, tm, _, iters, evals, nr, _dt, solves = a[0]
            if k.num_restarts != nr:
                bad.append(('restart-count-key', {'type': typ, 'time': k.time, 'key': k.num_restarts, 'step': nr}))
            if typ == 'niter' and (v != iters or k.iter != iters):
                bad.append(('niter-value', {'time': k.time, 'logged': v, 'callbacks': iters}))
            if typ == 'k' and v != iters:
                bad.append(('niter-value', {'time': k.time, 'logged_k': v, 'callbacks': iters}))
            if typ == 'work_rhs' and v != evals:
                bad.append(('work-counter', {'time': k.time, 'logged': v, 'evaluations_made': evals}))
            if typ == 'work_newton' and v != solves:
                bad.append(('work-counter', {'time': k.time, 'logged_solver_calls': v, 'solver_calls_made': solves}))
            if typ == 'restart' and v != 0:
                bad.append(('accepted-step-flagged-restart', {'time': k.time}))
    # recorded once per run: exactly one record, at the end time of the last accepted step
    if posts:
        recs = filter_stats(st, type='e_global_post_run')
        t_end = max(round(x[1] + x[6], 9) for x in posts)
        if sorted(round(float(k.time), 9) for k in recs) != [t_end]:
            bad.append(('one-record-per-run', {'type': 'e_global_post_run', 'record_times': sorted(float(k.time) for k in recs), 'end_of_last_accepted_step': t_end}))
        else:
            # ... keyed with the restart count of the accepted attempt it belongs to
            last = max(posts, key=lambda x: x[1] + x[6])
            for k in recs:
                if k.num_restarts != last[5]:
                    bad.append(('restart-count-key', {'type': 'e_global_post_run', 'time': k.time, 'key': k.num_restarts, 'step': last[5]}))
    # quantities recorded after every iteration: one surviving record per accepted step AND iteration, keyed with the step's restart count
    iter_start = ['residual_post_iteration']
    iter_end = ['e_global_post_iteration', 'e_local_post_iteration', 'error_embedded_estimate_post_iteration']
    for typ in iter_start + iter_end:
        recs = filter_stats(st, type=typ, recomputed=False)
        end = typ in iter_end
        got = sorted((round(float(k.time), 9), int(k.iter)) for k in recs)
        exp = sorted((round(x[1] + (x[6] if end else 0.0), 9), it) for x in posts for it in range(1, x[3] + 1))
        if got != exp:
            bad.append(('one-record-per-accepted-step', {'type': typ, 'records (time, iter)': got, 'accepted (time, iter)': exp}))
            continue
        for k in recs:
            a = [x for x in posts if round(x[1] + (x[6] if end else 0.0), 9) == round(float(k.time), 9)]
            if len(a) == 1 and k.num_restarts != a[0][5]:
                bad.append(('restart-count-key', {'type': typ, 'time': k.time, 'iter': k.iter, 'key': k.num_restarts, 'step': a[0][5]}))
    # recorded after every sweep on every level: one surviving record per sweep callback of an accepted attempt, keyed with the level, iteration and
    # sweep number of THAT sweep, holding the residual of the level that was swept
    accepted_att = {x[0] for x in posts}
    calls = sorted((round(tm, 9), lvl, it, sw, val) for (att, tm, lvl, it, sw, val) in CALLS.get('sweeps', []) if att in accepted_att)
    recs = filter_stats(st, type='residual_post_sweep', recomputed=False)
    got = sorted((round(float(k.time), 9), int(k.level), int(k.iter), int(k.sweep), float(v)) for k, v in recs.items())
    if [g[:4] for g in got] != [c[:4] for c in calls]:
        bad.append(('one-record-per-sweep', {'type': 'residual_post_sweep', 'records (time, level, iter, sweep)': [g[:4] for g in got], 'sweep callbacks of accepted attempts': [c[:4] for c in calls]}))
    elif got != calls:
        bad.append(('sweep-record-value', {'type': 'residual_post_sweep', 'records': got, 'residual of the swept level at the callback': calls}))
    # no silent key collisions: two add_to_stats calls from different attempts must not hit the same key
    seen = {}
    for (hook, typ, tm, lvl, it, nr, att, proc, swp, psw) in CALLS['add']:
        if typ in ('_recomputed',) or typ is None:
            continue
        key = (hook, typ, round(float(tm), 9) if tm is not None else None, lvl, it, nr, proc, swp, psw)  # all fields of the Entry key
        if key in seen and seen[key] != att and typ in start_types + end_types:
            bad.append(('key-collision', {'key': key, 'attempts': (seen[key], att)}))
        seen.setdefault(key, att)
    return bad


def replay(path):
    logging.disable(logging.CRITICAL)
    d = json.load(open(path))['replay']
    t = d['task']
    if t[0] == 'filter':
        obs, exp = filter_concrete(t[1], t[2], t[3], d['vals'])
        print('observed', obs, 'expected', exp)
        bad = obs != exp
    elif t[0] == 'filter_close':
        from symx.report import Report

        rep = Report(PID)
        filter_close_case(rep)
        bad = bool(rep.violations)
        print([v['what'][:300] for v in rep.violations])
    elif t[0] == 'hookreg':
        from harness import c09
        from pySDC.implementations.controller_classes.controller_nonMPI import controller_nonMPI

        hooks = {h.__name__: h for h in shipped_hooks()[0]}
        A, B = hooks[d['A']], hooks[d['B']]
        ctl = controller_nonMPI(1, {'logger_level': 50, 'dump_setup': False, 'hook_class': [A, B] if d['route'] == 'list' else [A]}, c09.base_desc())
        if d['route'] == 'add_hook':
            ctl.add_hook(B)
        ty = [type(h) for h in ctl.hooks]
        print('controller.hooks =', [t.__name__ for t in ty])
        bad = any(ty.count(c) != 1 for c in {A, B})
    elif t[0] == 'hist':
        from symx.report import Report

        rep = Report(PID)
        hist_case(rep, *t[1:6], prefix=d['decisions'], shrink=d.get('shrink', False))
        bad = bool(rep.violations)
        print(rep.violations[:1])
    elif len(t) == 8:
        from harness import c07

        return c07.replay(path)
    else:
        print(d)
        bad = True
    print('REPRODUCED' if bad else 'not reproduced')
    return 1 if bad else 0

"""C02 continued: Runge-Kutta stage forms, second-order (Verlet) form, diagonalisation sweeper"""
import random
from fractions import Fraction

import numpy as np
import z3

from symx import core
from symx import pysdc as sp
from symx.core import SymReal, SymComplex, R, rv, frac, explore, prove, satisfiable, evalf, Ctx
from harness import common as cm
from harness import sweepspec as ss

from pySDC.core.problem import Problem
from pySDC.implementations.datatype_classes.mesh import mesh, imex_mesh

PID = 'C02'


class RKLin(sp.LinProb):
    # Runge_Kutta.get_full_f dispatches on type(f).__name__ == 'mesh', so the real class is used (object dtype)
    dtype_u = mesh
    dtype_f = mesh


class RKImex(sp.ImexProb):
    dtype_u = mesh
    dtype_f = imex_mesh


def rk_tables(cls):
    A = np.array(cls.matrix, dtype=float)
    W = np.array(cls.weights, dtype=float)
    imex = hasattr(cls, 'matrix_explicit') and cls.matrix_explicit is not None
    AE = np.array(cls.matrix_explicit, dtype=float) if imex else None
    WE = None
    if imex:
        WE = np.array(cls.weights_explicit if cls.weights_explicit is not None else cls.weights, dtype=float)
    return A, W, AE, WE, imex


def rk_run(cls, dt, u0, lamI, lamE, imex, float_mode=False):
    """run predict-free setup + real update_nodes + compute_end_point; returns stage values, uend, u_secondary"""
    if float_mode:
        if imex:
            pc, pp = ss.FImex, {'AI': [[lamI]], 'AE': [[lamE]]}
        else:
            pc, pp = ss.FLin, {'A': [[lamI]]}
    else:
        if imex:
            pc, pp = RKImex, {'AI': [[lamI]], 'AE': [[lamE]]}
        else:
            pc, pp = RKLin, {'A': [[lamI]]}
    L = cm.make_level(pc, pp, cls, {}, dt)
    P = L.prob
    L.sweep.predict()
    L.u[0] = P.dtype_u(P.init)
    L.u[0][0] = u0
    L.f[0] = P.eval_f(L.u[0], 0.0)
    L.sweep.update_nodes()
    M = L.sweep.coll.num_nodes
    U = [L.u[m][0] for m in range(1, M + 1)]
    L.sweep.compute_end_point()
    sec = getattr(L.sweep, 'u_secondary', None)
    return U, L.uend[0], (sec[0] if sec is not None else None), L


def rk_case(rep, name):
    import pySDC.implementations.sweeper_classes.Runge_Kutta as rk

    cls = getattr(rk, name)
    rep.func(rk.RungeKutta.update_nodes, rk.RungeKutta.compute_end_point, rk.RungeKuttaIMEX.update_nodes,
             rk.RungeKuttaIMEX.compute_end_point, rk.RungeKutta.integrate, rk.RungeKuttaIMEX.integrate)
    A, W, AE, WE, imex = rk_tables(cls)
    M = A.shape[0]
    dtv, u0v, li, le = z3.Real('dt'), z3.Real('u0_0'), z3.Real('lamI'), z3.Real('lamE')

    def fn(c):
        c.add(dtv > 0)
        sp.DENOMS.clear()
        U, uend, sec, L = rk_run(cls, SymReal(dtv), SymReal(u0v), SymReal(li), SymReal(le), imex)
        integ = [R(x[0]) for x in L.sweep.integrate()]
        return dict(U=[R(x) for x in U], uend=R(uend), sec=(R(sec) if sec is not None else None), den=list(sp.DENOMS), integ=integ,
                    gsa=bool(L.sweep.coll.globally_stiffly_accurate and (not imex or L.sweep.coll_explicit.globally_stiffly_accurate)))

    paths = explore(fn)
    rep.paths += len(paths)
    embedded = cls.is_embedded()
    for p in paths:
        rep.decisions += len(p.decisions)
        r = p.result
        U = r['U']
        assumptions = list(p.assume) + list(p.pc) + [d != 0 for d in r['den']]

        def F(u):
            return (li + le) * u if imex else li * u

        def Fpart(u, wI, wE):
            return (rv(wI) * li + rv(wE) * le) * u if imex else rv(wI) * li * u

        eqs = []
        for m in range(M):
            lhs = U[m] - dtv * rv(A[m, m]) * li * U[m]
            rhs = u0v
            for j in range(m):
                rhs = rhs + dtv * Fpart(U[j], A[m, j], AE[m, j] if imex else 0.0)
            eqs.append(lhs == rhs)
        W1 = W[0] if embedded else W
        W1E = (WE[0] if embedded else WE) if imex else None
        if r['gsa']:
            end_spec = U[-1]
        else:
            end_spec = u0v
            for j in range(M):
                end_spec = end_spec + dtv * Fpart(U[j], W1[j], W1E[j] if imex else 0.0)
        goals = {'stages': z3.And(eqs), 'end_point': r['uend'] == end_spec}
        # integration over the nodes returns dt * Q * F(U) with Q the Butcher matrix (IMEX: implicit and explicit tableau on their parts)
        # (stiffly accurate schemes without an embedded solution do not evaluate the right-hand side at the last stage by design: it stays the zero f_init)
        last = M - 1 if (r['gsa'] and not embedded) else M
        goals['integrate'] = z3.And([r['integ'][m] == sum((dtv * Fpart(U[j], A[m, j], AE[m, j] if imex else 0.0) for j in range(last)), rv(0)) for m in range(M)])
        if embedded:
            s2 = u0v
            for j in range(M):
                s2 = s2 + dtv * Fpart(U[j], W[1][j], WE[1][j] if imex else 0.0)
            goals['secondary'] = r['sec'] == s2
        allv = [dtv, u0v, li, le]
        for clause, goal in goals.items():
            if clause == 'stages' and M >= 5:  # (many stages: one query per stage equation -- the conjunction of eight rational identities is slow under machine load)
                res, model = 'unsat', None
                for m_, eq in enumerate(eqs):
                    r1, m1 = prove(eq, assumptions, timeout_ms=120000, name=f'rk/{name}:{clause}[{m_}]')
                    if r1 == 'sat':
                        res, model = r1, m1
                        break
                    if r1 != 'unsat':
                        res = r1
            else:
                res, model = prove(goal, assumptions, timeout_ms=120000, name=f'rk/{name}:{clause}')
            rep.ob(f'rk/{name}:{clause}', res)
            if res == 'sat':
                env = cm.model_env(model, allv)
                rk_triage(rep, cls, name, clause, env, imex)
        res, _ = satisfiable(assumptions, name=f'rk/{name}:assumptions', kind='vacuity')
        rep.vac(f'rk/{name}:assumptions-sat', res, 'sat')
        if M >= 2:
            bad = list(eqs)
            A2 = A.copy()
            A2[M - 1, 0] += 1e-6
            rhs = u0v
            for j in range(M - 1):
                rhs = rhs + dtv * Fpart(U[j], A2[M - 1, j], AE[M - 1, j] if imex else 0.0)
            bad[-1] = (U[M - 1] - dtv * rv(A[M - 1, M - 1]) * li * U[M - 1] == rhs)
            res, _ = prove(z3.And(bad), assumptions, name=f'rk/{name}:mutated', kind='vacuity')
            rep.vac(f'rk/{name}:mutated-spec-refuted', res, 'sat')
        rng = random.Random(hash(name) % 9999 + rep.seed)
        for _ in range(2):
            env = {'dt': rng.uniform(0.05, 0.5), 'u0_0': rng.uniform(-1, 1), 'lamI': rng.uniform(-2, 0), 'lamE': rng.uniform(-1, 1)}
            Uf, uef, secf, _L = rk_run(cls, env['dt'], env['u0_0'], env['lamI'], env['lamE'], imex, float_mode=True)
            got = [evalf(t, env) for t in U] + [evalf(r['uend'], env)]
            ref = [float(x) for x in Uf] + [float(uef)]
            rep.translator += 1
            if not all(cm.rel_close(a, b, 1e-7) for a, b in zip(got, ref)):
                rep.error(f'translator validation failed for rk/{name}: {got} vs {ref}')
    rep.sample({'case': f'rk/{name}', 'stages': M, 'imex': imex, 'embedded': embedded, 'free_variables': 'u0, dt, lambda_I, lambda_E'})


def rk_numpy_spec(cls, env, imex):
    A, W, AE, WE, _ = rk_tables(cls)
    M = A.shape[0]
    dt, u0, li, le = env['dt'], env['u0_0'], env['lamI'], env['lamE']
    U = np.zeros(M)
    for m in range(M):
        rhs = u0
        for j in range(m):
            rhs += dt * (A[m, j] * li + (AE[m, j] * le if imex else 0.0)) * U[j]
        U[m] = rhs / (1 - dt * A[m, m] * li)
    emb = cls.is_embedded()
    W1 = W[0] if emb else W
    W1E = (WE[0] if emb else WE) if imex else None
    gsa = np.allclose(A[-1], W1) and (not imex or np.allclose(AE[-1], W1E))
    end = U[-1] if gsa else u0 + dt * sum((W1[j] * li + (W1E[j] * le if imex else 0.0)) * U[j] for j in range(M))
    sec = None
    if emb:
        sec = u0 + dt * sum((W[1][j] * li + (WE[1][j] * le if imex else 0.0)) * U[j] for j in range(M))
    return U, end, sec


def rk_triage(rep, cls, name, clause, env, imex):
    rep.replayed += 1
    try:
        Uf, uef, secf, _L = rk_run(cls, env['dt'], env['u0_0'], env['lamI'], env['lamE'], imex, float_mode=True)
        Us, es, ss_ = rk_numpy_spec(cls, env, imex)
    except Exception as e:
        rep.unreproduced(f'rk/{name}:{clause}', f'{type(e).__name__}: {e}')
        return
    if clause == 'integrate':
        A_, _W, AE_, _WE, _ = rk_tables(cls)
        a = np.array([float(x[0]) for x in _L.sweep.integrate()])
        gsa_ = bool(_L.sweep.coll.globally_stiffly_accurate and (not imex or _L.sweep.coll_explicit.globally_stiffly_accurate))
        last = len(Us) - 1 if (gsa_ and not cls.is_embedded()) else len(Us)
        b = np.array([env['dt'] * sum((A_[m, j] * env['lamI'] + (AE_[m, j] * env['lamE'] if imex else 0.0)) * Us[j] for j in range(last)) for m in range(len(Us))])
    elif clause == 'stages':
        a, b = np.array([float(x) for x in Uf]), Us
    elif clause == 'end_point':
        a, b = np.array([float(uef)]), np.array([es])
    else:
        a, b = np.array([float(secf)]), np.array([ss_])
    if np.max(np.abs(a - b)) > 1e-8 * (1 + np.max(np.abs(b))):
        rep.violation(f'{PID}/rk/{name}/{clause}', f'Runge-Kutta sweeper {name}: {clause} deviates from the Butcher-tableau form by {np.max(np.abs(a - b)):.3e}',
                      {'task': ['rk', name], 'clause': clause, 'env': env, 'observed': a.tolist(), 'expected': b.tolist()})
    else:
        rep.unreproduced(f'rk/{name}:{clause}', {'env': env, 'observed': a.tolist(), 'expected': b.tolist()})


# ------------------------------------------------------------------------------------------------ verlet


class SymOsc(Problem):
    """x'' = -k x (k symbolic), particles data type with object dtype"""

    def __init__(self, k, dtype=sp.ODT):
        from pySDC.implementations.datatype_classes.particles import particles, acceleration

        self.dtype_u = particles
        self.dtype_f = acceleration
        super().__init__(init=((1, 1), None, dtype))
        self.k = k

    def eval_f(self, u, t):
        f = self.dtype_f(self.init)
        f[:] = u.pos * (-1) * self.k
        return f


class SymOscB(Problem):
    """the same oscillator in the interface of the Boris sweeper: eval_f returns fields (electric part -k x, NO magnetic field), build_f turns them into
    an acceleration, boris_solver follows the documented contract for B = 0: v_new = v_old + dt (E_old + E_new)/2 + c"""

    def __init__(self, k, dtype=sp.ODT):
        from pySDC.implementations.datatype_classes.particles import particles, fields

        self.dtype_u = particles
        self.dtype_f = fields
        super().__init__(init=((1, 1), None, dtype))
        self.k = k

    def eval_f(self, u, t):
        f = self.dtype_f(self.init, val=0.0)
        f.elec[:] = u.pos * (-1) * self.k
        return f

    def build_f(self, f, part, t):
        from pySDC.implementations.datatype_classes.particles import acceleration

        rhs = acceleration(self.init)
        rhs[:] = f.elec
        return rhs

    def boris_solver(self, c, dt, old_fields, new_fields, old_parts):
        from pySDC.implementations.datatype_classes.particles import particles

        vel = particles.velocity(self.init)
        vel[:] = old_parts.vel + (old_fields.elec + new_fields.elec) * dt * frac(0.5) + c
        return vel


def rkn_case(rep):
    """Runge-Kutta-Nystrom sweeper (class RKN): the step equals the textbook Nystrom form built from the class tableau
    k_i = f(x0 + c_i dt v0 + dt^2 sum_j abar_ij k_j),  x1 = x0 + dt v0 + dt^2 sum_i bbar_i k_i,  v1 = v0 + dt sum_i b_i k_i   (symbolic x0, v0, dt, k)"""
    from pySDC.implementations.sweeper_classes.Runge_Kutta_Nystrom import RKN, RungeKuttaNystrom

    rep.func(RungeKuttaNystrom.update_nodes, RungeKuttaNystrom.compute_end_point)
    name = 'rkn/RKN'
    kv, dtv, p0, v0 = z3.Reals('k dt p0 v0')

    def run(dt, k, x, v, float_mode=False):
        L = cm.make_level(SymOscB, {'k': k, 'dtype': (np.dtype('float64') if float_mode else sp.ODT)}, RKN, {}, dt)
        P = L.prob
        L.sweep.predict()
        u = P.dtype_u(P.init)
        u.pos[:] = x
        u.vel[:] = v
        L.u[0] = u
        L.f[0] = P.eval_f(u, 0.0)
        L.sweep.update_nodes()
        L.sweep.compute_end_point()
        return L.uend.pos.ravel()[0], L.uend.vel.ravel()[0]

    c = Ctx()
    Ctx.cur = c
    try:
        c.add(dtv > 0)
        ep, ev = run(SymReal(dtv), SymReal(kv), SymReal(p0), SymReal(v0))
        ep, ev = R(ep), R(ev)
    finally:
        Ctx.cur = None
    rep.paths += 1
    cN, b, bbar, Abar = RKN.nodes, RKN.weights, RKN.weights_bar, RKN.matrix_bar
    ks = []
    for i in range(len(cN)):
        xi = p0 + rv(cN[i]) * dtv * v0 + dtv * dtv * sum((rv(Abar[i, j]) * ks[j] for j in range(i)), rv(0))
        ks.append(-kv * xi)
    sp_pos = p0 + dtv * v0 + dtv * dtv * sum((rv(bbar[i]) * ks[i] for i in range(len(cN))), rv(0))
    sp_vel = v0 + dtv * sum((rv(b[i]) * ks[i] for i in range(len(cN))), rv(0))
    for clause, goal in (('position', ep == sp_pos), ('velocity', ev == sp_vel)):
        res, model = prove(goal, [dtv > 0], timeout_ms=120000, name=f'{name}:{clause}')
        rep.ob(f'{name}:{clause}', res)
        if res == 'sat':
            rep.replayed += 1
            env = cm.model_env(model, [kv, dtv, p0, v0])
            fp, fv = run(env['dt'], env['k'], env['p0'], env['v0'], float_mode=True)
            exp = evalf(sp_pos if clause == 'position' else sp_vel, env)
            got = float(fp if clause == 'position' else fv)
            if abs(got - exp) > 1e-9 * (1 + abs(exp)):
                rep.violation(f'{PID}/rkn/{clause}', f'{name}: end {clause} {got!r} differs from the Nystrom form {exp!r} for {env}', {'task': ['rkn'], 'clause': clause, 'env': env})
            else:
                rep.unreproduced(f'{name}:{clause}', env)
    res, _ = prove(ep == sp_pos + dtv * dtv * dtv * rv(1e-6) * kv * v0, [dtv > 0], name=f'{name}:mutated', kind='vacuity')
    rep.vac(f'{name}:mutated-spec-refuted', res, 'sat')
    # order of the scheme on the oscillator: exact Taylor coefficients in dt of the symbolic result against the cos / sin series through dt^4
    from harness.c04 import series_of, Series, ZS
    import math as _m

    for (kk, x0, w0) in ((1, 1, 0), (1, 0, 1), (2, 1, 1), (Fraction(1, 2), -1, 2)):
        vm = {'dt': ZS, 'k': Series.const(kk), 'p0': Series.const(x0), 'v0': Series.const(w0)}
        sx, sv = series_of(ep, vm), series_of(ev, vm)
        # x(t) = x0 cos(w t) + v0/w sin(w t), w^2 = k:  coefficients in t
        ex = [Fraction(0)] * 5
        exv = [Fraction(0)] * 5
        for n in range(5):
            if n % 2 == 0:
                ex[n] = Fraction(x0) * (-1) ** (n // 2) * Fraction(kk) ** (n // 2) / _m.factorial(n)
                exv[n] = Fraction(w0) * (-1) ** (n // 2) * Fraction(kk) ** (n // 2) / _m.factorial(n)
            else:
                ex[n] = Fraction(w0) * (-1) ** ((n - 1) // 2) * Fraction(kk) ** ((n - 1) // 2) / _m.factorial(n)
                exv[n] = Fraction(x0) * (-1) ** ((n + 1) // 2) * Fraction(kk) ** ((n + 1) // 2) / _m.factorial(n)
        tolc = Fraction(1, 10**12)
        okx = all(abs(sx.c[n] - ex[n]) <= tolc for n in range(5))
        okv = all(abs(sv.c[n] - exv[n]) <= tolc for n in range(5))
        rep.side(f'{name}:order-4/k{kk}/x{x0}/v{w0}', okx and okv, {'position_coefficients': [float(x) for x in sx.c[:6]], 'velocity_coefficients': [float(x) for x in sv.c[:6]]})
    rng = random.Random(rep.seed + 3)
    for _ in range(2):
        env = {'k': rng.uniform(0.5, 2), 'dt': rng.uniform(0.05, 0.3), 'p0': rng.uniform(-1, 1), 'v0': rng.uniform(-1, 1)}
        fp, fv = run(env['dt'], env['k'], env['p0'], env['v0'], float_mode=True)
        rep.translator += 1
        if not (cm.rel_close(evalf(ep, env), float(fp), 1e-9) and cm.rel_close(evalf(ev, env), float(fv), 1e-9)):
            rep.error(f'translator validation failed for {name}')
    rep.sample({'case': name, 'free_variables': 'x0, v0, dt, k'})


def verlet_case(rep, M, qt, kind='verlet', nt='LEGENDRE'):
    from pySDC.implementations.sweeper_classes.verlet import verlet as verlet_cls
    from pySDC.implementations.sweeper_classes.boris_2nd_order import boris_2nd_order

    verlet = verlet_cls if kind == 'verlet' else boris_2nd_order
    SymOsc_ = SymOsc if kind == 'verlet' else SymOscB
    j0 = 1 if kind == 'verlet' else 0  # the Boris sweeper also carries the column of the start value (explicit part)
    rep.func(verlet.update_nodes, verlet.integrate, verlet.compute_end_point)
    name = f'{kind}/M{M}/{qt}' + ('' if nt == 'LEGENDRE' else f'/{nt}')
    kv, dtv = z3.Real('k'), z3.Real('dt')
    if kind == 'boris':
        # the Boris sweeper multiplies its node-to-node matrices in floats (SQ = S Q): its update equals the 0-to-node form only up to rounding, so the
        # claim carries a tolerance; coefficient and step size are concrete there (the query stays linear), the data are symbolic in the unit box
        kv, dtv = rv(frac(1.5)), rv(frac(0.25))
    V = {}

    def setup(dt, k, vals, float_mode=False):
        L = cm.make_level(SymOsc_, {'k': k, 'dtype': (np.dtype('float64') if float_mode else sp.ODT)}, verlet,
                          {'num_nodes': M, 'quad_type': qt, 'node_type': nt}, dt)
        P = L.prob
        for m in range(M + 1):
            u = P.dtype_u(P.init)
            u.pos[:] = vals[f'p{m}']
            u.vel[:] = vals[f'v{m}']
            L.u[m] = u
            L.f[m] = P.eval_f(u, 0.0)
        for m in range(M):
            t = P.dtype_u(P.init)
            t.pos[:] = vals[f'tp{m}']
            t.vel[:] = vals[f'tv{m}']
            L.tau[m] = t
        return L

    names = [f'p{m}' for m in range(M + 1)] + [f'v{m}' for m in range(M + 1)] + [f'tp{m}' for m in range(M)] + [f'tv{m}' for m in range(M)]
    zv = {n: z3.Real(n) for n in names}

    def fn(c):
        c.add(dtv > 0)
        L = setup(SymReal(dtv), SymReal(kv), {n: SymReal(v) for n, v in zv.items()})
        sw = L.sweep
        mats = dict(Q=np.array(sw.coll.Qmat), QT=np.array(sw.QT), Qx=np.array(sw.Qx), QQ=np.array(sw.QQ), qQ=np.array(sw.qQ),
                    w=np.array(sw.coll.weights))
        sw.update_nodes()
        pos = [R(L.u[m].pos.ravel()[0]) for m in range(1, M + 1)]
        vel = [R(L.u[m].vel.ravel()[0]) for m in range(1, M + 1)]
        sw.compute_end_point()
        return dict(mats=mats, pos=pos, vel=vel, ep=R(L.uend.pos.ravel()[0]), ev=R(L.uend.vel.ravel()[0]),
                    copy=bool(kind == 'verlet' and sw.coll.right_is_node and not sw.params.do_coll_update))

    paths = explore(fn)
    rep.paths += len(paths)
    for p in paths:
        r = p.result
        mt = r['mats']
        Q, QT, Qx, QQ = mt['Q'], mt['QT'], mt['Qx'], mt['QQ']
        # the second-order matrix the specification is stated with: twice the collocation matrix, Q Q (for Gauss-Lobatto nodes of the LEGENDRE family
        # the sweeper documents the Lobatto IIIA-IIIB pair instead)
        if kind == 'verlet' and not (nt == 'LEGENDRE' and qt == 'LOBATTO'):
            rep.side(f'{name}:second-order-matrix-is-Q-times-Q', bool(np.allclose(QQ, Q @ Q, atol=1e-14, rtol=0)), {'QQ': QQ.tolist(), 'Q@Q': (Q @ Q).tolist()})
        fold = [-kv * zv[f'p{m}'] for m in range(M + 1)]
        fnew = [fold[0]] + [-kv * x for x in r['pos']]
        eqs = []
        for m in range(1, M + 1):
            ps = zv['p0'] + zv[f'tp{m-1}']
            vs = zv['v0'] + zv[f'tv{m-1}']
            for j in range(j0, M + 1):
                ps = ps + dtv * rv(Q[m, j]) * zv['v0'] + dtv * dtv * (rv(QQ[m, j]) - rv(Qx[m, j])) * fold[j]
                vs = vs + dtv * (rv(Q[m, j]) - rv(QT[m, j])) * fold[j]
            for j in range(j0, m):
                ps = ps + dtv * dtv * rv(Qx[m, j]) * fnew[j]
            for j in range(j0, m + 1):
                vs = vs + dtv * rv(QT[m, j]) * fnew[j]
            eqs += [r['pos'][m - 1] == ps, r['vel'][m - 1] == vs]
        if r['copy']:
            end = [r['ep'] == r['pos'][-1], r['ev'] == r['vel'][-1]]
        else:
            ep, ev = zv['p0'] + zv[f'tp{M-1}'], zv['v0'] + zv[f'tv{M-1}']
            for m in range(M):
                ep = ep + dtv * dtv * rv(mt['qQ'][m]) * fnew[m + 1] + dtv * rv(mt['w'][m]) * zv['v0']
                ev = ev + dtv * rv(mt['w'][m]) * fnew[m + 1]
            end = [r['ep'] == ep, r['ev'] == ev]
        assumptions = list(p.assume) + list(p.pc)
        goals = (('update_nodes', z3.And(eqs)), ('end_point', z3.And(end)))
        if kind == 'boris':
            tol = rv(1e-12)
            within = lambda e: z3.And(e.arg(0) - e.arg(1) <= tol, e.arg(1) - e.arg(0) <= tol)
            goals = (('update_nodes', z3.And([within(e) for e in eqs])), ('end_point', z3.And([within(e) for e in end])))
            assumptions = assumptions + [z3.And(v >= -1, v <= 1) for v in zv.values()]
        for clause, goal in goals:
            res, model = prove(goal, assumptions, timeout_ms=120000, name=f'{name}:{clause}')
            rep.ob(f'{name}:{clause}', res)
            if res == 'sat':
                env = cm.model_env(model, list(zv.values()) + ([kv, dtv] if kind == 'verlet' else []))
                if kind == 'boris':
                    env.update(k=1.5, dt=0.25)
                # replay on the float particles type
                rep.replayed += 1
                Lf = setup(env['dt'], env['k'], {n: env[n] for n in names}, float_mode=True)
                Lf.sweep.update_nodes()
                Lf.sweep.compute_end_point()
                obs = [float(Lf.u[m].pos.ravel()[0]) for m in range(1, M + 1)] + [float(Lf.u[m].vel.ravel()[0]) for m in range(1, M + 1)] + [float(Lf.uend.pos.ravel()[0]), float(Lf.uend.vel.ravel()[0])]
                terms_ = [e.arg(1) for e in eqs[0::2]] + [e.arg(1) for e in eqs[1::2]] + [e.arg(1) for e in end]
                # expected: evaluate the specification terms with the observed new values substituted
                sub = {**env}
                exp = []
                try:
                    subs = [(z3.Real(kk), rv(vv)) for kk, vv in env.items()]
                    for t, o in zip(terms_, obs):
                        val = z3.simplify(z3.substitute(z3.substitute(t, *[(r['pos'][i], rv(obs[i])) for i in range(M)]), *subs))
                        exp.append(float(val.numerator_as_long()) / float(val.denominator_as_long()))
                except Exception as e:
                    rep.unreproduced(f'{name}:{clause}', f'{type(e).__name__}: {e}')
                    continue
                dev = max(abs(a - b) for a, b in zip(obs, exp))
                if dev > 1e-8 * (1 + max(abs(x) for x in exp)):
                    rep.violation(f'{PID}/{kind}/{clause}', f'{name}: second-order sweep deviates from its matrix form by {dev:.3e}',
                                  {'task': [kind, M, qt], 'clause': clause, 'env': env, 'observed': obs, 'expected': exp})
                else:
                    rep.unreproduced(f'{name}:{clause}', {'env': env, 'observed': obs, 'expected': exp})
        # vacuity / sensitivity
        bad = list(eqs)
        bad[-1] = (r['vel'][M - 1] == eqs[-1].arg(1) + dtv * rv(1e-9) * fold[1])
        res, _ = prove(z3.And(bad), assumptions, name=f'{name}:mutated', kind='vacuity')
        rep.vac(f'{name}:mutated-spec-refuted', res, 'sat')
        # held matrices against their definition (concrete side conditions)
        sw = setup(0.1, 1.0, {n: 0.0 for n in names}, float_mode=True).sweep
        QI = sw.get_Qdelta_implicit(sw.params.QI)
        QE = sw.get_Qdelta_explicit(sw.params.QE)
        rep.side(f'{name}/QT', np.allclose(sw.QT, 0.5 * (QI + QE), atol=1e-15))
        rep.side(f'{name}/Qx', np.allclose(sw.Qx, QE @ (0.5 * (QI + QE)) + 0.5 * QE * QE, atol=1e-15))
        if not (sw.coll.node_type == 'LEGENDRE' and qt == 'LOBATTO'):
            rep.side(f'{name}/QQ', np.allclose(sw.QQ, sw.coll.Qmat @ sw.coll.Qmat, atol=1e-15))
        rep.side(f'{name}/qQ', np.allclose(sw.qQ, sw.coll.weights @ sw.coll.Qmat[1:, 1:], atol=1e-15))
        # translator validation
        rng = random.Random(M * 17 + rep.seed)
        for _ in range(2):
            env = {n: rng.uniform(-1, 1) for n in names}
            env['k'] = rng.uniform(0.5, 2) if kind == 'verlet' else 1.5
            env['dt'] = rng.uniform(0.05, 0.5) if kind == 'verlet' else 0.25
            Lf = setup(env['dt'], env['k'], {n: env[n] for n in names}, float_mode=True)
            Lf.sweep.update_nodes()
            ref = [float(Lf.u[m].pos.ravel()[0]) for m in range(1, M + 1)] + [float(Lf.u[m].vel.ravel()[0]) for m in range(1, M + 1)]
            got = [evalf(t, env) for t in r['pos'] + r['vel']]
            rep.translator += 1
            if not all(cm.rel_close(a, b, 1e-7) for a, b in zip(got, ref)):
                rep.error(f'translator validation failed for {name}')
    rep.sample({'case': name, 'free_variables': 'positions, velocities, tau (pos/vel), k, dt'})


# ------------------------------------------------------------------------------------------------ QDiagonalization


class DiagProb(Problem):
    """u' = lam*u on complex data; solve_jacobian inverts (1 - factor*lam) with complex factor"""

    dtype_u = mesh
    dtype_f = mesh

    def __init__(self, lam, lamE=0.0, dtype=sp.ODT, imex=False):
        super().__init__(init=(1, None, dtype))
        self.lam = lam
        self.lamE = lamE
        self.imex = imex
        if imex:
            self.dtype_f = imex_mesh

    def eval_f(self, u, t):
        f = self.dtype_f(self.init)
        if self.imex:
            f.impl[:] = u * self.lam
            f.expl[:] = u * self.lamE
        else:
            f[:] = u * self.lam
        return f

    def solve_jacobian(self, rhs, factor, u=None, t=0):
        me = self.dtype_u(self.init)
        lam = self.lam + self.lamE if self.imex else self.lam
        me[:] = rhs / (1 - factor * lam)
        return me

    solve_system = solve_jacobian


def diag_run(M, kind, dt, lam, lamE, u0, float_mode=False, reconf=None, dt_first=None):
    from pySDC.implementations.sweeper_classes.ParaDiagSweepers import QDiagonalization, QDiagonalizationIMEX

    cls = QDiagonalizationIMEX if kind == 'imex' else QDiagonalization
    dtype = np.dtype('complex128') if float_mode else sp.ODT
    L = cm.make_level(DiagProb, {'lam': lam, 'lamE': lamE, 'dtype': dtype, 'imex': kind == 'imex'}, cls,
                      {'num_nodes': M, 'quad_type': 'RADAU-RIGHT', 'ignore_ic': False, 'update_f_evals': True}, dt if dt_first is None else dt_first)
    P = L.prob
    L.u[0] = P.dtype_u(P.init)
    L.u[0][0] = u0
    L.f[0] = P.eval_f(L.u[0], 0.0)
    for m in range(1, M + 1):
        L.u[m] = P.dtype_u(P.init)
        L.u[m][0] = 0.0
    if reconf is not None:
        L.sweep.set_G_inv(np.array(reconf, dtype=float))  # re-configured after construction through the public setter
    L.sweep.update_nodes()
    if dt_first is not None:  # the same sweeper applied again after the step size of its level was changed (what step-size control does between blocks)
        L.params.dt = dt
        L.f[0] = P.eval_f(L.u[0], 0.0)
        for m in range(1, M + 1):
            L.u[m] = P.dtype_u(P.init)
            L.u[m][0] = 0.0
        L.sweep.update_nodes()
    return L


def diag_case(rep, M, kind, tol=1e-9, configs=None, reconf=False, dt_first=None):
    from pySDC.implementations.sweeper_classes.ParaDiagSweepers import QDiagonalization

    rep.func(QDiagonalization.update_nodes, QDiagonalization.mat_vec, QDiagonalization.computeDiagonalization)
    rng = random.Random(1000 * M + rep.seed + (7 if kind == 'imex' else 0))
    configs = configs or [(0.1, -1.0, 0.0 if kind != 'imex' else 0.3), (rng.uniform(0.05, 0.5), rng.uniform(-5, 0), 0.0 if kind != 'imex' else rng.uniform(-1, 1))]
    xr, xi = z3.Real('u0_re'), z3.Real('u0_im')
    for (dt, lam, lamE) in configs:
        name = f'diag/{kind}/M{M}/dt{dt:.3g}/lam{lam:.3g}' + ('/reconfigured' if reconf else '') + (f'/after-an-application-with-dt{dt_first:g}' if dt_first else '')
        # G: identity, or (reconf) a well conditioned upper triangular matrix installed with set_G_inv after the sweeper was built:
        # the sweeper then solves (G - dt lam Q) y = u0
        G = np.eye(M) + (np.triu(np.full((M, M), 0.25), 1) if reconf else 0)
        Ginv = np.linalg.inv(G) if reconf else None

        def fn(c):
            c.add(z3.And(xr >= -1, xr <= 1, xi >= -1, xi <= 1))
            L = diag_run(M, kind, dt, lam, lamE, SymComplex(xr, xi), reconf=Ginv, dt_first=dt_first)
            Q = np.array(L.sweep.coll.Qmat)
            return [SymComplex.lift(L.u[m][0]) for m in range(1, M + 1)], Q

        paths = explore(fn)
        rep.paths += len(paths)
        for p in paths:
            U, Q = p.result
            lt = lam + lamE
            goal = []
            for m in range(1, M + 1):
                dre = -xr
                dim = -xi
                for j in range(1, M + 1):
                    dre = dre + rv(G[m - 1, j - 1] - dt * Q[m, j] * lt) * U[j - 1].re
                    dim = dim + rv(G[m - 1, j - 1] - dt * Q[m, j] * lt) * U[j - 1].im
                goal += [dre <= rv(tol), dre >= rv(-tol), dim <= rv(tol), dim >= rv(-tol)]
            res, model = prove(z3.And(goal), list(p.assume) + list(p.pc), name=name)
            rep.ob(name, res)
            if res == 'sat':
                rep.replayed += 1
                x = complex(float(core.model_value(model, xr)), float(core.model_value(model, xi)))
                Lf = diag_run(M, kind, dt, lam, lamE, x, float_mode=True, reconf=Ginv, dt_first=dt_first)
                Uf = np.array([complex(Lf.u[m][0]) for m in range(1, M + 1)])
                defect = G @ Uf - x - dt * lt * (Q[1:, 1:] @ Uf)
                if np.max(np.abs(defect)) > 1e-8:
                    rep.violation(f'{rep.pid}/QDiagonalization/{kind}/collocation-solve' + ('/step-size-changed' if dt_first else ''),
                                  f'{name}: diagonalisation sweep leaves collocation defect {np.max(np.abs(defect)):.3e}',
                                  {'task': ['diag', M, kind, reconf, dt_first], 'dt': dt, 'lam': lam, 'lamE': lamE, 'u0': [x.real, x.imag], 'defect': np.abs(defect).tolist()})
                else:
                    rep.unreproduced(name, {'u0': [x.real, x.imag], 'defect': np.abs(defect).tolist()})
            # sensitivity: a 1e-6 change of one Q entry in the spec must be noticed
            Q2 = Q.copy()
            Q2[M, 1] += 1e-6
            goal2 = []
            for m in (M,):
                dre = -xr
                for j in range(1, M + 1):
                    dre = dre + rv(G[m - 1, j - 1] - dt * Q2[m, j] * lt) * U[j - 1].re
                goal2 += [dre <= rv(tol), dre >= rv(-tol)]
            res, _ = prove(z3.And(goal2), list(p.assume) + list(p.pc), name=name + ':mutated', kind='vacuity')
            rep.vac(name + ':mutated-spec-refuted', res, 'sat')
    rep.sample({'case': f'diag/{kind}/M{M}', 'free_variables': 'complex u0 in the unit box', 'tolerance': tol})


# ------------------------------------------------------------------------------------------------ linear multistep sweepers


def multistep_case(rep, name):
    """u_new - dt beta_k F(u_new) = -sum_i alpha_i u_i + sum_i dts_i beta_i f_i  for the cached previous values (arbitrary symbolic)"""
    import pySDC.implementations.sweeper_classes.Multistep as ms

    cls = getattr(ms, name)
    rep.func(ms.MultiStep.update_nodes, ms.Cache.update)
    k = len(cls.alpha)
    dtv, lam = z3.Real('dt'), z3.Real('lam')
    uv = [z3.Real(f'u{i}') for i in range(k)]

    def build(dt, lam_, us, float_mode=False):
        pc, pp = (ss.FLin, {'A': np.array([[lam_]])}) if float_mode else (sp.LinProb, {'A': np.array([[lam_]], dtype=object)})
        L = cm.make_level(pc, pp, cls, {}, dt)
        P = L.prob
        L.status.time = (k - 1) * dt
        for i in range(k):
            u = P.dtype_u(P.init)
            u[0] = us[i]
            L.sweep.cache.update(i * dt, u, P.eval_f(u, i * dt))
        L.u[0] = P.dtype_u(L.sweep.cache.u[-1])
        L.sweep.update_nodes()
        return L

    c = core.Ctx()
    core.Ctx.cur = c
    try:
        c.add(dtv > 0)
        sp.DENOMS.clear()
        L = build(SymReal(dtv), SymReal(lam), [SymReal(v) for v in uv])
        new = R(L.u[1][0])
        den = [d != 0 for d in sp.DENOMS]
        cache_ok = R(L.sweep.cache.u[-1][0]).eq(new)
    finally:
        core.Ctx.cur = None
    rep.paths += 1
    al, be = cls.alpha, cls.beta
    spec_rhs = sum(-rv(al[i]) * uv[i] + dtv * rv(be[i]) * lam * uv[i] for i in range(k))
    goal = new - dtv * rv(be[-1]) * lam * new == spec_rhs
    res, m = prove(goal, [dtv > 0] + den, name=f'multistep/{name}')
    rep.ob(f'multistep/{name}', res)
    rep.side(f'multistep/{name}:cache-holds-new-value', bool(cache_ok))
    if res == 'sat':
        rep.replayed += 1
        env = {str(v): float(core.model_value(m, v)) for v in [dtv, lam] + uv}
        Lf = build(env['dt'], env['lam'], [env[f'u{i}'] for i in range(k)], float_mode=True)
        got = float(Lf.u[1][0])
        ex = sum(-al[i] * env[f'u{i}'] + env['dt'] * be[i] * env['lam'] * env[f'u{i}'] for i in range(k)) / (1 - env['dt'] * be[-1] * env['lam'])
        if abs(got - ex) > 1e-8 * (1 + abs(ex)):
            rep.violation(f'{PID}/multistep/{name}', f'multistep/{name}: new value {got!r}, linear multistep formula gives {ex!r} for {env}', {'task': ['multistep', name], 'env': env, 'observed': got, 'expected': ex})
        else:
            rep.unreproduced(f'multistep/{name}', env)
    rep.sample({'case': f'multistep/{name}', 'steps': k, 'free_variables': 'previous values, dt, lambda'}, limit=8)

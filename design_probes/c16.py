import numpy as np, os
from pySDC.helpers.fieldsIO import Scalar, FieldsIO
fn='/tmp/probe/t.pysdc'
if os.path.exists(fn): os.remove(fn)
f=Scalar(np.float64, fn); f.setHeader(nVar=2); f.initialize()
f.addField(0.0, np.array([1.0,2.0]))
full=os.path.getsize(fn)
f.addField(1.0, np.array([3.0,4.0]))
# crash: cut the second record after 5 bytes
with open(fn,'r+b') as fh: fh.truncate(full+5)
g=FieldsIO.fromFile(fn); print('after crash nFields', g.nFields, g.readField(0))
g.addField(2.0, np.array([5.0,6.0]))
print('after re-append nFields', g.nFields, 'times', g.times, 'field1', g.readField(1))

#!/bin/bash
# development aid: all quick checks in /verif against /repo (writes the evidence files that get committed); one summary line per property
cd /verif
for p in C01 C02 C03 C04 C05 C06 C07 C09 C10 C11 C14 C15 C16 C17 C18 C19 C20; do
  ./check $p > /dev/shm/here_$p.log 2>&1
  echo "$p exit=$? $(grep "^\[$p\]" /dev/shm/here_$p.log | cut -c1-170)"
done

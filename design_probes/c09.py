import numpy as np, logging
logging.disable(50)
from pySDC.implementations.controller_classes.controller_nonMPI import controller_nonMPI
from pySDC.implementations.problem_classes.TestEquation_0D import testequation0d
from pySDC.implementations.sweeper_classes.generic_implicit import generic_implicit
from pySDC.implementations.convergence_controller_classes.basic_restarting import BasicRestartingNonMPI
from pySDC.core.convergence_controller import ConvergenceController
from pySDC.core.hooks import Hooks
from pySDC.helpers.stats_helper import get_sorted
# restart requests: (start time, attempt index at that time) -> True
PLAN={(0.375,0):True,(0.5,0):True,(0.5,1):True,(0.5,2):True}
ATT={}
class Inject(ConvergenceController):
    def setup(self, controller, params, description, **kw):
        return {'control_order': 90, **super().setup(controller, params, description, **kw)}
    def determine_restart(self, controller, S, **kw):
        if S.status.iter>=S.params.maxiter:
            k=round(S.time,9); n=ATT.get(k,0); ATT[k]=n+1
            S.status.restart=PLAN.get((k,n),False)
LOG=[]
class Rec(Hooks):
    def post_step(self,step,level_number):
        super().post_step(step,level_number); L=step.levels[0]
        LOG.append((step.status.slot,L.time,bool(step.status.restart),step.status.restarts_in_a_row))
desc=dict(problem_class=testequation0d, problem_params={'lambdas':np.array([-1.0]),'u0':1.0}, sweeper_class=generic_implicit,
  sweeper_params={'num_nodes':2,'quad_type':'RADAU-RIGHT'}, level_params={'dt':0.125,'restol':-1}, step_params={'maxiter':1},
  convergence_controllers={Inject:{}, BasicRestartingNonMPI:{'max_restarts':2}})
ctl=controller_nonMPI(3, {'logger_level':50,'hook_class':[Rec],'mssdc_jac':False}, desc)
P=ctl.MS[0].levels[0].prob
try:
    u,stats=ctl.run(P.u_exact(0),0.0,0.625)
    print('finished; niter records (recomputed filtered):',[t for t,_ in get_sorted(stats,type='niter',recomputed=False)])
except Exception as e: print('EXC',type(e).__name__,e)
for l in LOG: print(l)

"""C09 -- restarts and step-size control keep their promises for every failure sequence"""
import json
import logging
from types import SimpleNamespace
from fractions import Fraction

import numpy as np
import z3

from symx import core
from symx.core import SymReal, SymInt, SymBool, R, I, B, rv, Ctx, explore, prove, satisfiable, coverage_certificate, model_value

from pySDC.core.convergence_controller import ConvergenceController
from pySDC.core.errors import ConvergenceError
from pySDC.core.hooks import Hooks
from pySDC.helpers.stats_helper import get_sorted, filter_stats
from pySDC.implementations.controller_classes.controller_nonMPI import controller_nonMPI
from pySDC.implementations.convergence_controller_classes.basic_restarting import BasicRestartingNonMPI
from pySDC.implementations.convergence_controller_classes.spread_step_sizes import SpreadStepSizesBlockwiseNonMPI
from pySDC.implementations.problem_classes.TestEquation_0D import testequation0d
from pySDC.implementations.sweeper_classes.generic_implicit import generic_implicit

PID = 'C09'
BOUNDS = {'quick': dict(state_machine_NP='1..3', histories='NP<=3, max_restarts<=2, <=5 steps', order='1..5'), 'thorough': dict(state_machine_NP='1..4', histories='NP<=4, max_restarts<=3, <=6 steps', order='1..5')}
DT = 0.125  # exactly representable: accepted start times are exact multiples


def describe(rep):
    from pySDC.implementations.convergence_controller_classes.adaptivity import AdaptivityBase, Adaptivity
    from pySDC.implementations.convergence_controller_classes.step_size_limiter import StepSizeLimiter, StepSizeSlopeLimiter

    C = controller_nonMPI
    rep.func(BasicRestartingNonMPI.determine_restart, BasicRestartingNonMPI.prepare_next_block,
             SpreadStepSizesBlockwiseNonMPI.prepare_next_block, SpreadStepSizesBlockwiseNonMPI.get_step_from_which_to_spread,
             AdaptivityBase.compute_optimal_step_size, AdaptivityBase.determine_restart, Adaptivity.get_new_step_size,
             StepSizeLimiter.get_new_step_size, StepSizeSlopeLimiter.get_new_step_size, C.run, C.restart_block, C.it_check)
    from pySDC.implementations.convergence_controller_classes import adaptivity as ad

    rep.func(ad.Adaptivity.dependencies, ad.AdaptivityBase.dependencies, BasicRestartingNonMPI.dependencies, C.run, C.restart_block)
    rep.func(ad.AdaptivityRK.get_new_step_size, ad.AdaptivityResidual.get_new_step_size, ad.AdaptivityForConvergedCollocationProblems.determine_restart,
             ad.AdaptivityForConvergedCollocationProblems.trigger_restart_upon_nonconvergence, ad.AdaptivityPolynomialError.get_new_step_size,
             ad.AdaptivityExtrapolationWithinQ.get_new_step_size, ad.AdaptivityCollocation.get_new_step_size, ad.AdaptivityCollocation.determine_restart)
    rep.explanation = (
        '(a) one transition of the restart state machine from an ARBITRARY state: real determine_restart / prepare_next_block of '
        'BasicRestartingNonMPI and SpreadStepSizesBlockwiseNonMPI on symbolic restart requests, counters, budget, step sizes, times; per '
        'path SMT validity of: propagation to later steps, ConvergenceError iff first step over budget requests a restart, counter update, '
        'one step size for all steps and levels, Tend clamp. (b) histories: the real controller run with symbolic restart requests at every '
        '(step, attempt); every feasible history executed; tiling, exact chaining, returned value, retry budget, termination asserted per '
        'path. (c) real compute_optimal_step_size / limiters / Adaptivity on symbolic reals: proposal = beta dt (tol/err)^(1/order) (power '
        'encoded algebraically), limiter result = specified clip, rejected step is retried with a smaller step unless a lower limit binds. The same '
        'for AdaptivityRK, AdaptivityResidual and the classes for converged collocation problems (AdaptivityPolynomialError, '
        'AdaptivityExtrapolationWithinQ, AdaptivityCollocation): real get_new_step_size + determine_restart on symbolic residual, tolerances, estimates, '
        'previous residual, reduction factor; a restarted step gets a smaller step, a converged step that is kept has an estimate within the tolerance.'
    )
    rep.explanation += (' (d) adaptive runs: the real controller with the real Adaptivity and everything its dependencies load (EstimateEmbeddedError with the numerical estimate '
                        'replaced by a fresh positive real per call, StepSizeLimiter, BasicRestartingNonMPI, SpreadStepSizesBlockwiseNonMPI); t0, dt, Tend, dt_min, dt_max, the start value and one '
                        'estimate per attempt are symbolic reals, the time step is an uninterpreted function of (value, time, step size); every feasible accept / reject / clamp pattern is executed; per path: '
                        'tiling, exact chaining, accepted steps within the tolerance unless the budget is used up, proposal = beta dt (tol/err)^(1/order) clipped to [dt_min, dt_max], one step size per block, '
                        'retry from the first rejected step with a smaller step unless dt_min binds; models are replayed on the float classes with the estimates of the model.')
    rep.rule = 'state = explored path (restart-request pattern / branch pattern of the controllers); transition = branch decision; retry budgets 0..3; the restart counter of every attempt is compared with the history (number of restarts of the step with that start time in a row); case cc_params: configured parameters of the restart / step-size controllers arrive unchanged at the objects a real controller carries (ENUMERATED)'
    rep.assume('restart requests are injected by a harness convergence controller (control order 90) when iter >= maxiter',
               'fixed exactly representable dt in (b) so that accepted start times are exact', 'beta <= 1 (beta < 1 for the strict retry-with-smaller-step clause), e_est > 0, e_tol > 0 in (c)', 'factor_if_not_converged > 1, residual_max_tol > restol (sensible configuration)')
    rep.out_of_scope('error estimators themselves (numerical quantities)', 'EstimateContractionFactor (its outputs are symbolic inputs of the avoid_restarts rule), StepSizeRounding (rounds by powers of ten through log10), interpolation between restarts beyond the listed histories', 'MPI flavours',
                     'NP > 4, more than 6 steps, max_restarts > 3 in (b)', '(d): at most N = 2 accepted steps (Tend - t0 <= 2 dt_min; N = 3 does not finish), order 1 (2 in the thorough tier), beta = 9/10, e_tol = 1, estimates > 1/1000')


def tasks(tier, seed):
    T = []
    quick = tier == 'quick'
    for NP in ([1, 2, 3] if quick else [1, 2, 3, 4]):
        for first in (False, True):
            for crash in (True, False):
                T.append(('sm', NP, first, crash))
    for NP in ([1, 2, 3] if quick else [1, 2, 3, 4]):
        for NL in (1, 2):
            for first in (False, True):
                T.append(('spread', NP, NL, first))
    T.append(('lim',))
    for order in (1, 2, 3, 4, 5):
        T.append(('opt', order))
    T.append(('adapt',))
    T.append(('adapt_rk',))
    T.append(('adapt_res',))
    T.append(('adapt_avoid',))
    T.append(('cc_params',))
    for which in ('poly', 'extra', 'coll'):
        T.append(('adapt_conv', which))
    for a in ([(1, 1, True, 2, 1), (1, 1, False, 2, 1), (2, 1, True, 2, 1)] if quick else [(1, 1, True, 2, 1), (1, 1, False, 2, 1), (2, 1, True, 2, 1), (1, 2, True, 2, 1), (2, 1, False, 2, 1), (3, 1, True, 2, 1), (1, 1, True, 2, 2)]):  # (three accepted steps, N = 3, do not finish: > 7 min of exploration per configuration)
        T.append(('adrun',) + a)
    hist = [(1, 2, 3, False, True), (2, 1, 4, False, True), (2, 2, 4, False, True), (2, 2, 4, True, True), (2, 1, 4, False, False),
            (3, 1, 4, False, True), (3, 2, 5, False, True), (3, 2, 4, True, True)] if quick else \
           [(1, 3, 4, False, True), (2, 2, 5, False, True), (2, 3, 5, True, True), (2, 2, 5, False, False), (3, 2, 6, False, True),
            (3, 3, 5, False, True), (3, 2, 6, True, True), (3, 2, 5, False, False), (4, 1, 6, False, True), (4, 2, 6, False, True)]
    shr = [(2, 1, 3, False, True), (3, 1, 4, False, True), (2, 2, 3, True, True), (4, 1, 5, False, True)] if quick else \
          [(2, 2, 4, False, True), (3, 1, 5, False, True), (3, 2, 4, True, True), (4, 1, 6, False, True), (4, 1, 5, False, False)]
    for h in shr:  # restarts that halve the step size, blocks longer than the remaining interval included
        T.append(('hist',) + h + ([], True))
    # two-level runs (the multi-level stage functions carry the restarts / step-size changes too)
    for h, o in ([((2, 1, 3, False, True), {'shrink': False, 'NL': 2}), ((2, 1, 3, False, True), {'shrink': True, 'NL': 2}), ((2, 1, 3, False, True), {'shrink': True, 'NL': 2, 'fine_only_dt': True}), ((1, 1, 3, False, True), {'shrink': True, 'NL': 2, 'fine_only_dt': True})] if quick else
                 [((2, 2, 4, False, True), {'shrink': False, 'NL': 2}), ((3, 1, 4, False, True), {'shrink': True, 'NL': 2}), ((2, 2, 4, True, True), {'shrink': False, 'NL': 2}),
                  ((3, 1, 4, False, True), {'shrink': False, 'NL': 2}), ((2, 1, 4, False, True), {'shrink': True, 'NL': 2, 'fine_only_dt': True}), ((3, 1, 4, True, True), {'shrink': True, 'NL': 2, 'fine_only_dt': True})]):
        T.append(('hist',) + h + ([], o))
    # restarts that change the step size with the shipped InterpolateBetweenRestarts controller loaded; retry budget exhausted with and without a crash
    for h in [(1, 1, 3, False, False), (1, 1, 3, False, True), (2, 1, 3, False, False), (3, 2, 4, False, False)]:
        T.append(('hist',) + h + ([], {'shrink': True, 'interp': True}))
    # steps that stop by a residual tolerance (every convergence pattern, later steps converging first included) with one restart request
    for h, K in ([((2, 1, 3, False, True), 2), ((3, 1, 3, False, True), 2)] if quick else [((2, 1, 3, False, True), 3), ((3, 1, 4, False, True), 2), ((2, 1, 3, True, True), 2), ((3, 1, 3, False, False), 2)]):
        T.append(('hist',) + h + ([], {'shrink': False, 'conv': K}))
    # the configured number of retries is zero (never retry: the first request ends the run, or is passed over)
    for h in [(1, 0, 2, False, True), (2, 0, 3, False, False), (2, 0, 3, True, True)] + ([] if quick else [(3, 0, 4, False, True), (3, 0, 4, False, False)]):
        T.append(('hist',) + h + ([],))
        T.append(('hist',) + h + ([], True))
    for h in hist:
        depth = 0 if h[0] < 3 else (3 if quick else 4)
        for bits in range(2 ** depth):
            prefix = [bool((bits >> i) & 1) for i in range(depth)]
            T.append(('hist',) + h + (prefix,))
    return T


def run_task(rep, task):
    if task[0] == 'sm':
        sm_case(rep, *task[1:])
    elif task[0] == 'spread':
        spread_case(rep, *task[1:])
    elif task[0] == 'lim':
        lim_case(rep)
    elif task[0] == 'opt':
        opt_case(rep, task[1])
    elif task[0] == 'adapt':
        adapt_case(rep)
    elif task[0] == 'adapt_rk':
        adapt_case(rep, rk=True)
    elif task[0] == 'adapt_res':
        adapt_residual_case(rep)
    elif task[0] == 'adapt_avoid':
        adapt_avoid_case(rep)
    elif task[0] == 'cc_params':
        cc_params_case(rep)
    elif task[0] == 'adapt_conv':
        adapt_conv_case(rep, task[1])
    elif task[0] == 'adrun':
        adrun_case(rep, *task[1:])
    elif task[0] == 'hist':
        hist_case(rep, *task[1:7], shrink=(task[7] if len(task) > 7 else False))


def base_desc(dt=DT, NL=1, extra_cc=None):
    d = dict(problem_class=testequation0d, problem_params={'lambdas': np.array([-1.0]), 'u0': 1.0}, sweeper_class=generic_implicit,
             sweeper_params={'num_nodes': [2, 1][:NL] if NL > 1 else 2, 'quad_type': 'RADAU-RIGHT'}, level_params={'dt': dt, 'restol': -1},
             step_params={'maxiter': 1})
    if NL > 1:
        from pySDC.implementations.transfer_classes.TransferMesh_NoCoarse import mesh_to_mesh

        d['space_transfer_class'] = mesh_to_mesh
    if extra_cc:
        d['convergence_controllers'] = extra_cc
    return d


def get_cc(ctl, cls):
    return [x for x in ctl.convergence_controllers if isinstance(x, cls)][0]


# ------------------------------------------------------------------------------------------------ (a) state machine


def sm_case(rep, NP, first, crash):
    name = f'sm/NP{NP}/first{int(first)}/crash{int(crash)}'
    mr = z3.Int('maxr')
    req = [z3.Bool(f'req{p}') for p in range(NP)]
    cnt = [z3.Int(f'n{p}') for p in range(NP)]
    pre = [mr >= 0] + [n >= 0 for n in cnt]
    times = [k * DT for k in range(NP)]

    def fn(c):
        for a in pre:
            c.add(a)
        ctl = controller_nonMPI(NP, {'logger_level': 50, 'dump_setup': False, 'mssdc_jac': False}, base_desc())
        ctl.restart_block(list(range(NP)), list(times), ctl.MS[0].levels[0].prob.u_exact(0))
        C = get_cc(ctl, BasicRestartingNonMPI)
        C.params.max_restarts = SymInt(mr)
        C.params.restart_from_first_step = first
        C.params.crash_after_max_restarts = crash
        for p, S_ in enumerate(ctl.MS):
            S_.status.__dict__['restart'] = SymBool(req[p])
            S_.status.__dict__['restarts_in_a_row'] = SymInt(cnt[p])
        C.reset_buffers_nonMPI(ctl)
        try:
            for S_ in ctl.MS:
                C.determine_restart(ctl, S_, MS=ctl.MS)
        except ConvergenceError:
            return ('crash',)
        post = [B(S_.status.restart) for S_ in ctl.MS]
        # concretise the flags the way the run loop does (np.where / 'True in restarts')
        for S_ in ctl.MS:
            S_.status.__dict__['restart'] = bool(S_.status.restart)
        flags = [S_.status.restart for S_ in ctl.MS]
        for S_ in ctl.MS:
            C.prepare_next_block(ctl, S_, NP, list(times), 10.0, MS=ctl.MS)
        newc = [I(S_.status.restarts_in_a_row) for S_ in ctl.MS]
        return ('ok', post, flags, newc)

    paths = explore(fn)
    rep.paths += len(paths)
    rep.decisions += sum(len(p.decisions) for p in paths)
    over = cnt[0] >= mr
    for i, p in enumerate(paths):
        res = p.result
        A = pre + list(p.pc)
        if res[0] == 'crash':
            r, m = prove(z3.And(over, req[0], z3.BoolVal(crash)), A, name=f'{name}/path{i}:crash-only-over-budget')
            rep.ob(f'{name}/path{i}:crash-only-over-budget', r)
            if r == 'sat':
                sm_triage(rep, NP, first, crash, m, mr, req, cnt, 'crash', name)
            continue
        _, post, flags, newc = res
        # no crash although the first step is over budget and asks for a restart (and crashing is configured)?
        r, m = prove(z3.Not(z3.And(over, req[0], z3.BoolVal(crash))), A, name=f'{name}/path{i}:crash-iff')
        rep.ob(f'{name}/path{i}:crash-iff', r)
        if r == 'sat':
            sm_triage(rep, NP, first, crash, m, mr, req, cnt, 'crash', name)
        if first:
            spec = [z3.And(z3.Or(req), z3.Not(over)) for p_ in range(NP)]
        else:
            spec = [z3.And(z3.Or(req[: p_ + 1]), z3.Not(over)) for p_ in range(NP)]
        r, m = prove(z3.And([post[p_] == spec[p_] for p_ in range(NP)]), A, name=f'{name}/path{i}:propagation')
        rep.ob(f'{name}/path{i}:propagation', r)
        if r == 'sat':
            sm_triage(rep, NP, first, crash, m, mr, req, cnt, 'propagation', name)
        # counters: new slot i inherits the step that was at slot i + restart_from
        rf = min([q for q in range(NP) if flags[q]] + [NP - 1])
        exp = []
        for i_ in range(NP):
            src = i_ + rf
            exp.append(cnt[src] + 1 if (src < NP and flags[src]) else z3.IntVal(0))
        r, m = prove(z3.And([newc[i_] == exp[i_] for i_ in range(NP)]), A, name=f'{name}/path{i}:counters')
        rep.ob(f'{name}/path{i}:counters', r)
        if r == 'sat':
            sm_triage(rep, NP, first, crash, m, mr, req, cnt, 'counters', name)
    r = coverage_certificate(paths, pre, name=f'{name}:coverage')
    rep.ob(f'{name}:coverage', r)
    rep.vac(f'{name}:crash-and-ok-paths', 'sat' if (not crash or {p.result[0] for p in paths} == {'crash', 'ok'}) else 'unsat', 'sat')
    rep.sample({'case': name, 'paths': len(paths), 'free_variables': 'restart requests, restarts_in_a_row per step, max_restarts'}, limit=4)


def sm_concrete(NP, first, crash, maxr, reqs, cnts):
    """the same transition on concrete values with the real classes"""
    times = [k * DT for k in range(NP)]
    ctl = controller_nonMPI(NP, {'logger_level': 50, 'dump_setup': False, 'mssdc_jac': False}, base_desc())
    ctl.restart_block(list(range(NP)), list(times), ctl.MS[0].levels[0].prob.u_exact(0))
    C = get_cc(ctl, BasicRestartingNonMPI)
    C.params.max_restarts = maxr
    C.params.restart_from_first_step = first
    C.params.crash_after_max_restarts = crash
    for p, S_ in enumerate(ctl.MS):
        S_.status.restart = bool(reqs[p])
        S_.status.restarts_in_a_row = int(cnts[p])
    C.reset_buffers_nonMPI(ctl)
    try:
        for S_ in ctl.MS:
            C.determine_restart(ctl, S_, MS=ctl.MS)
    except ConvergenceError:
        return dict(crash=True)
    post = [bool(S_.status.restart) for S_ in ctl.MS]
    for S_ in ctl.MS:
        C.prepare_next_block(ctl, S_, NP, list(times), 10.0, MS=ctl.MS)
    return dict(crash=False, post=post, newc=[int(S_.status.restarts_in_a_row) for S_ in ctl.MS])


def sm_expected(NP, first, crash, maxr, reqs, cnts):
    over = cnts[0] >= maxr
    if over and reqs[0] and crash:
        return dict(crash=True)
    if first:
        post = [any(reqs) and not over for _ in range(NP)]
    else:
        post = [any(reqs[: p + 1]) and not over for p in range(NP)]
    rf = min([q for q in range(NP) if post[q]] + [NP - 1])
    newc = [(cnts[i + rf] + 1 if (i + rf < NP and post[i + rf]) else 0) for i in range(NP)]
    return dict(crash=False, post=post, newc=newc)


def sm_triage(rep, NP, first, crash, m, mr, req, cnt, clause, name):
    rep.replayed += 1
    maxr = int(model_value(m, mr))
    reqs = [bool(model_value(m, r)) for r in req]
    cnts = [int(model_value(m, n)) for n in cnt]
    obs = sm_concrete(NP, first, crash, maxr, reqs, cnts)
    exp = sm_expected(NP, first, crash, maxr, reqs, cnts)
    if obs != exp:
        which = 'counters' if (not obs.get('crash') and not exp.get('crash') and obs['post'] == exp['post']) else clause
        key = f'{PID}/restart-state-machine/{which}'
        rep.violation(key, f'{name}: max_restarts={maxr} requests={reqs} counters={cnts}: real code gives {obs}, specification {exp}',
                      {'task': ['sm', NP, first, crash], 'maxr': maxr, 'reqs': reqs, 'cnts': cnts, 'observed': obs, 'expected': exp})
    else:
        rep.unreproduced(f'{name}:{clause}', {'maxr': maxr, 'reqs': reqs, 'cnts': cnts, 'observed': obs})


# ------------------------------------------------------------------------------------------------ (a') step-size spreading


def spread_case(rep, NP, NL, first=False):
    name = f'spread/NP{NP}/NL{NL}/first{int(first)}'
    Tend = z3.Real('Tend')
    t0 = z3.Real('t0')
    dts = [z3.Real(f'dt{p}') for p in range(NP)]
    dtn = [z3.Real(f'dtnew{p}') for p in range(NP)]
    has = [z3.Bool(f'has{p}') for p in range(NP)]
    dti = z3.Real('dt_initial')
    rs = [z3.Bool(f'rs{p}') for p in range(NP)]
    # pre-state invariant: the steps of the current block share one step size (what this transition must re-establish), restarts are
    # already propagated to later steps, and the block lies before Tend
    pre = [d > 0 for d in dts] + [d == dts[0] for d in dts] + [d > 0 for d in dtn] + [dti > 0, Tend > t0 + (NP - 1) * dts[0]] + [z3.Implies(rs[p], rs[p + 1]) for p in range(NP - 1)]
    # step sizes below 1000 (the spreader uses 1e9 as a stand-in for 'no proposal'; astronomically large step sizes are not modelled)
    pre += [d <= 1000 for d in dts + dtn + [dti]]
    if first:  # restart_from_first_step: determine_restart makes all steps of the block restart together
        pre += [rs[p] == rs[0] for p in range(NP)]

    def fn(c):
        for a in pre:
            c.add(a)
        # the spreader is configured by the REAL BasicRestarting.dependencies from the restart mode
        ctl = controller_nonMPI(NP, {'logger_level': 50, 'dump_setup': False, 'mssdc_jac': False},
                                base_desc(NL=NL, extra_cc={BasicRestartingNonMPI: {'restart_from_first_step': first}}))
        ctl.restart_block(list(range(NP)), [0.0] * NP, ctl.MS[0].levels[0].prob.u_exact(0))
        C = get_cc(ctl, SpreadStepSizesBlockwiseNonMPI)
        time = [SymReal(t0)]
        for p in range(1, NP):
            time.append(time[-1] + SymReal(dts[p - 1]))
        flags = []
        for p, S_ in enumerate(ctl.MS):
            f = bool(SymBool(rs[p]))
            flags.append(f)
            S_.status.__dict__['restart'] = f
            hv = bool(SymBool(has[p]))
            for L in S_.levels:
                L.params.dt = SymReal(dts[p])
                L.params.dt_initial = SymReal(dti)
                L.status.dt_new = SymReal(dtn[p]) if hv else None
                L.status.time = time[p]
        # the run loop moves time[0] to the start of the next block before the convergence controllers prepare it
        if True in flags:
            time[0] = time[flags.index(True)]
        else:
            time[0] = time[NP - 1] + SymReal(dts[NP - 1])
        for S_ in ctl.MS:
            C.prepare_next_block(ctl, S_, NP, time, SymReal(Tend), MS=ctl.MS)
        out = [[R(L.params.dt) for L in S_.levels] for S_ in ctl.MS]
        hv = [ctl.MS[p].levels[0].status.dt_new is not None for p in range(NP)]
        return dict(out=out, flags=flags, hv=hv)

    paths = explore(fn, max_paths=50000)
    rep.paths += len(paths)
    rep.decisions += sum(len(p.decisions) for p in paths)
    for i, p in enumerate(paths):
        r = p.result
        A = pre + list(p.pc)
        flags, hv = r['flags'], r['hv']
        src = flags.index(True) if True in flags else NP - 1
        prop = dtn[src] if hv[src] else dts[src]
        if first and True in flags:
            # all steps restart from the first one: the retried block must use the SMALLEST proposal of the restarted steps
            cands = [dtn[q] for q in range(src, NP) if hv[q]]
            if cands:
                prop = cands[0]
                for x in cands[1:]:
                    prop = z3.If(x < prop, x, prop)
        out = r['out']
        # (1) all steps of the next block share one step size (per level), (2) never larger than the designated step's proposal,
        # (3) equal to it whenever NP steps of that size still fit before Tend (the clamp to reach Tend must not bind then)
        tsum = t0
        for q in range(NP):
            tsum = tsum + dts[q]
        goal = z3.And([out[p_][l_] == out[0][l_] for p_ in range(NP) for l_ in range(NL)] + [out[0][l_] <= prop for l_ in range(NL)]
                      + [z3.Implies(tsum + NP * prop <= Tend, out[0][l_] == prop) for l_ in range(NL)])
        res, m = prove(goal, A, name=f'{name}/path{i}:one-step-size')
        rep.ob(f'{name}/path{i}:one-step-size', res)
        if res == 'sat':
            rep.replayed += 1
            vals = {str(v): float(model_value(m, v)) for v in [Tend, t0, dti] + dts + dtn}
            bl = {str(v): bool(model_value(m, v)) for v in rs + has}
            obs, prop_f, fits = spread_concrete(NP, NL, vals, bl, first)
            if len({round(a, 12) for a in obs}) != 1 or obs[0] > prop_f * (1 + 1e-12) or (fits and abs(obs[0] - prop_f) > 1e-9 * (1 + prop_f)):
                rep.violation(f'{PID}/spread-step-sizes/one-step-size', f'{name}: next-block step sizes {obs}, proposal {prop_f} (fits before Tend: {fits}) for {vals} {bl}',
                              {'task': ['spread', NP, NL, first], 'vals': vals, 'flags': bl, 'observed': obs, 'proposal': prop_f})
            else:
                rep.unreproduced(f'{name}/path{i}', {'vals': vals, 'flags': bl, 'observed': obs, 'proposal': prop_f})
        res, m = prove(z3.And([o > 0 for row in r['out'] for o in row]), A, name=f'{name}/path{i}:positive')
        rep.ob(f'{name}/path{i}:positive', res)
        if res == 'sat':
            rep.unreproduced(f'{name}/path{i}:positive', 'non-positive step size model')
    r = coverage_certificate(paths, pre, name=f'{name}:coverage')
    rep.ob(f'{name}:coverage', r)
    rep.sample({'case': name, 'paths': len(paths), 'free_variables': 't0, Tend, dt per step, dt_new per step (or none), dt_initial, restart flags'}, limit=4)



def spread_concrete(NP, NL, vals, bl, first=False):
    ctl = controller_nonMPI(NP, {'logger_level': 50, 'dump_setup': False, 'mssdc_jac': False},
                            base_desc(NL=NL, extra_cc={BasicRestartingNonMPI: {'restart_from_first_step': first}}))
    ctl.restart_block(list(range(NP)), [0.0] * NP, ctl.MS[0].levels[0].prob.u_exact(0))
    C = get_cc(ctl, SpreadStepSizesBlockwiseNonMPI)
    time = [vals['t0']]
    for p in range(1, NP):
        time.append(time[-1] + vals[f'dt{p-1}'])
    flags = [bl[f'rs{p}'] for p in range(NP)]
    for p, S_ in enumerate(ctl.MS):
        S_.status.restart = flags[p]
        for L in S_.levels:
            L.params.dt = vals[f'dt{p}']
            L.params.dt_initial = vals['dt_initial']
            L.status.dt_new = vals[f'dtnew{p}'] if bl[f'has{p}'] else None
            L.status.time = time[p]
    if True in flags:
        time[0] = time[flags.index(True)]
    else:
        time[0] = time[NP - 1] + vals[f'dt{NP-1}']
    for S_ in ctl.MS:
        C.prepare_next_block(ctl, S_, NP, time, vals['Tend'], MS=ctl.MS)
    obs = [float(L.params.dt) for S_ in ctl.MS for L in S_.levels]
    src = flags.index(True) if True in flags else NP - 1
    prop = vals[f'dtnew{src}'] if bl[f'has{src}'] else vals[f'dt{src}']
    if first and True in flags:
        cands = [vals[f'dtnew{q}'] for q in range(src, NP) if bl[f'has{q}']]
        if cands:
            prop = min(cands)
    fits = vals['t0'] + sum(vals[f'dt{q}'] for q in range(NP)) + NP * prop <= vals['Tend']
    return obs, prop, fits


# ------------------------------------------------------------------------------------------------ (c) limiters, formula


def _mk(cls, params):
    o = cls.__new__(cls)
    o.params = SimpleNamespace(**params)
    o.params.get = lambda k, d=None: getattr(o.params, k, d)
    o.logger = logging.getLogger('x')
    o.log = lambda *a, **k: None
    o.debug = lambda *a, **k: None
    return o


def limiters_of_controller(params):
    """the step-size limiters a real controller loads for Adaptivity with the given limits, in the order in which the controller calls them
    (the dependencies of the real classes decide which limiter is loaded and with which control order)"""
    from pySDC.implementations.convergence_controller_classes.adaptivity import Adaptivity
    from pySDC.implementations.convergence_controller_classes.step_size_limiter import StepSizeLimiter, StepSizeSlopeLimiter

    ctl = controller_nonMPI(1, {'logger_level': 50, 'dump_setup': False, 'mssdc_jac': False}, base_desc(extra_cc={Adaptivity: {'e_tol': 1.0, **params}}))
    out = [ctl.convergence_controllers[i] for i in ctl.convergence_controller_order if isinstance(ctl.convergence_controllers[i], (StepSizeLimiter, StepSizeSlopeLimiter))]
    for o in out:
        o.log = lambda *a, **k: None
    return out


def cc_params_case(rep):
    """the symbolic cases above judge the rules for GIVEN parameters (order, limits, budgets); this case closes the gap to the description: every
    parameter a user configures for the restart / step-size controllers arrives unchanged at the controller object a real controller carries (values
    that are falsy -- 0, False -- and values different from the defaults included), and what is not configured takes the documented source
    (concrete, ENUMERATED)"""
    from pySDC.implementations.convergence_controller_classes.adaptivity import Adaptivity, AdaptivityRK, AdaptivityResidual
    from pySDC.implementations.convergence_controller_classes.step_size_limiter import StepSizeLimiter, StepSizeSlopeLimiter
    from pySDC.implementations.sweeper_classes.Runge_Kutta import Cash_Karp, Heun_Euler

    cp = {'logger_level': 50, 'dump_setup': False, 'mssdc_jac': False}

    def carried(cls, params, sweeper=None, get=None):
        d = base_desc(extra_cc={cls: dict(params)})
        if sweeper is not None:
            d['sweeper_class'] = sweeper
            d['sweeper_params'] = {}
        ctl = controller_nonMPI(1, dict(cp), d)
        return get_cc(ctl, get or cls), ctl

    cases = []
    for mr in (0, 1, 3, 10, 12):
        for crash in (False, True):
            for first in (False, True):
                cases.append((BasicRestartingNonMPI, {'max_restarts': mr, 'crash_after_max_restarts': crash, 'restart_from_first_step': first}, None))
    for p in ({'e_tol': 1e-3, 'beta': 0.5, 'avoid_restarts': True}, {'e_tol': 2.0, 'beta': 1.0, 'avoid_restarts': False, 'dt_min': 0.0, 'dt_max': 0.5},
              {'e_tol': 1e-9, 'dt_min': 1e-3, 'dt_slope_max': 1.5, 'dt_slope_min': 0.25, 'dt_rel_min_slope': 1.0}):
        cases.append((Adaptivity, p, None))
    for sw in (Cash_Karp, Heun_Euler):
        for uo in (1, 2, 3, 4, 5, 7):
            cases.append((AdaptivityRK, {'e_tol': 1e-3, 'update_order': uo}, sw))
    cases.append((AdaptivityResidual, {'e_tol': 1e-3, 'e_tol_low': 0.0, 'max_restarts': 0, 'factor_if_not_converged': 3.0, 'residual_max_tol': 1.0}, None))
    for cls, params, sw in cases:
        nm = f'cc-params/{cls.__name__}/' + ','.join(f'{k}={v}' for k, v in params.items()) + (f'/{sw.__name__}' if sw else '')
        try:
            inst, ctl = carried(cls, params, sw)
        except Exception as e:
            rep.side(nm + ':controller-built', False, f'{type(e).__name__}: {e}')
            continue
        own = {k: v for k, v in params.items() if k not in ('dt_min', 'dt_max', 'dt_slope_max', 'dt_slope_min', 'dt_rel_min_slope', 'max_restarts') or cls is BasicRestartingNonMPI or k in vars(inst.params)}
        bad = {k: (getattr(inst.params, k, '<missing>'), v) for k, v in own.items() if getattr(inst.params, k, '<missing>') != v or type(getattr(inst.params, k, None)) is not type(v)}
        rep.side(nm + ':configured-values-arrive', not bad, {'carried_vs_configured': {k: [repr(a), repr(b)] for k, (a, b) in bad.items()}})
        rep.translator += 1
        # limits configured on the step-size controller reach the limiter objects the controller loads for them
        lims = [C for C in ctl.convergence_controllers if isinstance(C, (StepSizeLimiter, StepSizeSlopeLimiter))]
        for k in ('dt_min', 'dt_max', 'dt_slope_max', 'dt_slope_min', 'dt_rel_min_slope'):
            if k in params and cls is Adaptivity:
                got = [getattr(C.params, k) for C in lims if k in vars(C.params)]
                rep.side(nm + f':{k}-reaches-a-limiter', bool(got) and all(g == params[k] for g in got), {'limiter_values': [repr(g) for g in got], 'configured': params[k]})
    # not configured: the update order of AdaptivityRK is the one of the sweeper class
    for sw in (Cash_Karp, Heun_Euler):
        inst, _ = carried(AdaptivityRK, {'e_tol': 1e-3}, sw)
        rep.side(f'cc-params/AdaptivityRK/default-update-order/{sw.__name__}', inst.params.update_order == sw.get_update_order(), {'carried': inst.params.update_order, 'sweeper': sw.get_update_order()})


def lim_case(rep):
    from pySDC.implementations.convergence_controller_classes.step_size_limiter import StepSizeLimiter, StepSizeSlopeLimiter

    dtn, dt, dmin, dmax, smin, smax_, rel = z3.Reals('dtn dt dmin dmax smin smax rel')
    rsf = z3.Bool('restart')
    pre = [dtn > 0, dt > 0, dmin >= 0, dmax >= dmin, smin >= 0, smax_ >= smin, rel >= 0]

    def fn(c):
        for a in pre:
            c.add(a)
        L = SimpleNamespace(status=SimpleNamespace(dt_new=SymReal(dtn)), params=SimpleNamespace(dt=SymReal(dt)))
        St = SimpleNamespace(levels=[L], status=SimpleNamespace(restart=SymBool(rsf), slot=0), time=0.0)
        for lim in limiters_of_controller(dict(dt_slope_min=SymReal(smin), dt_slope_max=SymReal(smax_), dt_rel_min_slope=SymReal(rel), dt_min=SymReal(dmin), dt_max=SymReal(dmax))):
            lim.get_new_step_size(None, St)
        return R(L.status.dt_new)

    paths = explore(fn)
    rep.paths += len(paths)
    rep.decisions += sum(len(p.decisions) for p in paths)
    ratio = dtn / dt
    ar = z3.If(ratio - 1 >= 0, ratio - 1, 1 - ratio)
    slope = z3.If(ratio < smin, dt * smin, z3.If(ratio > smax_, dt * smax_, z3.If(z3.And(ar < rel, z3.Not(rsf)), dt, dtn)))
    spec = z3.If(slope < dmin, dmin, z3.If(slope > dmax, dmax, slope))
    for i, p in enumerate(paths):
        res, m = prove(p.result == spec, pre + list(p.pc), name=f'lim/path{i}')
        rep.ob(f'lim/path{i}', res)
        if res == 'sat':
            rep.replayed += 1
            vals = {str(v): float(model_value(m, v)) for v in (dtn, dt, dmin, dmax, smin, smax_, rel)}
            rflag = bool(model_value(m, rsf))
            L = SimpleNamespace(status=SimpleNamespace(dt_new=vals['dtn']), params=SimpleNamespace(dt=vals['dt']))
            St = SimpleNamespace(levels=[L], status=SimpleNamespace(restart=rflag, slot=0), time=0.0)
            for lim in limiters_of_controller(dict(dt_slope_min=vals['smin'], dt_slope_max=vals['smax'], dt_rel_min_slope=vals['rel'], dt_min=vals['dmin'], dt_max=vals['dmax'])):
                lim.get_new_step_size(None, St)
            rr = vals['dtn'] / vals['dt']
            sl = vals['dt'] * vals['smin'] if rr < vals['smin'] else vals['dt'] * vals['smax'] if rr > vals['smax'] else (vals['dt'] if abs(rr - 1) < vals['rel'] and not rflag else vals['dtn'])
            ex = min(max(sl, vals['dmin']), vals['dmax'])
            if abs(L.status.dt_new - ex) > 1e-9 * (1 + abs(ex)):
                rep.violation(f'{PID}/limiters/clip', f'limiters give {L.status.dt_new}, specified clip {ex} for {vals}',
                              {'task': ['lim'], 'vals': vals, 'restart': rflag, 'observed': L.status.dt_new, 'expected': ex})
            else:
                rep.unreproduced(f'lim/path{i}', vals)
    r = coverage_certificate(paths, pre, name='lim:coverage')
    rep.ob('lim:coverage', r)
    res, _ = prove(paths[0].result == z3.If(dtn < dmin, dmin, z3.If(dtn > dmax, dmax, dtn)), pre + list(paths[0].pc), name='lim:mutated', kind='vacuity')
    rep.vac('lim:spec-without-slope-refuted-or-trivial', 'sat' if len(paths) >= 6 else 'unsat', 'sat')
    rep.sample({'case': 'limiters', 'paths': len(paths), 'free_variables': 'dt_new, dt, dt_min, dt_max, slope_min, slope_max, rel_min_slope, restart flag'})


class _PowReal(SymReal):
    """SymReal whose fractional power 1/order is encoded algebraically: y > 0, y^order = base"""

    ORDER = [None]

    def __truediv__(self, o):
        return _PowReal(SymReal.__truediv__(self, o).t)

    def __pow__(self, e):
        n = _PowReal.ORDER[0]
        if n is None or abs(e - 1.0 / n) > 1e-15:
            return SymReal.__pow__(self, e)
        c = Ctx.cur
        y = z3.Real(c.newname('pow'))
        p = y
        for _ in range(n - 1):
            p = p * y
        c.add(z3.And(y > 0, p == self.t))
        c.obs['powbase'] = self.t
        c.obs['powy'] = y
        return SymReal(y)


def opt_case(rep, order):
    from pySDC.implementations.convergence_controller_classes.adaptivity import AdaptivityBase

    name = f'opt/order{order}'
    dt, e_est, e_tol, beta = z3.Reals('dt e_est e_tol beta')
    pre = [dt > 0, e_est > 0, e_tol > 0, beta > 0, beta <= 1]
    c = Ctx()
    Ctx.cur = c
    try:
        for a in pre:
            c.add(a)
        _PowReal.ORDER[0] = order
        A_ = AdaptivityBase.__new__(AdaptivityBase)
        # e_tol / e_est must produce the power-aware scalar: make the numerator the subclass instance
        r = A_.compute_optimal_step_size(SymReal(beta), SymReal(dt), _PowReal(e_tol), SymReal(e_est), order)
    finally:
        Ctx.cur = None
        _PowReal.ORDER[0] = None
    rep.paths += 1
    y = c.obs.get('powy')
    if y is None:
        rep.error(f'{name}: the power was not taken on the quotient e_tol/e_est (encoding hook not reached)')
        return
    A = list(c.assume)
    # formula: result == beta * dt * y with y = (e_tol/e_est)^(1/order)
    res, m = prove(z3.And(R(r) == beta * dt * y, c.obs['powbase'] == e_tol / e_est), A, name=f'{name}:formula')
    rep.ob(f'{name}:formula', res)
    res2, m2 = prove(z3.Implies(e_est >= e_tol, R(r) <= beta * dt), A, name=f'{name}:rejected-step-shrinks')
    rep.ob(f'{name}:rejected-step-shrinks', res2)
    res3, m3 = prove(z3.Implies(e_est < e_tol, R(r) > beta * dt), A, name=f'{name}:accepted-step-grows')
    rep.ob(f'{name}:accepted-step-grows', res3)
    for rr, mm, cl in ((res, m, 'formula'), (res2, m2, 'rejected-step-shrinks'), (res3, m3, 'accepted-step-grows')):
        if rr == 'sat':
            rep.replayed += 1
            vals = {str(v): float(model_value(mm, v)) for v in (dt, e_est, e_tol, beta)}
            got = A_.compute_optimal_step_size(vals['beta'], vals['dt'], vals['e_tol'], vals['e_est'], order)
            ex = vals['beta'] * vals['dt'] * (vals['e_tol'] / vals['e_est']) ** (1.0 / order)
            if abs(got - ex) > 1e-9 * (1 + abs(ex)):
                rep.violation(f'{PID}/compute_optimal_step_size/{cl}', f'{name}: {got} vs beta*dt*(tol/err)^(1/order) = {ex} for {vals}',
                              {'task': ['opt', order], 'vals': vals, 'observed': got, 'expected': ex})
            else:
                rep.unreproduced(f'{name}:{cl}', vals)
    rv_, _ = satisfiable(A + [e_est >= e_tol], name=f'{name}:assumptions', kind='vacuity')
    rep.vac(f'{name}:assumptions-sat', rv_, 'sat')
    rep.sample({'case': name, 'free_variables': 'beta, dt, e_tol, e_est', 'power_encoding': 'y > 0, y^order = e_tol/e_est'}, limit=2)


def adapt_case(rep, rk=False):
    """real Adaptivity.get_new_step_size + determine_restart + limiters on symbolic estimates: a rejected step is retried with a smaller
    step unless a lower limit binds; an accepted step has e_est < e_tol"""
    from pySDC.implementations.convergence_controller_classes.adaptivity import Adaptivity, AdaptivityRK
    from pySDC.implementations.convergence_controller_classes.step_size_limiter import StepSizeLimiter, StepSizeSlopeLimiter

    tag = 'adapt_rk' if rk else 'adapt'
    dt, e_est, e_tol, beta, dmin, smin = z3.Reals('dt e_est e_tol beta dmin smin')
    it, mx = z3.Ints('it mx')
    # beta < 1: with the safety factor 1 and e_est == e_tol exactly the proposal equals dt (strict decrease needs a safety factor below one)
    pre = [dt > 0, e_est > 0, e_tol > 0, beta > 0, beta < 1, dmin >= 0, smin >= 0, smin <= 1, mx >= 1, mx <= 4]
    for order in (1, 2, 3):

        def fn(c):
            for a in pre:
                c.add(a)
            c.add(it == (1 if rk else order))  # iteration counter concrete (it is the order used by Adaptivity; RK: one iteration, order = update_order)
            _PowReal.ORDER[0] = order
            try:
                A_ = _mk(AdaptivityRK if rk else Adaptivity, dict(beta=SymReal(beta), e_tol=_PowReal(e_tol), avoid_restarts=False, update_order=order))
                L = SimpleNamespace(status=SimpleNamespace(dt_new=None, error_embedded_estimate=SymReal(e_est)), params=SimpleNamespace(dt=SymReal(dt)))
                St = SimpleNamespace(levels=[L], status=SimpleNamespace(iter=(1 if rk else order), restart=False, slot=0, force_continue=False),
                                     params=SimpleNamespace(maxiter=SymInt(mx)), time=0.0)
                A_.get_new_step_size(None, St)
                proposed = L.status.dt_new is not None
                if proposed:
                    # order seen by compute_optimal_step_size is S.status.iter (a SymInt equal to maxiter on this path)
                    pass
                A_.determine_restart(None, St)
                _mk(StepSizeSlopeLimiter, dict(dt_slope_min=SymReal(smin), dt_slope_max=1e300, dt_rel_min_slope=0)).get_new_step_size(None, St)
                _mk(StepSizeLimiter, dict(dt_min=SymReal(dmin), dt_max=1e300)).get_new_step_size(None, St)
                return dict(restart=B(St.status.restart), dt_new=(R(L.status.dt_new) if L.status.dt_new is not None else None))
            finally:
                _PowReal.ORDER[0] = None

        try:
            paths = explore(fn)
        except TypeError as e:
            rep.note(f'adapt/order{order}: symbolic order not supported by the power encoding ({e}); clause covered by opt + lim cases')
            continue
        rep.paths += len(paths)
        for i, p in enumerate(paths):
            r = p.result
            A = pre + [it == (1 if rk else order)] + list(p.assume) + list(p.pc)
            g1 = r['restart'] == z3.And(it >= mx, e_est >= e_tol)
            res, m = prove(g1, A, name=f'{tag}/order{order}/path{i}:restart-iff-rejected')
            rep.ob(f'{tag}/order{order}/path{i}:restart-iff-rejected', res)
            if res == 'sat':
                rep.unreproduced(f'adapt/order{order}/path{i}', 'restart rule model')
            if r['dt_new'] is not None:
                g2 = z3.Implies(z3.And(it >= mx, e_est >= e_tol), z3.Or(r['dt_new'] < dt, r['dt_new'] == dmin, r['dt_new'] == dt * smin))
                res, m = prove(g2, A, name=f'{tag}/order{order}/path{i}:retry-smaller-unless-limit')
                rep.ob(f'{tag}/order{order}/path{i}:retry-smaller-unless-limit', res)
                if res == 'sat':
                    rep.unreproduced(f'adapt/order{order}/path{i}', 'retry-smaller model')
    rep.sample({'case': 'adapt', 'free_variables': 'dt, e_est, e_tol, beta, dt_min, slope_min, iter, maxiter'}, limit=2)


def adapt_residual_case(rep):
    """real AdaptivityResidual.get_new_step_size + AdaptivityBase.determine_restart on symbolic residual / tolerances"""
    from pySDC.implementations.convergence_controller_classes.adaptivity import AdaptivityResidual

    dt, res_, e_tol, e_low, planned = z3.Reals('dt res e_tol e_tol_low planned')
    hasp = z3.Bool('has_planned')
    mx = z3.Int('mx')
    pre = [dt > 0, res_ >= 0, e_tol > 0, e_low >= 0, e_low < e_tol, planned > 0, mx >= 1, mx <= 3]
    for it_ in (1, 2):

        def fn(c):
            for a in pre:
                c.add(a)
            A_ = _mk(AdaptivityResidual, dict(e_tol=SymReal(e_tol), e_tol_low=SymReal(e_low), use_restol=False, allowed_modifications=['increase', 'decrease'], avoid_restarts=False))
            hv = bool(SymBool(hasp))
            L = SimpleNamespace(status=SimpleNamespace(dt_new=(SymReal(planned) if hv else None), residual=SymReal(res_)), params=SimpleNamespace(dt=SymReal(dt), restol=-1.0))
            St = SimpleNamespace(levels=[L], status=SimpleNamespace(iter=it_, restart=False, slot=0, force_continue=False), params=SimpleNamespace(maxiter=SymInt(mx)), time=0.0)
            A_.get_new_step_size(None, St)
            A_.determine_restart(None, St)
            return dict(restart=B(St.status.restart), dt_new=(R(L.status.dt_new) if L.status.dt_new is not None else None), hv=hv)

        paths = explore(fn)
        rep.paths += len(paths)
        rep.decisions += sum(len(p.decisions) for p in paths)
        for i, p in enumerate(paths):
            r = p.result
            A = pre + list(p.pc)
            name = f'adapt_res/it{it_}/path{i}'
            at_max = z3.IntVal(it_) == mx
            pl = planned if r['hv'] else dt
            dn = r['dt_new'] if r['dt_new'] is not None else (planned if r['hv'] else None)
            goals = {'restart-iff-rejected': r['restart'] == z3.And(z3.IntVal(it_) >= mx, res_ >= e_tol)}
            if r['dt_new'] is not None:
                goals['step-size-rule'] = z3.And(z3.Implies(z3.And(at_max, res_ > e_tol), r['dt_new'] == z3.If(pl <= dt / 2, pl, dt / 2)),
                                                 z3.Implies(z3.And(at_max, res_ < e_low), r['dt_new'] == z3.If(pl >= dt * 2, pl, dt * 2)))
            # a rejected step (restart requested at the budget) is retried with a smaller step
            goals['retry-smaller'] = z3.Implies(z3.And(at_max, res_ >= e_tol), z3.BoolVal(dn is not None) if dn is None else dn < dt)
            for cl, g in goals.items():
                res, m = prove(g, A, name=f'{name}:{cl}')
                rep.ob(f'{name}:{cl}', res)
                if res == 'sat':
                    rep.replayed += 1
                    vals = {str(v): float(model_value(m, v)) for v in (dt, res_, e_tol, e_low, planned)}
                    mxv = int(model_value(m, mx))
                    hvv = bool(model_value(m, hasp))
                    A2 = _mk(AdaptivityResidual, dict(e_tol=vals['e_tol'], e_tol_low=vals['e_tol_low'], use_restol=False, allowed_modifications=['increase', 'decrease'], avoid_restarts=False))
                    L2 = SimpleNamespace(status=SimpleNamespace(dt_new=(vals['planned'] if hvv else None), residual=vals['res']), params=SimpleNamespace(dt=vals['dt'], restol=-1.0))
                    S2 = SimpleNamespace(levels=[L2], status=SimpleNamespace(iter=it_, restart=False, slot=0, force_continue=False), params=SimpleNamespace(maxiter=mxv), time=0.0)
                    A2.get_new_step_size(None, S2)
                    A2.determine_restart(None, S2)
                    new = L2.status.dt_new if L2.status.dt_new is not None else vals['dt']
                    rejected = it_ >= mxv and vals['res'] >= vals['e_tol']
                    if cl == 'retry-smaller' and rejected and S2.status.restart and not (new < vals['dt']):
                        rep.violation(f'{PID}/AdaptivityResidual/retry-not-smaller-at-equality', f'{name}: residual {vals["res"]} >= e_tol {vals["e_tol"]} at the budget: restart requested but the step size stays {new} (dt = {vals["dt"]})',
                                      {'task': ['adapt_res'], 'vals': vals, 'maxiter': mxv, 'iter': it_, 'planned_set': hvv})
                    elif cl != 'retry-smaller':
                        rep.violation(f'{PID}/AdaptivityResidual/{cl}', f'{name}: {cl} refuted for {vals}', {'task': ['adapt_res'], 'vals': vals, 'maxiter': mxv})
                    else:
                        rep.unreproduced(f'{name}:{cl}', vals)
        rep.ob(f'adapt_res/it{it_}:coverage', coverage_certificate(paths, pre, name=f'adapt_res/it{it_}:coverage'))
    rep.sample({'case': 'adapt_res', 'free_variables': 'dt, residual, e_tol, e_tol_low, planned step size (or none), maxiter'}, limit=2)


def _avoid_run(NL, order, it_, mxv, e_est, e_tol, more, rho):
    """the real AdaptivityBase.determine_restart with avoid_restarts on plain or symbolic scalars"""
    from pySDC.implementations.convergence_controller_classes.adaptivity import Adaptivity

    A_ = _mk(Adaptivity, dict(beta=0.9, e_tol=e_tol, avoid_restarts=True))
    Ls = [SimpleNamespace(status=SimpleNamespace(dt_new=None, error_embedded_estimate=e_est, iter_to_convergence=more[l], contraction_factor=rho[l]),
                          params=SimpleNamespace(dt=0.5), sweep=SimpleNamespace(coll=SimpleNamespace(order=order))) for l in range(NL)]
    St = SimpleNamespace(levels=Ls, status=SimpleNamespace(iter=it_, restart=False, slot=0, force_continue=False), params=SimpleNamespace(maxiter=mxv), time=0.0)
    A_.determine_restart(None, St)
    return St.status.restart, St.status.force_continue


def adapt_avoid_case(rep):
    """avoid_restarts: a rejected step (estimate at or above the tolerance at the iteration budget) is either restarted or told to keep iterating -- never
    accepted --, it keeps iterating only while iter + estimated iterations to convergence is below a bound independent of the estimates (so the
    continuation ends), and a step that is not rejected gets neither flag"""
    e_est, e_tol = z3.Reals('e_est e_tol')
    mx = z3.Int('mx')
    for NL in (1, 2):
        more = [z3.Int(f'more{l}') for l in range(NL)]
        rho = [z3.Real(f'rho{l}') for l in range(NL)]
        pre = [e_est > 0, e_tol > 0, mx >= 1, mx <= 6] + [m >= 0 for m in more] + [r >= 0 for r in rho]
        for order in (2, 3, 5):
            for it_ in (1, 2, 4):

                def fn(c):
                    for a in pre:
                        c.add(a)
                    rs, fc = _avoid_run(NL, order, it_, SymInt(mx), SymReal(e_est), SymReal(e_tol), [SymInt(m) for m in more], [SymReal(r) for r in rho])
                    return dict(restart=B(rs), cont=B(fc))

                paths = explore(fn)
                rep.paths += len(paths)
                rep.decisions += sum(len(p.decisions) for p in paths)
                mm = more[0] if NL == 1 else z3.If(more[0] >= more[1], more[0], more[1])
                rr = rho[0] if NL == 1 else z3.If(rho[0] >= rho[1], rho[0], rho[1])
                kf = it_ + mm
                rejected = z3.And(z3.IntVal(it_) >= mx, e_est >= e_tol)
                ok_cont = z3.And(rr <= 1, kf <= 2 * mx, kf <= order)
                name = f'adapt_avoid/NL{NL}/order{order}/it{it_}'
                for i, p in enumerate(paths):
                    r = p.result
                    A = pre + list(p.pc)
                    # what the property needs: never accepted silently; continuation bounded by a quantity that does not depend on the estimates
                    # (the exact thresholds -- rho > 1, 2 maxiter, collocation order -- are the implementation's choice and not demanded)
                    goals = {'rejected-step-restarts-or-continues': z3.Implies(rejected, z3.Xor(r['restart'], r['cont'])),
                             'no-flag-unless-rejected': z3.Implies(z3.Not(rejected), z3.And(z3.Not(r['restart']), z3.Not(r['cont']))),
                             'continuation-bounded': z3.Implies(r['cont'], z3.Or(kf <= order, kf <= 2 * mx))}
                    for cl, g in goals.items():
                        res, m = prove(g, A, name=f'{name}/path{i}:{cl}')
                        rep.ob(f'{name}/path{i}:{cl}', res)
                        if res == 'sat':
                            rep.replayed += 1
                            v = dict(e_est=float(model_value(m, e_est)), e_tol=float(model_value(m, e_tol)), mx=int(model_value(m, mx)),
                                     more=[int(model_value(m, a)) for a in more], rho=[float(model_value(m, a)) for a in rho])
                            if avoid_concrete(NL, order, it_, v):
                                rep.violation(f'{PID}/avoid_restarts/{cl}', f'{name}: {cl} refuted on the real class for {v}', {'task': ['adapt_avoid'], 'NL': NL, 'order': order, 'iter': it_, 'vals': v})
                            else:
                                rep.unreproduced(f'{name}/path{i}:{cl}', v)
                rep.ob(f'{name}:coverage', coverage_certificate(paths, pre, name=f'{name}:coverage'))
                if NL == 1 and order == 5 and it_ == 2:
                    seen = 'unsat'
                    for p in paths:
                        rv_, _ = satisfiable(pre + list(p.pc) + [p.result['cont']], name=f'{name}:continue-reachable', kind='vacuity')
                        if rv_ == 'sat':
                            seen = 'sat'
                            break
                    rep.vac(f'{name}:continue-reachable', seen, 'sat')
    rep.sample({'case': 'adapt_avoid', 'free_variables': 'e_est, e_tol, maxiter, iter_to_convergence and contraction factor per level', 'enumerated': 'levels 1..2, collocation order 2/3/5, iter 1/2/4'}, limit=2)


def avoid_concrete(NL, order, it_, v):
    rs, fc = _avoid_run(NL, order, it_, v['mx'], v['e_est'], v['e_tol'], v['more'], v['rho'])
    rejected = it_ >= v['mx'] and v['e_est'] >= v['e_tol']
    kf = it_ + max(v['more'])
    return (rejected and (bool(rs) == bool(fc))) or (not rejected and (bool(rs) or bool(fc))) or (bool(fc) and not (kf <= order or kf <= 2 * v['mx']))


class _NS(SimpleNamespace):
    def get(self, k, d=None):
        return getattr(self, k, d)


def adapt_conv_case(rep, which):
    """the adaptivity classes for converged collocation problems (polynomial / extrapolation / collocation-switch estimates): real get_new_step_size +
    determine_restart on symbolic residual, tolerances and estimates.  A step for which a restart is requested gets a smaller step size; a converged
    step that is not restarted has an estimate within the tolerance."""
    from pySDC.implementations.convergence_controller_classes import adaptivity as ad
    from pySDC.implementations.convergence_controller_classes.check_convergence import CheckConvergence

    cls = {'poly': ad.AdaptivityPolynomialError, 'extra': ad.AdaptivityExtrapolationWithinQ, 'coll': ad.AdaptivityCollocation}[which]
    dt, e_est, e_tol, beta, res_, restol, last, factor, rmax = z3.Reals('dt e_est e_tol beta res restol res_last factor res_max_tol')
    letol, incr = z3.Reals('level_e_tol increment')
    mx = z3.Int('mx')
    pre = [dt > 0, e_est > 0, e_tol > 0, beta > 0, beta < 1, res_ >= 0, restol > 0, last >= 0, factor > 1, rmax > restol, mx >= 1, mx <= 3, letol > 0, incr > 0]
    for order in (1, 2, 3):
        for it_ in (1, 2):
            # inc: the level also stops by increment (level parameter e_tol + status variable increment), so a step may count as converged while its residual is above restol
            for ram, inc in ((True, False), (False, False), (True, True), (False, True)):
                if inc and order > 2:
                    continue
                name = f'adapt_conv/{which}/order{order}/it{it_}/restart_at_maxiter{int(ram)}' + ('/increment' if inc else '')

                def fn(c):
                    for a in pre:
                        c.add(a)
                    _PowReal.ORDER[0] = order
                    try:
                        A_ = _mk(cls, dict(beta=SymReal(beta), e_tol=_PowReal(e_tol), restart_at_maxiter=ram, abort_at_growing_residual=True, residual_max_tol=SymReal(rmax),
                                           factor_if_not_converged=SymReal(factor), useMPI=False, high_Taylor_order=False, num_colls=2, interpolate_between_restarts=False))
                        A_.res_last_iter = SymReal(last)
                        A_.check_convergence = CheckConvergence.check_convergence
                        if which == 'coll':
                            conv_coll = bool(SymBool(z3.Bool('all_collocation_problems_done')))
                            A_.status = SimpleNamespace(order=[order - 1 + 2, order - 1] if conv_coll else [order - 1], error=[(0, 0.0), (1, SymReal(e_est))] if conv_coll else [(0, 0.0)])
                        L = SimpleNamespace(status=_NS(dt_new=None, residual=SymReal(res_), sweep=1, error_embedded_estimate=SymReal(e_est), error_extrapolation_estimate=SymReal(e_est),
                                                       order_embedded_estimate=order, **({'increment': SymReal(incr)} if inc else {})),
                                            params=_NS(dt=SymReal(dt), restol=SymReal(restol), **({'e_tol': SymReal(letol)} if inc else {})),
                                            sweep=SimpleNamespace(coll=SimpleNamespace(num_nodes=order)))
                        St = SimpleNamespace(levels=[L], status=SimpleNamespace(iter=it_, restart=False, slot=0, force_continue=False, force_done=False, time_size=1),
                                             params=SimpleNamespace(maxiter=SymInt(mx)), time=0.0)
                        conv = bool(A_.get_convergence(None, St))
                        A_.get_new_step_size(None, St)
                        A_.determine_restart(None, St)
                        return dict(restart=B(St.status.restart), conv=conv, dt_new=(R(L.status.dt_new) if L.status.dt_new is not None else None),
                                    force_done=B(St.status.force_done))
                    finally:
                        _PowReal.ORDER[0] = None

                paths = explore(fn)
                rep.paths += len(paths)
                rep.decisions += sum(len(p.decisions) for p in paths)
                for i, p in enumerate(paths):
                    r = p.result
                    A = pre + list(p.assume) + list(p.pc)
                    goals = {'retry-smaller': z3.Implies(r['restart'], z3.BoolVal(False) if r['dt_new'] is None else r['dt_new'] < dt)}
                    if r['conv']:
                        goals['accepted-within-tolerance'] = z3.Implies(z3.Not(r['restart']), e_est <= e_tol)
                    for cl, g in goals.items():
                        res, m = prove(g, A, name=f'{name}/path{i}:{cl}')
                        rep.ob(f'{name}/path{i}:{cl}', res)
                        if res == 'sat':
                            rep.replayed += 1
                            vals = {str(v): float(model_value(m, v)) for v in (dt, e_est, e_tol, beta, res_, restol, last, factor, rmax, letol, incr)}
                            vals['mx'] = int(model_value(m, mx))
                            vals['inc'] = bool(inc)
                            bad = adapt_conv_concrete(which, order, it_, ram, vals, p.decisions)
                            if cl in bad:
                                rep.violation(f'{PID}/{cls.__name__}/{cl}', f'{name}/path{i}: {cl} refuted on the real class for {vals}: {bad[cl]}',
                                              {'task': ['adapt_conv', which], 'order': order, 'iter': it_, 'restart_at_maxiter': ram, 'vals': vals, 'decisions': p.decisions})
                            else:
                                rep.unreproduced(f'{name}/path{i}:{cl}', vals)
                rep.ob(f'{name}:coverage', coverage_certificate(paths, pre + [a for p in paths[:1] for a in p.assume if 'pow' not in str(a)], name=f'{name}:coverage'))
    rep.sample({'case': f'adapt_conv/{which}', 'free_variables': 'dt, estimate, e_tol, beta, residual, restol, previous residual, reduction factor, residual_max_tol, maxiter'}, limit=3)


def adapt_conv_concrete(which, order, it_, ram, vals, decisions=()):
    """the same scenario on the real class with plain floats"""
    from pySDC.implementations.convergence_controller_classes import adaptivity as ad
    from pySDC.implementations.convergence_controller_classes.check_convergence import CheckConvergence

    cls = {'poly': ad.AdaptivityPolynomialError, 'extra': ad.AdaptivityExtrapolationWithinQ, 'coll': ad.AdaptivityCollocation}[which]
    A_ = _mk(cls, dict(beta=vals['beta'], e_tol=vals['e_tol'], restart_at_maxiter=ram, abort_at_growing_residual=True, residual_max_tol=vals['res_max_tol'],
                       factor_if_not_converged=vals['factor'], useMPI=False, high_Taylor_order=False, num_colls=2, interpolate_between_restarts=False))
    A_.res_last_iter = vals['res_last']
    A_.check_convergence = CheckConvergence.check_convergence
    if which == 'coll':
        conv_coll = bool(decisions[0]) if decisions else True
        A_.status = SimpleNamespace(order=[order - 1 + 2, order - 1] if conv_coll else [order - 1], error=[(0, 0.0), (1, vals['e_est'])] if conv_coll else [(0, 0.0)])
    L = SimpleNamespace(status=_NS(dt_new=None, residual=vals['res'], sweep=1, error_embedded_estimate=vals['e_est'], error_extrapolation_estimate=vals['e_est'],
                                   order_embedded_estimate=order, **({'increment': vals['increment']} if vals.get('inc') else {})),
                        params=_NS(dt=vals['dt'], restol=vals['restol'], **({'e_tol': vals['level_e_tol']} if vals.get('inc') else {})), sweep=SimpleNamespace(coll=SimpleNamespace(num_nodes=order)))
    St = SimpleNamespace(levels=[L], status=SimpleNamespace(iter=it_, restart=False, slot=0, force_continue=False, force_done=False, time_size=1),
                         params=SimpleNamespace(maxiter=vals['mx']), time=0.0)
    conv = bool(A_.get_convergence(None, St))
    A_.get_new_step_size(None, St)
    A_.determine_restart(None, St)
    bad = {}
    if St.status.restart and not (L.status.dt_new is not None and L.status.dt_new < vals['dt']):
        bad['retry-smaller'] = f'restart requested, new step size {L.status.dt_new} (dt = {vals["dt"]})'
    if conv and not St.status.restart and not vals['e_est'] <= vals['e_tol']:
        bad['accepted-within-tolerance'] = f'converged step accepted with estimate {vals["e_est"]} > e_tol {vals["e_tol"]}'
    return bad


# ------------------------------------------------------------------------------------------------ (b) histories

H = {'att': {}, 'log': [], 'maxr': 0, 'shrink': False}


class Inject(ConvergenceController):
    def setup(self, controller, params, description, **kw):
        return {'control_order': 90, **super().setup(controller, params, description, **kw)}

    def determine_restart(self, controller, S, **kw):
        if S.status.iter >= S.params.maxiter:
            key = round(float(S.time), 9)
            n = H['att'].get(key, 0)
            H['att'][key] = n + 1
            if n <= H['maxr'] + 1 and (not H['shrink'] or H.get('granted', 0) < 2):
                S.status.restart = bool(SymBool(z3.Bool(f'rs_{key}_{n}')))
                if S.status.restart:
                    H['granted'] = H.get('granted', 0) + 1  # shrinking histories: at most two restart requests per run (bounds the path count)
                if S.status.restart and H['shrink']:
                    for L in (S.levels[:1] if H.get('fine_only_dt') else S.levels):  # a rejected step proposes half its step size (exactly representable);
                        L.status.dt_new = L.params.dt / 2                               # on the finest level only, as the shipped Adaptivity does, or on all levels


class InjectEarly(Inject):
    """the same injection with the control order of the adaptivity controllers (before InterpolateBetweenRestarts and BasicRestarting)"""

    def setup(self, controller, params, description, **kw):
        return {**super().setup(controller, params, description, **kw), 'control_order': -40}


class InjectConv(Inject):
    """injection for runs that stop by a residual tolerance: a restart may be requested as soon as the step is converged (or out of iterations);
    a request, once made, stays; at most one request per run (bounds the path count)"""

    def determine_restart(self, controller, S, **kw):
        L = S.levels[0]
        if S.status.restart or H.get('granted', 0) >= 1:
            return
        if S.status.iter >= S.params.maxiter or L.status.residual <= L.params.restol:
            key = round(float(S.time), 9)
            n = H['att'].get(key, 0)
            H['att'][key] = n + 1
            S.status.restart = bool(SymBool(z3.Bool(f'rs_{key}_{n}')))
            if S.status.restart:
                H['granted'] = H.get('granted', 0) + 1


class ConvProbe(generic_implicit):
    """real sweeper on real floats; only the residual handed to the convergence test at IT_CHECK is a fresh non-negative real (so that every
    convergence pattern of the steps of a block -- later steps converging before earlier ones included -- is a feasible path)"""

    def compute_residual(self, stage=''):
        super().compute_residual(stage=stage)
        L = self.level
        S_ = L.__dict__.get('_probe_step')
        # bound on the path count: symbolic residuals from iteration 1 on, for the first H['conv_budget'] convergence tests of the run and only
        # until a restart has been requested (afterwards the real float residual decides)
        if L.level_index == 0 and stage == 'IT_CHECK' and S_ is not None and S_.status.iter >= 1 and H.get('nres', 0) < H.get('conv_budget', 0) and H.get('granted', 0) == 0:
            H['nres'] = H.get('nres', 0) + 1
            v = z3.Real(f'res_{H["nres"]}')
            Ctx.cur.add(v >= 0)
            L.status.residual = SymReal(v)


def hist_conv(shrink):
    """option 'conv': K -- the steps stop by a residual tolerance (symbolic residuals, at most K iterations) instead of after one iteration"""
    return int(shrink.get('conv', 0)) if isinstance(shrink, dict) else 0


class RecH(Hooks):
    def post_step(self, step, level_number):
        super().post_step(step, level_number)
        L = step.levels[0]
        H['log'].append((step.status.slot, float(L.time), float(L.dt), complex(L.u[0][0]), complex(L.uend[0]), bool(step.status.restart),
                         int(step.status.restarts_in_a_row)))


def hist_opts(shrink):
    """the optional 8th task element: True/False (restarts halve the step size) or a dictionary {'shrink': bool, 'NL': levels}"""
    if isinstance(shrink, dict):
        return bool(shrink.get('shrink', False)), int(shrink.get('NL', 1))
    return bool(shrink), 1


def hist_interp(shrink):
    """option 'interp': the shipped InterpolateBetweenRestarts controller is loaded too (it rewrites the node values of a restarted step)"""
    return isinstance(shrink, dict) and bool(shrink.get('interp', False))


def hist_run(c, NP, MAXR, NSTEPS, FIRST, CRASH, extra_hooks=(), shrink=False):
    shrink_opts = shrink
    interp = hist_interp(shrink)
    conv = hist_conv(shrink)
    shrink, NL = hist_opts(shrink)
    H['nres'] = 0
    H['att'] = {}
    H['log'] = []
    H['maxr'] = MAXR
    H['shrink'] = shrink
    H['granted'] = 0
    H['fine_only_dt'] = isinstance(shrink_opts, dict) and bool(shrink_opts.get('fine_only_dt'))
    # the restart mode is given in the description, so that the REAL BasicRestarting.dependencies configures the step-size spreader for it
    extra_cc = {(InjectConv if conv else InjectEarly if interp else Inject): {}, BasicRestartingNonMPI: {'max_restarts': MAXR, 'restart_from_first_step': FIRST, 'crash_after_max_restarts': CRASH}}
    if interp:
        from pySDC.implementations.convergence_controller_classes.interpolate_between_restarts import InterpolateBetweenRestarts

        extra_cc[InterpolateBetweenRestarts] = {}
    desc = base_desc(NL=NL, extra_cc=extra_cc)
    if conv:
        desc['sweeper_class'] = ConvProbe
        desc['level_params']['restol'] = 1e-3
        desc['step_params']['maxiter'] = conv
    ctl = controller_nonMPI(NP, {'logger_level': 50, 'dump_setup': False, 'hook_class': [RecH] + list(extra_hooks), 'mssdc_jac': False}, desc)
    H['conv_budget'] = NP * conv
    for S_ in ctl.MS:
        S_.levels[0].__dict__['_probe_step'] = S_
    P = ctl.MS[0].levels[0].prob
    T0 = float(shrink_opts.get('t0', 0.0)) if isinstance(shrink_opts, dict) else 0.0  # (option 't0': the run starts there; dyadic values keep the times exact)
    u0 = P.u_exact(T0)
    try:
        u, stats = ctl.run(u0, T0, T0 + DT * NSTEPS)
    except ConvergenceError:
        return dict(status='crash', log=list(H['log']))
    return dict(status='ok', log=list(H['log']), u=complex(u[0]), stats=stats, u0=complex(u0[0]), t0=T0)


def hist_judge(r, NP, MAXR, NSTEPS, FIRST, CRASH, shrink=False):
    """clauses violated by one history (plain data)"""
    shrink, _NL = hist_opts(shrink)
    bad = []
    log = r['log']
    per_time = {}
    for (slot, tm, dt, u0, ue, rs, nr) in log:
        per_time.setdefault(round(tm, 9), []).append(rs)
    # retry budget: a step (identified by its start time; dt is fixed here) is restarted at most max_restarts times in a row
    for tm, flags in (per_time.items() if not shrink else []):
        run_ = 0
        for f in flags:
            run_ = run_ + 1 if f else 0
            if run_ > MAXR:
                bad.append(('retry-budget', {'time': tm, 'consecutive_restarts': run_, 'max_restarts': MAXR}))
                break
    # the restart counter a step carries (the one every statistics record is keyed with) is the number of times THAT step -- identified by its start
    # time; the step size is fixed here -- was restarted in a row before the current attempt
    for tm in (per_time if not shrink else []):
        run_ = 0
        for (slot, t_, dt, u0, ue, rs, nr) in [l for l in log if round(l[1], 9) == tm]:
            if nr != run_:
                bad.append(('restart-counter', {'time': tm, 'slot': slot, 'counter': nr, 'restarts_of_this_step_in_a_row': run_}))
                break
            run_ = run_ + 1 if rs else 0
    if r['status'] == 'crash':
        # the error is legitimate only if the last block's first step had used up its budget
        if not CRASH:
            bad.append(('unexpected-error', 'ConvergenceError although crash_after_max_restarts is off'))
        return bad
    acc = [l for l in log if not l[5]]
    tcur, ucur = r.get('t0', 0.0), r['u0']
    for (slot, tm, dt, u0, ue, rs, nr) in acc:
        if (tm != tcur) if not shrink else (abs(tm - tcur) > 1e-12):
            bad.append(('tiling', {'start': tm, 'expected': tcur}))
            break
        if u0 != ucur:
            bad.append(('chaining', {'time': tm, 'u0': str(u0), 'previous_end': str(ucur)}))
            break
        tcur, ucur = tm + dt, ue
    else:
        if tcur != DT * NSTEPS and not (tcur > DT * NSTEPS - 1e-12):
            bad.append(('stops-early', {'end': tcur}))
        if acc and r['u'] != acc[-1][4]:
            bad.append(('returned-value', {'returned': str(r['u']), 'last_end': str(acc[-1][4])}))
    # next block starts at the first restarted step's time with that step's start value
    i = 0
    blocks = []
    cur = []
    for l in log:
        if cur and l[0] <= cur[-1][0]:
            blocks.append(cur)
            cur = []
        cur.append(l)
    if cur:
        blocks.append(cur)
    for b, nb in zip(blocks, blocks[1:]):
        rst = [l for l in b if l[5]]
        if rst:
            if shrink and nb[0][2] >= rst[0][2]:
                bad.append(('retry-not-smaller', {'time': rst[0][1], 'dt': rst[0][2], 'retry_dt': nb[0][2]}))
            if nb[0][1] != rst[0][1] or nb[0][3] != rst[0][3]:
                bad.append(('restart-point', {'next_block_start': nb[0][1], 'first_restarted': rst[0][1]}))
            # all later steps restart too
            k = b.index(rst[0])
            if not all(l[5] for l in b[k:]):
                bad.append(('propagation', [(l[0], l[5]) for l in b]))
        if len({l[2] for l in nb}) != 1:
            bad.append(('one-step-size', [l[2] for l in nb]))
    # statistics (C14): filtering out recomputed values leaves exactly the accepted steps
    st = r['stats']
    k = [round(t, 9) for t, _ in get_sorted(st, type='niter', recomputed=False)]
    if k != [round(a[1], 9) for a in acc]:
        bad.append(('stats-recomputed-filter', {'niter_times': k, 'accepted': [a[1] for a in acc]}))
    return bad


def hist_case(rep, NP, MAXR, NSTEPS, FIRST, CRASH, prefix, pid=PID, clauses=None, shrink=False):
    name = f'hist/NP{NP}/maxr{MAXR}/steps{NSTEPS}/first{int(FIRST)}/crash{int(CRASH)}' + ('/shrink' if hist_opts(shrink)[0] else '') + (f'/NL{hist_opts(shrink)[1]}' if hist_opts(shrink)[1] > 1 else '') + ('/interp' if hist_interp(shrink) else '') + (f'/conv{hist_conv(shrink)}' if hist_conv(shrink) else '') + ('/fine-level-dt' if isinstance(shrink, dict) and shrink.get('fine_only_dt') else '')

    def fn(c):
        r = hist_run(c, NP, MAXR, NSTEPS, FIRST, CRASH, shrink=shrink)
        bad = hist_judge(r, NP, MAXR, NSTEPS, FIRST, CRASH, shrink=shrink)
        return dict(status=r['status'], bad=bad, log=[(l[0], l[1], l[5], l[6]) for l in r['log']], used=c.pos)

    paths = explore(fn, max_paths=300000, prefix=prefix)
    # a path that used fewer decisions than the forced prefix is also found under a sibling prefix: count it once
    paths = [p for p in paths if p.result['used'] >= len(prefix) or all(prefix[p.result['used']:])]
    rep.paths += len(paths)
    rep.decisions += sum(len(p.decisions) for p in paths)
    nbad = 0
    seen = set()
    for p in paths:
        bad = p.result['bad']
        if clauses is not None:
            bad = [b for b in bad if b[0] in clauses]
        elif pid == PID:
            bad = [b for b in bad if b[0] != 'stats-recomputed-filter']
        if not bad:
            continue
        nbad += 1
        where = 'later-slot' if any(l[0] > 0 and l[2] for l in p.result['log']) else 'first-slot'
        for b in bad:  # one report per distinct clause / call-site class
            key = f'{pid}/{b[0]}/{where}/first{int(FIRST)}' + ('/interpolate-between-restarts/three-or-more-steps-per-block' if hist_interp(shrink) and NP >= 3 else '')
            if key in seen:
                continue
            seen.add(key)
            rep.replayed += 1
            rep.violation(key, f'{name}: {b[0]}: {str(b[1])[:200]}; post_step log (slot, time, restart, restarts_in_a_row): {p.result["log"]}',
                          {'task': ['hist', NP, MAXR, NSTEPS, FIRST, CRASH], 'shrink': shrink, 'decisions': p.decisions, 'violated': [(x[0], str(x[1])[:300]) for x in bad],
                           'log': p.result['log']})
    rep.extra['histories_by_config'] = rep.extra.get('histories_by_config', []) + [{'config': name, 'prefix': prefix, 'paths': len(paths), 'violating': nbad,
                                                                                   'crashes': sum(1 for p in paths if p.result['status'] == 'crash')}]
    if paths and len(rep.samples) < 8:
        p = paths[len(paths) // 3]
        rep.sample({'config': name, 'prefix': prefix, 'paths': len(paths), 'a_history': {'decisions': p.decisions, 'status': p.result['status'], 'post_steps': p.result['log']}})


# ------------------------------------------------------------------------------------------------ (d) adaptive runs: real Adaptivity in the real controller

AD = {'log': [], 'n': 0, 'vars': [], 'floats': None}
G3 = z3.Function('G3', z3.RealSort(), z3.RealSort(), z3.RealSort(), z3.RealSort())
AD_BETA = '9/10'
AD_EMIN = '1/1000'


def gfloat(u, t, dt):
    return 0.5 * u + 0.25 * t + 2.0 * dt + 0.125


def _ad_classes():
    from harness import c06
    from pySDC.implementations.convergence_controller_classes.estimate_embedded_error import EstimateEmbeddedError

    class AdSolver(c06.DirectSolver):
        """direct-solver probe whose end value is an uninterpreted function of start value, start time AND step size"""

        def compute_end_point(self):
            L = self.level
            e = L.prob.dtype_u(L.prob.init)
            if isinstance(L.u[0][0], float) or isinstance(L.u[0][0], np.floating):
                e[0] = gfloat(float(L.u[0][0]), float(L.time), float(L.dt))
            else:
                e[0] = SymReal(G3(R(L.u[0][0]), R(L.time), R(L.dt)))
            L.uend = e

    class SymEstimate(EstimateEmbeddedError):
        """the real estimator class with the numerical estimate replaced by a fresh positive real (one per call)"""

        def estimate_embedded_error_serial(self, L):
            k = AD['n']
            AD['n'] += 1
            if AD['floats'] is not None:
                return AD['floats'][k] if k < len(AD['floats']) else 0.5
            v = z3.Real(f'e{k}')
            AD['vars'].append(v)
            Ctx.cur.add(v > z3.RealVal(AD_EMIN))
            return SymReal(v)

    class RecA(Hooks):
        def post_step(self, step, level_number):
            super().post_step(step, level_number)
            L = step.levels[0]
            AD['log'].append(dict(slot=int(step.status.slot), t=L.time, dt=L.dt, u0=L.u[0][0], ue=L.uend[0], rs=bool(step.status.restart), nr=int(step.status.restarts_in_a_row),
                                  e=L.status.error_embedded_estimate, dtn=L.status.dt_new))

    return AdSolver, SymEstimate, RecA


def adrun(NP, MAXR, CRASH, order, t0, dt, Tend, dmin, dmax, x, floats=None):
    """the real controller_nonMPI.run with the real Adaptivity (and everything its dependencies load: embedded estimator, limiter, restarting, spreading)"""
    from harness import c06
    from pySDC.implementations.convergence_controller_classes.adaptivity import Adaptivity
    from pySDC.implementations.convergence_controller_classes.estimate_embedded_error import EstimateEmbeddedError

    AdSolver, SymEstimate, RecA = _ad_classes()
    AD['log'] = []
    AD['n'] = 0
    AD['vars'] = []
    AD['floats'] = floats
    sym = floats is None
    _PowReal.ORDER[0] = order if sym else None
    orig = EstimateEmbeddedError.__dict__['get_implementation']
    EstimateEmbeddedError.get_implementation = classmethod(lambda cls, flavor='standard', useMPI=False: SymEstimate)
    try:
        wrap = (lambda v: SymReal(v)) if sym else float
        d = dict(problem_class=c06.TokProb, problem_params={'dtype': np.dtype('O') if sym else np.dtype('float64')}, sweeper_class=AdSolver,
                 sweeper_params={'num_nodes': 1, 'quad_type': 'RADAU-RIGHT'}, level_params={'dt': wrap(dt), 'restol': -1.0}, step_params={'maxiter': order},
                 convergence_controllers={Adaptivity: {'e_tol': _PowReal(z3.RealVal(1)) if sym else 1.0, 'beta': SymReal(z3.RealVal(AD_BETA)) if sym else 0.9, 'dt_min': wrap(dmin), 'dt_max': wrap(dmax)},
                                          BasicRestartingNonMPI: {'max_restarts': MAXR, 'crash_after_max_restarts': CRASH}})
        ctl = controller_nonMPI(NP, {'logger_level': 50, 'dump_setup': False, 'hook_class': [RecA], 'mssdc_jac': False}, d)
        P = ctl.MS[0].levels[0].prob
        u0 = P.dtype_u(P.init)
        u0[0] = wrap(x)
        try:
            u, stats = ctl.run(u0, wrap(t0), wrap(Tend))
        except ConvergenceError:
            return dict(status='crash', log=list(AD['log']), u=None, nest=AD['n'])
        return dict(status='ok', log=list(AD['log']), u=u[0], nest=AD['n'])
    finally:
        EstimateEmbeddedError.get_implementation = orig
        _PowReal.ORDER[0] = None


class _ZOps:
    And, Or, Not = staticmethod(lambda *a: z3.And(*a) if a else z3.BoolVal(True)), staticmethod(lambda *a: z3.Or(*a) if a else z3.BoolVal(False)), staticmethod(z3.Not)
    eq = staticmethod(lambda a, b: a == b)
    lt = staticmethod(lambda a, b: a < b)
    ge = staticmethod(lambda a, b: a >= b)
    val = staticmethod(lambda a: R(a) if not isinstance(a, (int, float)) else rv(a))
    G = staticmethod(lambda u, t, d_: G3(u, t, d_))
    true = z3.BoolVal(True)


class _FOps:
    And, Or, Not = staticmethod(lambda *a: all(a)), staticmethod(lambda *a: any(a)), staticmethod(lambda a: not a)
    eq = staticmethod(lambda a, b: abs(a - b) <= 1e-9 * (1 + abs(a) + abs(b)))
    lt = staticmethod(lambda a, b: a < b - 1e-12 * (1 + abs(b)))
    ge = staticmethod(lambda a, b: a >= b - 1e-9 * (1 + abs(b)))
    val = staticmethod(float)
    G = staticmethod(gfloat)
    true = True


def adrun_clauses(r, O, NP, MAXR, CRASH, order, t0, dt, Tend, dmin, dmax, x, pvars=None):
    """clauses of C09 / C06 on one run (z3 goals with O = _ZOps, booleans on floats with O = _FOps).  pvars: per log entry the positive root p with
    p^order * e == (beta dt)^order * e_tol (a fresh variable defined by an assumption in the symbolic case, the float root otherwise)"""
    log = [dict(l, t=O.val(l['t']), dt=O.val(l['dt']), u0=O.val(l['u0']), ue=O.val(l['ue']), e=(O.val(l['e']) if l['e'] is not None else None),
                dtn=(O.val(l['dtn']) if l['dtn'] is not None else None)) for l in r['log']]
    out = {}
    blocks, cur = [], []
    for l in log:
        if cur and l['slot'] <= cur[-1]['slot']:
            blocks.append(cur)
            cur = []
        cur.append(l)
    if cur:
        blocks.append(cur)
    acc = [l for l in log if not l['rs']]
    e10 = O.val(float(10 * np.finfo(float).eps))
    if acc:
        til = [O.eq(acc[0]['t'], t0)] + [O.eq(b['t'], a['t'] + a['dt']) for a, b in zip(acc, acc[1:])]
        if r['status'] == 'ok':
            til.append(O.ge(acc[-1]['t'] + acc[-1]['dt'], Tend - e10))
        out['tiling'] = O.And(*til)
        ch = [O.eq(acc[0]['u0'], x)] + [O.eq(b['u0'], a['ue']) for a, b in zip(acc, acc[1:])] + [O.eq(a['ue'], O.G(a['u0'], a['t'], a['dt'])) for a in acc]
        if r['status'] == 'ok':
            ch.append(O.eq(O.val(r['u']), acc[-1]['ue']))
        out['chaining'] = O.And(*ch)
        # an accepted step has an estimate below the tolerance unless its retry budget was used up (and the run is configured to move on)
        one_ = 1.0 if O is _FOps else rv(1)
        # (split by call site: a later step of a block whose budget counter is used up while the run is configured to raise an error is a recorded finding)
        late = lambda a: a['slot'] > 0 and a['nr'] >= MAXR and CRASH
        out['accepted-within-tolerance'] = O.And(*[O.lt(a['e'], one_) for a in acc if a['e'] is not None and not (a['nr'] >= MAXR and not CRASH) and not late(a)])
        out['accepted-within-tolerance/later-step-when-budget-is-used-up-and-crash-configured'] = O.And(*[O.lt(a['e'], one_) for a in acc if a['e'] is not None and late(a)])
    elif r['status'] == 'ok':
        out['tiling'] = O.Not(O.true)
    out['retry-budget'] = O.true if all((not l['rs']) or l['nr'] < MAXR or MAXR == 0 and False for l in log) else O.Not(O.true)
    if r['status'] == 'crash' and not CRASH:
        out['unexpected-error'] = O.Not(O.true)
    # proposal = beta dt (tol/err)^(1/order) clipped to [dt_min, dt_max]
    if pvars is not None:
        pr = []
        for l, pv in zip(log, pvars):
            if l['dtn'] is not None and pv is not None:
                pr.append(O.Or(O.And(O.lt(pv, dmin), O.eq(l['dtn'], dmin)), O.And(O.lt(dmax, pv), O.eq(l['dtn'], dmax)), O.And(O.ge(pv, dmin), O.ge(dmax, pv), O.eq(l['dtn'], pv))))
        out['proposal-formula-and-clip'] = O.And(*pr)
    # per block: one step size; the block after a rejected one starts at the first rejected step (time, value) with a smaller step unless dt_min binds
    one, rp = [], []
    for b, nb in zip(blocks, blocks[1:] + [None]):
        one += [O.eq(l['dt'], b[0]['dt']) for l in b[1:]]
        rst = [l for l in b if l['rs']]
        if rst and nb is not None:
            f = rst[0]
            rp.append(O.And(O.eq(nb[0]['t'], f['t']), O.eq(nb[0]['u0'], f['u0']), O.Or(O.lt(nb[0]['dt'], f['dt']), O.eq(nb[0]['dt'], dmin))))
            k = b.index(f)
            if not all(l['rs'] for l in b[k:]):
                rp.append(O.Not(O.true))
    out['one-step-size-per-block'] = O.And(*one)
    out['restart-point-and-smaller-retry'] = O.And(*rp)
    return out


def adrun_case(rep, NP, MAXR, CRASH, N, order, pid=PID, clauses=None):
    """(d) adaptive runs: the real controller with the real Adaptivity, EstimateEmbeddedError (estimate replaced by a fresh positive real per call),
    StepSizeLimiter, BasicRestartingNonMPI and SpreadStepSizesBlockwiseNonMPI as the real dependencies load them; t0, dt, Tend, dt_min, dt_max symbolic
    reals; every feasible sequence of accept / reject / clamp decisions is a path; the clauses are decided per path over all estimate sequences"""
    name = f'adrun/NP{NP}/maxr{MAXR}/crash{int(CRASH)}/N<={N}/order{order}'
    t0, dt, Tend, dmin, dmax, x = z3.Reals('t0 dt Tend dmin dmax x')
    from harness import c06

    pre = [dt > 0, dmin > 0, dmax >= dmin, dt >= dmin, dt <= dmax, Tend - rv(c06.EPS10) > t0, t0 + N * dmin >= Tend]

    def fn(c):
        for a in pre:
            c.add(a)
        r = adrun(NP, MAXR, CRASH, order, t0, dt, Tend, dmin, dmax, x)
        r['evars'] = list(AD['vars'])
        return r

    paths = explore(fn, max_paths=20000)
    rep.paths += len(paths)
    rep.decisions += sum(len(p.decisions) for p in paths)
    beta = rv(Fraction(9, 10))
    seen = set()
    for i, p in enumerate(paths):
        r = p.result
        A = pre + list(p.assume) + list(p.pc)
        # the positive root p_k with p_k^order * e_k == (beta dt_k)^order (e_tol = 1), one per log entry that carries a proposal
        pv, defs = [], []
        for k, l in enumerate(r['log']):
            if l['dtn'] is None or l['e'] is None:
                pv.append(None)
                continue
            v = z3.Real(f'prop!{k}')
            bd = beta * R(l['dt'])
            lhs, rhs = R(l['e']), z3.RealVal(1)
            for _ in range(order):
                lhs, rhs = lhs * v, rhs * bd
            defs.append(z3.And(v > 0, lhs == rhs))
            pv.append(v)
        goals = adrun_clauses(r, _ZOps, NP, MAXR, CRASH, order, t0, dt, Tend, dmin, dmax, x, pvars=pv)
        for cl, g in goals.items():
            if clauses is not None and cl not in clauses:
                continue
            res, m = prove(g, A + defs, name=f'{name}/path{i}:{cl}')
            rep.ob(f'{name}/path{i}:{cl}', res)
            if res == 'sat' and cl not in seen:
                seen.add(cl)
                rep.replayed += 1
                vals = {str(v): float(model_value(m, v)) for v in (t0, dt, Tend, dmin, dmax, x)}
                es = [float(model_value(m, v)) for v in r['evars']]
                bad = adrun_float(NP, MAXR, CRASH, order, vals, es)
                if clauses is not None:
                    bad = {b for b in bad if b in clauses}
                if cl in bad or bad:
                    rep.violation(f'{pid}/adaptive-run/{cl if cl in bad else sorted(bad)[0]}', f'{name}: clause(s) {sorted(bad)} violated on the real float run for {vals}, estimates {es}',
                                  {'task': ['adrun', NP, MAXR, CRASH, N, order], 'vals': vals, 'estimates': es, 'violated': sorted(bad)})
                else:
                    rep.unreproduced(f'{name}/path{i}:{cl}', {'vals': vals, 'estimates': es})
    ok = [p for p in paths if p.result['status'] == 'ok']
    rep.vac(f'{name}:accepted-and-rejected-steps-seen', 'sat' if any(any(l['rs'] for l in p.result['log']) for p in ok) and any(not any(l['rs'] for l in p.result['log']) for p in ok) else 'unsat', 'sat')
    # sensitivity: the proposal clause with the safety factor left out of the specification must be refuted on some path
    found = 'unsat'
    for p in ok[:40]:
        r = p.result
        pv, defs = [], []
        for k, l in enumerate(r['log']):
            if l['dtn'] is None or l['e'] is None:
                pv.append(None)
                continue
            v = z3.Real(f'prop!{k}')
            lhs, rhs = R(l['e']), z3.RealVal(1)
            for _ in range(order):
                lhs, rhs = lhs * v, rhs * R(l['dt'])
            defs.append(z3.And(v > 0, lhs == rhs))
            pv.append(v)
        g = adrun_clauses(r, _ZOps, NP, MAXR, CRASH, order, t0, dt, Tend, dmin, dmax, x, pvars=pv)['proposal-formula-and-clip']
        res, _ = prove(g, pre + list(p.assume) + list(p.pc) + defs, name=f'{name}:mutated', kind='vacuity')
        if res == 'sat':
            found = 'sat'
            break
    rep.vac(f'{name}:formula-without-safety-factor-refuted', found, 'sat')
    rep.extra['adaptive_runs'] = rep.extra.get('adaptive_runs', []) + [{'config': name, 'paths': len(paths), 'crashes': sum(1 for p in paths if p.result['status'] == 'crash'),
                                                                         'max_attempts': max(len(p.result['log']) for p in paths)}]
    rep.sample({'case': name, 'paths': len(paths), 'free_variables': 't0, dt, Tend, dt_min, dt_max, start value, one error estimate per attempt', 'a_path': [(l['slot'], str(l['t'])[:40], str(l['dt'])[:40], l['rs']) for l in paths[len(paths) // 2].result['log']]}, limit=3)


def adrun_float(NP, MAXR, CRASH, order, vals, es):
    """the same run on plain floats with the estimates of the model; returns the set of violated clauses"""
    r = adrun(NP, MAXR, CRASH, order, vals['t0'], vals['dt'], vals['Tend'], vals['dmin'], vals['dmax'], vals['x'], floats=list(es))
    pv = []
    for l in r['log']:
        pv.append(0.9 * float(l['dt']) * (1.0 / float(l['e'])) ** (1.0 / order) if l['dtn'] is not None and l['e'] is not None else None)
    g = adrun_clauses(r, _FOps, NP, MAXR, CRASH, order, vals['t0'], vals['dt'], vals['Tend'], vals['dmin'], vals['dmax'], vals['x'], pvars=pv)
    return {k for k, v in g.items() if not v}


def finalize(rep):
    hs = rep.extra.get('histories_by_config', [])
    if hs:
        rep.vac('histories:crash-and-ok-seen', 'sat' if any(h['crashes'] for h in hs) and any(h['paths'] > h['crashes'] for h in hs) else 'unsat', 'sat')


def replay(path):
    logging.disable(logging.CRITICAL)
    d = json.load(open(path))['replay']
    t = d['task']
    if t[0] == 'hist':
        c = core.Ctx(d['decisions'])
        core.Ctx.cur = c
        try:
            r = hist_run(c, *t[1:6], shrink=d.get('shrink', False))
            bad = hist_judge(r, *t[1:6], shrink=d.get('shrink', False))
        finally:
            core.Ctx.cur = None
        print('post_step log:', [(l[0], l[1], l[5], l[6]) for l in r['log']])
        print('violated:', bad)
    elif t[0] == 'sm':
        obs = sm_concrete(t[1], t[2], t[3], d['maxr'], d['reqs'], d['cnts'])
        exp = sm_expected(t[1], t[2], t[3], d['maxr'], d['reqs'], d['cnts'])
        print('observed', obs, 'expected', exp)
        bad = obs != exp
    elif t[0] == 'spread':
        obs, prop_f, fits = spread_concrete(t[1], t[2], d['vals'], d['flags'], t[3] if len(t) > 3 else False)
        print('observed', obs, 'proposal', prop_f, 'fits', fits)
        bad = len({round(a, 12) for a in obs}) != 1 or obs[0] > prop_f * (1 + 1e-12) or (fits and abs(obs[0] - prop_f) > 1e-9 * (1 + prop_f))
    elif t[0] == 'adapt_conv':
        bad = adapt_conv_concrete(t[1], d['order'], d['iter'], d['restart_at_maxiter'], d['vals'], d.get('decisions', ()))
        print('violated on the real class:', bad)
    elif t[0] == 'adrun':
        bad = adrun_float(t[1], t[2], t[3], t[5], d['vals'], d['estimates'])
        print('clauses violated on the real float run:', sorted(bad))
        bad = bool(bad)
    elif t[0] == 'lim':
        v = d['vals']
        L = SimpleNamespace(status=SimpleNamespace(dt_new=v['dtn']), params=SimpleNamespace(dt=v['dt']))
        St = SimpleNamespace(levels=[L], status=SimpleNamespace(restart=d['restart'], slot=0), time=0.0)
        for lim in limiters_of_controller(dict(dt_slope_min=v['smin'], dt_slope_max=v['smax'], dt_rel_min_slope=v['rel'], dt_min=v['dmin'], dt_max=v['dmax'])):
            print('calling', type(lim).__name__, 'control order', lim.params.control_order)
            lim.get_new_step_size(None, St)
        rr = v['dtn'] / v['dt']
        sl = v['dt'] * v['smin'] if rr < v['smin'] else v['dt'] * v['smax'] if rr > v['smax'] else (v['dt'] if abs(rr - 1) < v['rel'] and not d['restart'] else v['dtn'])
        ex = min(max(sl, v['dmin']), v['dmax'])
        print('limiters give', L.status.dt_new, 'specified clip (slope limits, then absolute limits)', ex)
        bad = abs(L.status.dt_new - ex) > 1e-9 * (1 + abs(ex))
    elif t[0] == 'adapt_avoid':
        bad = avoid_concrete(d['NL'], d['order'], d['iter'], d['vals'])
        print('violated on the real class:', bad)
    elif t[0] == 'adapt_res':
        from pySDC.implementations.convergence_controller_classes.adaptivity import AdaptivityResidual

        v = d['vals']
        A2 = _mk(AdaptivityResidual, dict(e_tol=v['e_tol'], e_tol_low=v['e_tol_low'], use_restol=False, allowed_modifications=['increase', 'decrease'], avoid_restarts=False))
        L2 = SimpleNamespace(status=SimpleNamespace(dt_new=(v['planned'] if d.get('planned_set') else None), residual=v['res']), params=SimpleNamespace(dt=v['dt'], restol=-1.0))
        S2 = SimpleNamespace(levels=[L2], status=SimpleNamespace(iter=d.get('iter', 1), restart=False, slot=0, force_continue=False), params=SimpleNamespace(maxiter=d['maxiter']), time=0.0)
        A2.get_new_step_size(None, S2)
        A2.determine_restart(None, S2)
        new = L2.status.dt_new if L2.status.dt_new is not None else v['dt']
        print('restart', S2.status.restart, 'dt', v['dt'], 'new step size', new)
        bad = bool(S2.status.restart) and not new < v['dt']
    else:
        print(d)
        bad = True
    print('REPRODUCED' if bad else 'not reproduced')
    return 1 if bad else 0

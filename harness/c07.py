"""C07 -- block protocol is safe for every convergence pattern of the parallel steps"""
import itertools
import json

import z3

from symx import core
from symx.core import explore, coverage_certificate, satisfiable, model_value
from harness import ctrl

PID = 'C07'
BOUNDS = {'quick': dict(parallel_steps='<=3', levels='<=3', Kmax='<=3', nsweeps='<=2 (small cases)'), 'thorough': dict(parallel_steps='<=4', levels='<=3', Kmax='<=4 (<=3 with 4 steps on several levels)', nsweeps='<=2', split='configurations with steps*Kmax >= 9 are explored in parts: one per feasible prefix of the first 18 decisions')}


def describe(rep):
    from pySDC.implementations.controller_classes.controller_nonMPI import controller_nonMPI as C
    from pySDC.implementations.convergence_controller_classes.check_convergence import CheckConvergence
    from pySDC.core.hooks import Hooks

    rep.func(C.run, C.restart_block, C.pfasst, C.spread, C.predict, C.it_check, C.it_fine, C.it_down, C.it_coarse, C.it_up,
             C.send_full, C.recv_full, CheckConvergence.check_convergence, CheckConvergence.check_iteration_status)
    rep.explanation = (
        'Bounded model checking of the real controller_nonMPI block protocol by symbolic execution: the residual a step reports at '
        '(step, iteration) is a fresh non-negative real, maxiter a symbolic integer in 0..Kmax, forced-stop/continue flags symbolic booleans. '
        'The real CheckConvergence forks on them; the solver decides feasibility of each branch, all feasible paths are executed depth-first '
        'and a final query certifies that the explored path conditions cover the whole input space. On every path the safety clauses '
        '(finish order, finished steps untouched, common stage, tag/sender matching of every receive, a step receives on the level it has just sent on, termination, callback grammar, '
        'all_to_done iteration counts, iteration budget) are asserted on the real objects.'
    )
    rep.rule = ('one state = one explored execution path (a maximal set of residual/maxiter/flag values steering the controller identically); '
                'transitions = branch decisions taken; every path is an execution of the real implementation; configurations include blocks shorter than the number of processes and steps that cannot be copied (built one by one)')
    rep.assume('probe sweeper = real generic_implicit on testequation0d (float data); only the residual reported at IT_CHECK is symbolic',
               'single block (Tend = num_procs*dt); multi-block behaviour is covered by C06/C09',
               'residuals >= 0')
    rep.out_of_scope('num_procs > 4, levels > 3, maxiter > 4 (the property text asks for sampling beyond the bounds; sampling is not this technique)',
                     'controller_MPI', 'use_iteration_estimator')


def tasks(tier, seed, deepest=True):
    T = []
    if tier == 'quick':
        for NP, NL, K in [(1, 1, 3), (2, 1, 3), (3, 1, 2), (2, 2, 2), (3, 2, 2), (2, 3, 2)]:
            preds = [None] if NL == 1 else [None, 'fine_only', 'pfasst_burnin']
            for pred in preds:
                for jac in ([True, False] if NL == 1 and NP > 1 else [True]):
                    for atd in (False, True):
                        if atd and NP == 1:
                            continue
                        T.append((NP, NL, K, pred, jac, atd, 1, None))
        T.append((2, 1, 2, None, True, False, 2, None))
        # a block with fewer steps than the controller has processes (the last step of the block is not the last process)
        T.append((3, 1, 2, None, True, False, 1, {'short': True}))
        T.append((3, 2, 2, 'pfasst_burnin', True, True, 1, {'short': True}))
        T.append((2, 2, 2, 'fine_only', False, False, 1, {'short': True}))
        # steps that cannot be copied (the problem holds a handle that cannot be pickled): the controller builds them one by one
        T.append((3, 1, 2, None, True, False, 1, {'unpicklable': True}))
        T.append((3, 1, 2, None, False, False, 1, {'unpicklable': True}))
        T.append((3, 2, 2, 'fine_only', True, False, 1, {'unpicklable': True}))
        T.append((2, 2, 2, 'pfasst_burnin', True, False, 2, None))
        T.append((2, 3, 2, None, True, False, 2, None))  # two sweeps on the middle level on the way down
        T.append((2, 1, 2, None, True, False, 1, {'force_done': True, 'force_continue': False}))
        T.append((2, 1, 2, None, True, False, 1, {'force_done': False, 'force_continue': True, 'fc_until': 1}))
        T.append((2, 2, 2, 'pfasst_burnin', True, True, 1, {'force_done': True, 'force_continue': False}))
    else:
        for NP, NL, K in [(1, 1, 4), (2, 1, 4), (3, 1, 4), (4, 1, 3), (2, 2, 4), (3, 2, 3), (4, 2, 3), (2, 3, 3), (3, 3, 3), (4, 3, 2)]:
            if not deepest and NP == 4 and K >= 3:
                continue  # (the checks of other properties that reuse these explorations leave out the 15000-pattern configurations)
            preds = [None] if NL == 1 else [None, 'fine_only', 'pfasst_burnin']
            for pred in preds:
                for jac in ([True, False] if NL == 1 and NP > 1 else [True]):
                    for atd in (False, True):
                        if atd and NP == 1:
                            continue
                        if atd and NP == 4 and K >= 3 and not (NL == 1 and jac):
                            continue  # all_to_done with 4 steps and 3 iterations has 58000 patterns per configuration: one configuration only
                        for ns in ((1, 2) if NP <= 3 and K <= 3 else (1,)):
                            T.append((NP, NL, K, pred, jac, atd, ns, None))
        if deepest:
            for NP_, NL_, pred_ in ((3, 1, None), (4, 1, None), (3, 2, 'pfasst_burnin'), (3, 3, 'fine_only'), (4, 2, None)):
                T.append((NP_, NL_, 3, pred_, True, False, 1, {'short': True}))
            T.append((4, 1, 4, None, True, False, 1, None))  # the largest single configuration (about 10^5 convergence patterns)
        for NP, NL in [(2, 1), (3, 1), (2, 2), (3, 2)]:
            T.append((NP, NL, 2, 'pfasst_burnin' if NL > 1 else None, True, False, 1, {'force_done': True, 'force_continue': False}))
            T.append((NP, NL, 2, 'pfasst_burnin' if NL > 1 else None, True, False, 1, {'force_done': False, 'force_continue': True, 'fc_until': 1}))
            T.append((NP, NL, 2, 'pfasst_burnin' if NL > 1 else None, True, True, 1, {'force_done': True, 'force_continue': True, 'fc_until': 0}))
        # configurations with many convergence patterns are explored in parts (one per feasible prefix of the first 18 decisions)
        T = split(T, lambda t: t[0] * t[2] >= 9 and t[7] is None, depth=18)
    return T


def split(T, big, depth=9):
    """large configurations are explored in parts, one per feasible prefix of the first `depth` branch decisions (computed here by a depth-limited
    exploration of the same runs; the parts go to different workers and their regions partition the input space)"""
    out = []
    for t in T:
        if big(t):
            NP, NL, K, pred, jac, atd, ns, inject = t[:8]
            for bits in core.frontier(lambda c: ctrl.run_block(c, NP, NL, K, pred, jac, atd, ns, inject), depth):
                out.append(tuple(t) + (bits,))
        else:
            out.append(t)
    return out


def explore_config(rep, task, clauses=None, pid=PID):
    NP, NL, K, pred, jac, atd, ns, inject = task[:8]
    prefix = tuple(task[8]) if len(task) > 8 else ()
    name = f'NP{NP}/NL{NL}/K{K}/{pred}/jac{int(jac)}/atd{int(atd)}/ns{ns}/inj{json.dumps(inject) if inject else 0}'
    if prefix:
        name += '/part' + ''.join(str(int(b)) for b in prefix)

    def fn(c):
        return ctrl.run_block(c, NP, NL, K, pred, jac, atd, ns, inject)

    runaway = lambda r: bool(r.get('exc')) and 'does not terminate' in str(r.get('exc'))
    paths = explore(fn, max_paths=400000, prefix=prefix, stop=runaway)
    mx = z3.Int('maxiter')
    pre = [z3.And(mx >= 0, mx <= K)]
    if prefix and not paths:
        rep.extra['empty_parts'] = rep.extra.get('empty_parts', 0) + 1
        return []
    if prefix:
        # the forced decisions are this part's region: they join the precondition of the part (all paths share them; the union of the regions of all
        # 2^k parts is the whole input space).  A region that is empty (forced decisions contradict each other) carries no claim.
        plen = min(len(prefix), min(len(p.pc) for p in paths))
        region = list(paths[0].pc[:plen])
        r0, _ = satisfiable(pre + [a for p in paths[:1] for a in p.assume] + region, name=f'{name}:region', kind='witness')
        if r0 == 'unsat':
            rep.extra['empty_parts'] = rep.extra.get('empty_parts', 0) + 1
            return []
        if r0 != 'sat':
            rep.ob(f'{name}:region', r0)
            return []
        # a run that needs fewer decisions than the prefix is explored in several parts; keep it in the part whose remaining bits are all True
        paths = [p for p in paths if len(p.pc) >= len(prefix) or all(prefix[len(p.pc):])]
        if not paths:
            return []
        pre = pre + region
    rep.paths += len(paths)
    rep.decisions += sum(len(p.decisions) for p in paths)
    # all assumptions added during the runs (residuals >= 0) are part of the precondition
    seen = set()
    for p in paths:
        for a in p.assume:
            if a.hash() not in seen:
                seen.add(a.hash())
                pre.append(a)
    if paths and runaway(paths[-1].result):
        rep.note(f'{name}: exploration stopped at a run that does not terminate; no coverage claimed for this configuration')
    else:
        r = coverage_certificate(paths, pre, name=f'{name}:coverage')
        rep.ob(f'{name}:coverage', r)
    nviol = 0
    seen = set()
    for p in paths:
        viol = p.result['viol']
        if clauses is not None:
            viol = [v for v in viol if v[0] in clauses]
        if not viol:
            continue
        nviol += 1
        new_keys = []
        for v in viol:  # one report per distinct violated clause
            key = f'{pid}/{v[0]}/{"ml" if NL > 1 else "sl"}/{pred}'
            if key not in seen:
                seen.add(key)
                new_keys.append((key, v))
        if not new_keys:
            continue
        # concrete witness of this path, replayed on the plain interpreter
        res, model = satisfiable(pre + list(p.pc), name=f'{name}:witness', kind='witness')
        wit = {}
        if res == 'sat':
            for d in model.decls():
                wit[d.name()] = str(model_value(model, d()))
        for key, v in new_keys:
            rep.replayed += 1
            rep.violation(key, f'{name}: clause {v[0]} violated on a feasible convergence pattern: {str(v[1])[:300]}',
                          {'task': list(task), 'decisions': p.decisions, 'witness': wit, 'violated': [(x[0], str(x[1])[:300]) for x in viol],
                           'callbacks': p.result.get('words')})
    if len(rep.samples) < 6 and paths:
        p = paths[len(paths) // 2]
        rep.sample({'config': name, 'paths': len(paths), 'a_path': {'decisions': p.decisions, 'niter': p.result.get('niter'),
                                                                      'callback_words': p.result.get('words')}})
    rep.extra['paths_by_config'] = rep.extra.get('paths_by_config', []) + [{'config': name, 'paths': len(paths), 'violating': nviol}]
    return paths


C07_CLAUSES = ('exception', 'finish-order', 'finished-step-changed', 'mixed-stages', 'recv-tag', 'recv-value', 'recv-level', 'grammar',
               'all-to-done-niter', 'send-unconsumed')


def run_task(rep, task):
    explore_config(rep, task, clauses=C07_CLAUSES)


def finalize(rep):
    # vacuity: the exploration really distinguishes patterns (more than one path and both early and late convergence seen)
    tot = sum(c['paths'] for c in rep.extra.get('paths_by_config', []))
    rep.vac('paths>configs', 'sat' if tot > len(rep.extra.get('paths_by_config', [])) else 'unsat', 'sat')


def replay(path):
    """re-execute the recorded decision prefix on the real controller and re-check the clauses"""
    import logging

    logging.disable(logging.CRITICAL)
    d = json.load(open(path))['replay']
    task = d['task']
    task = tuple(task[:7]) + (task[7],)
    NP, NL, K, pred, jac, atd, ns, inject = task
    c = core.Ctx(d['decisions'])
    core.Ctx.cur = c
    try:
        r = ctrl.run_block(c, NP, NL, K, pred, jac, atd, ns, inject)
    finally:
        core.Ctx.cur = None
    print('violated clauses on replay:', r['viol'])
    print('REPRODUCED' if r['viol'] else 'not reproduced')
    return 1 if r['viol'] else 0

"""C20 -- descriptions are interpreted consistently and invalid set-ups are rejected"""
import copy
import json
import logging

import numpy as np
import z3

from symx import core
from symx.core import SymInt, I, explore, prove, coverage_certificate, model_value
from harness import common as cm

from pySDC.core.convergence_controller import ConvergenceController
from pySDC.core.errors import ParameterError, ControllerError, ReadOnlyError, CollocationError
from pySDC.implementations.controller_classes.controller_nonMPI import controller_nonMPI
from pySDC.implementations.problem_classes.TestEquation_0D import testequation0d
from pySDC.implementations.sweeper_classes.generic_implicit import generic_implicit
from pySDC.implementations.transfer_classes.TransferMesh_NoCoarse import mesh_to_mesh

PID = 'C20'
BOUNDS = {'quick': dict(dict_to_list='3 keys, lists 1..4 (6)', controllers='2..3 symbolic control orders', levels='1..4'), 'thorough': dict(controllers='2..4')}
CREATED = []


class _H(ConvergenceController):
    def __init__(self, controller, params, description, **kw):
        CREATED.append(type(self).__name__)
        super().__init__(controller, params, description, **kw)

    def setup(self, controller, params, description, **kw):
        return {'control_order': 7, 'knob': 'default', 'other': 'default', **super().setup(controller, params, description, **kw)}


CALLLOG = []
CALLBACKS = ('reset_buffers_nonMPI', 'setup_status_variables', 'reset_status_variables', 'pre_iteration_processing', 'post_iteration_processing', 'check_iteration_status',
             'get_new_step_size', 'determine_restart', 'post_step_processing', 'prepare_next_block', 'post_spread_processing', 'post_run_processing')


def _logged(nm):
    def method(self, *a, **k):
        CALLLOG.append((nm, type(self).__name__, self.params.control_order))
        return getattr(super(_H, self), nm)(*a, **k)

    method.__name__ = nm
    return method


for _nm in CALLBACKS:  # every callback of the harness controllers records that it was called (and then does what the base class does)
    if hasattr(ConvergenceController, _nm):
        setattr(_H, _nm, _logged(_nm))


def call_rounds(log):
    """the calls of one callback kind come in rounds (one call per controller): list of rounds [(callback, class name, control order), ...]"""
    out, seg = [], []

    def close():
        rnd, seen = [], set()
        for ev in seg + [None]:
            if ev is None or ev[1] in seen:
                if len(rnd) > 1:
                    out.append(rnd)
                rnd, seen = [], set()
            if ev is not None:
                rnd.append(ev)
                seen.add(ev[1])

    for ev in log:
        if seg and seg[-1][0] != ev[0]:
            close()
            seg = []
        seg.append(ev)
    if seg:
        close()
    return out


class H1(_H):
    def dependencies(self, controller, description, **kw):
        # depends on H2 (which the user may also have listed): must not be instantiated twice
        controller.add_convergence_controller(H2, description=description, params={'control_order': 7, 'knob': 'from-dependency'})


class H2(_H):
    pass


class H3(_H):
    pass


class H4(_H):
    pass


def describe(rep):
    from pySDC.core.step import Step
    from pySDC.core.controller import Controller
    from pySDC.helpers.pysdc_helper import FrozenClass
    from pySDC.core.common import RegisterParams

    rep.func(Step._Step__dict_to_list, Step._Step__generate_hierarchy, Controller.add_convergence_controller, Controller.setup_convergence_controllers,
             ConvergenceController.setup, FrozenClass.__setattr__, RegisterParams.__setattr__)
    rep.explanation = (
        '(a) CrossHair contracts over the real Step.__dict_to_list with symbolic scalar-or-list values: number of levels = longest list, entry d of '
        'key k = v[min(d, len(v)-1)], scalars shared, key sets preserved. (c) the real controller constructor / add_convergence_controller executed '
        'with SYMBOLIC integer control orders of 2..4 harness convergence controllers (np.argsort forks over the orderings): on every path each class '
        'is instantiated once, the execution order is ascending in control_order (SMT validity), user parameters override defaults; coverage certified. '
        '(b), (d) the rejection clauses and the frozen/read-only attribute clauses are a finite table of single-fault perturbations of a valid '
        'description; they are executed concretely as side conditions -- no solver decides them. List-valued transfer entries (space_transfer_class, space_transfer_params, base_transfer_params) are read as: entry l belongs to level l, and the transfer attaching level l to the finer level l-1 is built from the l-th entries (recording transfer classes; ENUMERATED shapes, 2..4 levels).'
    )
    rep.rule = 'case = CrossHair condition / path of the controller constructor AND of a short real run with logging controllers (an ordering of the symbolic control orders; every round of every callback kind is proved ascending) / one single-fault perturbation; frozen objects: step / level / controller / sweeper status and parameter objects and the status containers of convergence controllers'
    rep.assume('dictionary keys of the description are fixed strings (CrossHair times out on symbolic str keys)', 'attribute names in (b) are a fixed list')
    rep.out_of_scope('the full grammar of valid descriptions (problem / sweeper specific parameters)')


def tasks(tier, seed):
    T = [('dict',), ('orders', 2), ('orders', 3), ('reject',), ('frozen',), ('levels',), ('transfer_entries',)]
    if tier != 'quick':
        T.append(('orders', 4))
    return T


def run_task(rep, task):
    if task[0] == 'dict':
        cm.xhair_task(rep, PID, 'crosshair/c20_dict.py', timeout_s=90 if rep.tier == 'quick' else 300)
    elif task[0] == 'orders':
        orders_case(rep, task[1])
    elif task[0] == 'reject':
        reject_case(rep)
    elif task[0] == 'frozen':
        frozen_case(rep)
    elif task[0] == 'levels':
        levels_case(rep)
    elif task[0] == 'transfer_entries':
        transfer_entries_case(rep)


def valid_desc(NL=1):
    d = dict(problem_class=testequation0d, problem_params={'lambdas': np.array([-1.0]), 'u0': 1.0}, sweeper_class=generic_implicit,
             sweeper_params={'num_nodes': [3, 2, 1][:NL] if NL > 1 else 3, 'quad_type': 'RADAU-RIGHT', 'QI': 'LU'},
             level_params={'dt': 0.1, 'restol': 1e-8}, step_params={'maxiter': 5})
    if NL > 1:
        d['space_transfer_class'] = mesh_to_mesh
    return d


CP = {'logger_level': 50, 'dump_setup': False}


def orders_case(rep, n):
    name = f'orders/{n}'
    classes = [H1, H2, H3, H4][:n]
    ov = [z3.Int(f'order{i}') for i in range(n)]
    pre = [z3.And(o >= -300, o <= 300) for o in ov]

    def fn(c):
        for a in pre:
            c.add(a)
        CREATED.clear()
        d = valid_desc()
        d['convergence_controllers'] = {cls: {'control_order': SymInt(ov[i]), 'knob': f'user{i}'} for i, cls in enumerate(classes)}
        ctl = controller_nonMPI(2, dict(CP), d)
        ccs = ctl.convergence_controllers
        seq = [ccs[i] for i in ctl.convergence_controller_order]
        # the order in which the callbacks are REALLY invoked during a short run (two steps, a few iterations)
        CALLLOG.clear()
        P = ctl.MS[0].levels[0].prob
        ctl.run(P.u_exact(0), 0.0, 0.2)
        seen_, rounds = set(), []
        for rnd in call_rounds(list(CALLLOG)):
            key = (rnd[0][0], tuple(x[1] for x in rnd))
            if key not in seen_:
                seen_.add(key)
                rounds.append([(x[0], x[1], I(x[2])) for x in rnd])
        return dict(rounds=rounds, created=list(CREATED), names=[type(x).__name__ for x in seq], orders=[I(x.params.control_order) for x in seq],
                    knobs={type(x).__name__: (x.params.knob, x.params.other) for x in ccs if isinstance(x, _H)},
                    n_all=len(ccs), kinds=len({type(x) for x in ccs}))

    paths = explore(fn, max_paths=20000)
    rep.paths += len(paths)
    rep.decisions += sum(len(p.decisions) for p in paths)
    for i, p in enumerate(paths):
        r = p.result
        goal = z3.And([r['orders'][j] <= r['orders'][j + 1] for j in range(len(r['orders']) - 1)])
        res, m = prove(goal, pre + list(p.pc), name=f'{name}/path{i}:ascending')
        rep.ob(f'{name}/path{i}:ascending', res)
        if res == 'sat':
            vals = [int(model_value(m, o)) for o in ov]
            rep.replayed += 1
            d = valid_desc()
            d['convergence_controllers'] = {cls: {'control_order': vals[j]} for j, cls in enumerate(classes)}
            ctl = controller_nonMPI(2, dict(CP), d)
            got = [ctl.convergence_controllers[j].params.control_order for j in ctl.convergence_controller_order]
            if got != sorted(got):
                rep.violation(f'{PID}/convergence-controller-order', f'control orders {vals}: execution order {got} is not ascending',
                              {'task': ['orders', n], 'orders': vals, 'observed': got})
            else:
                rep.unreproduced(f'{name}/path{i}', vals)
        # every callback kind visits the controllers in ascending control order (all rounds of the run, decided under the path condition)
        rgoal = z3.And([rnd[j][2] <= rnd[j + 1][2] for rnd in r['rounds'] for j in range(len(rnd) - 1)] + [z3.BoolVal(True)])
        res2, m2 = prove(rgoal, pre + list(p.pc), name=f'{name}/path{i}:callbacks-ascending')
        rep.ob(f'{name}/path{i}:every-callback-visits-the-controllers-in-ascending-order', res2)
        rep.vac(f'{name}/path{i}:callback-rounds-observed', 'sat' if len({x[0][0] for x in r['rounds']}) >= 4 else 'unsat', 'sat')
        if res2 == 'sat':
            vals = [int(model_value(m2, o)) for o in ov]
            rep.replayed += 1
            badr = real_callback_rounds(classes, vals)
            if badr:
                rep.violation(f'{PID}/convergence-controller-order/callback/{badr[0][0][0]}', f'control orders {vals}: callback {badr[0][0][0]} visits the controllers in the order {[(x[1], x[2]) for x in badr[0]]}',
                              {'task': ['orders', n], 'orders': vals, 'callbacks': True, 'observed': [[list(x) for x in rnd] for rnd in badr[:3]]})
            else:
                rep.unreproduced(f'{name}/path{i}:callbacks', vals)
        rep.side(f'{name}/path{i}:instantiated-once', sorted(r['created']) == sorted(c.__name__ for c in classes) and r['n_all'] == r['kinds'], r['created'])
        rep.side(f'{name}/path{i}:user-params-override-defaults',
                 all(r['knobs'][c.__name__] == (f'user{j}', 'default') for j, c in enumerate(classes)), r['knobs'])
    res = coverage_certificate(paths, pre, name=f'{name}:coverage')
    rep.ob(f'{name}:coverage', res)
    rep.vac(f'{name}:several-orderings', 'sat' if len({tuple(p.result['names']) for p in paths}) >= 2 else 'unsat', 'sat')
    rep.sample({'case': name, 'paths': len(paths), 'orderings_seen': len({tuple(p.result['names']) for p in paths}),
                'free_variables': 'control_order of each harness convergence controller'}, limit=4)


def real_callback_rounds(classes, vals):
    """rounds of callback invocations that are not ascending in control order, for concrete control orders (real run)"""
    d = valid_desc()
    d['convergence_controllers'] = {cls: {'control_order': vals[j]} for j, cls in enumerate(classes)}
    ctl = controller_nonMPI(2, dict(CP), d)
    CALLLOG.clear()
    P = ctl.MS[0].levels[0].prob
    ctl.run(P.u_exact(0), 0.0, 0.2)
    return [rnd for rnd in call_rounds(list(CALLLOG)) if any(rnd[j][2] > rnd[j + 1][2] for j in range(len(rnd) - 1))]


def _raises(fn, excs):
    try:
        fn()
    except excs:
        return True
    except Exception as e:  # wrong kind of error still means "not silently ignored", but report which
        return f'{type(e).__name__}: {str(e)[:80]}'
    return False


def reject_case(rep):
    """single-fault perturbations of a valid description must be rejected at construction or first use (concrete side conditions)"""
    base = lambda NL=1: copy.deepcopy(valid_desc(NL))
    mk = lambda d, NP=1, cp=None: controller_nonMPI(NP, {**CP, **(cp or {})}, d)

    def run(d, NP=1, cp=None):
        ctl = mk(d, NP, cp)
        P = ctl.MS[0].levels[0].prob
        ctl.run(P.u_exact(0), 0.0, 0.1 * NP)

    rep.side('valid-description-accepted', _raises(lambda: run(base()), (Exception,)) is False)
    rep.side('valid-2-level-description-accepted', _raises(lambda: run(base(2)), (Exception,)) is False)
    for key in ('problem_class', 'sweeper_class', 'sweeper_params', 'level_params'):
        d = base()
        d.pop(key)
        rep.side(f'missing-{key}', _raises(lambda: mk(d), (ParameterError,)) is True)
    d = base()
    d['sweeper_params'].pop('num_nodes')
    rep.side('missing-num_nodes', _raises(lambda: mk(d), (ParameterError,)) is True)
    d = base(2)
    d.pop('space_transfer_class')
    rep.side('multi-level-without-space-transfer', _raises(lambda: mk(d), (ParameterError,)) is True)
    rep.side('unknown-predictor', _raises(lambda: run(base(2), 2, {'predict_type': 'nonsense'}), (ControllerError,)) is True)
    for bad in ('', False, 0, 'FINE_ONLY', 'fmg_'):  # unknown values of other shapes: empty, falsy, wrong case
        for NP in (1, 2):
            rep.side(f'unknown-predictor/{bad!r}/NP{NP}', _raises(lambda: run(base(2), NP, {'predict_type': bad}), (ControllerError, NotImplementedError)) is True)
    d = base()
    d['level_params']['residual_type'] = 'nonsense'
    rep.side('unknown-residual-type', _raises(lambda: run(d), (ParameterError,)) is True)
    # names that are close to valid ones (suffix / prefix / case / blank variants): every one of them is unknown and must be rejected, for every
    # sweeper family that brings its own residual computation
    from pySDC.implementations.sweeper_classes.imex_1st_order import imex_1st_order
    from pySDC.implementations.sweeper_classes.explicit import explicit
    from pySDC.implementations.problem_classes.TestEquation_0D import test_equation_IMEX

    for bad in ('max_rel', 'first_rel', 'full_abs_rel', 'l2_rel', 'FULL_ABS', 'Full_rel', 'full', 'last', 'rel', 'abs', 'full_abs ', ' last_abs', 'last-abs', 'full_absolute', ''):
        for swname, swc, pc in (('generic_implicit', generic_implicit, testequation0d), ('imex_1st_order', imex_1st_order, test_equation_IMEX), ('explicit', explicit, testequation0d)):
            d = base()
            d['sweeper_class'] = swc
            d['problem_class'] = pc
            if swc is not generic_implicit:
                d['sweeper_params'].pop('QI', None)
            if pc is test_equation_IMEX:
                d['problem_params'] = {'lambdas_implicit': np.array([-1.0]), 'lambdas_explicit': np.array([-0.5]), 'u0': 1.0}
            ok_first = _raises(lambda: run(d), (Exception,)) is False
            d['level_params']['residual_type'] = bad
            rep.side(f'unknown-residual-type/{bad!r}/{swname}', ok_first and _raises(lambda: run(d), (ParameterError,)) is True)
    for bad in ('Spread', 'SPREAD', 'spread ', 'zeros', 'zero_', 'copy2', 'rand', ''):
        d = base()
        d['sweeper_params']['initial_guess'] = bad
        rep.side(f'unknown-initial-guess/{bad!r}', _raises(lambda: run(d), (ParameterError,)) is True)
    d = base()
    d['sweeper_params']['initial_guess'] = 'nonsense'
    rep.side('unknown-initial-guess', _raises(lambda: run(d), (ParameterError,)) is True)
    d = base()
    d['sweeper_params']['quad_type'] = 'NONSENSE'
    rep.side('unknown-quadrature', _raises(lambda: mk(d), (CollocationError, ParameterError, ValueError, KeyError)) is True)
    d = base()
    d['sweeper_params']['node_type'] = 'NONSENSE'
    rep.side('unknown-node-type', _raises(lambda: mk(d), (CollocationError, ParameterError, ValueError, KeyError)) is True)
    d = base()
    d['sweeper_params']['QI'] = 'NONSENSE'
    rep.side('unknown-preconditioner', _raises(lambda: mk(d), (ParameterError, ValueError, KeyError, NotImplementedError)) is True)
    # a second preconditioner of the same kind on one sweeper (multi_implicit: Q1, Q2) and a later request on a constructed sweeper: an unknown name is
    # rejected there too (whatever valid name was requested before)
    from pySDC.implementations.sweeper_classes.multi_implicit import multi_implicit
    from harness.sweepspec import FMulti

    for q1, q2, okexp in (('LU', 'IE', True), ('LU', 'NONSENSE', False), ('NONSENSE', 'LU', False), ('IE', 'lu', False), ('LU', '', False)):
        d = dict(problem_class=FMulti, problem_params={'A1': [[-1.0]], 'A2': [[-0.5]]}, sweeper_class=multi_implicit, sweeper_params={'num_nodes': 2, 'quad_type': 'RADAU-RIGHT', 'Q1': q1, 'Q2': q2},
                 level_params={'dt': 0.1, 'restol': 1e-8}, step_params={'maxiter': 2})
        raised = _raises(lambda: mk(d), (ParameterError, ValueError, KeyError, NotImplementedError))
        rep.side(f'unknown-preconditioner/multi_implicit/Q1={q1!r}/Q2={q2!r}', (raised is False) if okexp else (raised is True))
    ctl_ = mk(base())
    sw_ = ctl_.MS[0].levels[0].sweep
    for meth in ('get_Qdelta_implicit', 'get_Qdelta_explicit'):
        for bad in ('NONSENSE', 'lu', 'EEE'):
            rep.side(f'unknown-preconditioner/{meth}/{bad!r}-after-a-valid-request', _raises(lambda: getattr(sw_, meth)(bad), (ParameterError, ValueError, KeyError, NotImplementedError)) is True)
    d = base(2)
    d['level_params']['nsweeps'] = [1, 2]
    rep.side('several-sweeps-on-coarsest-level', _raises(lambda: mk(d), (ControllerError,)) is True)
    d = base(2)
    d['sweeper_params']['quad_type'] = 'GAUSS'
    rep.side('pfasst-without-right-end-point', _raises(lambda: mk(d, 2), (ControllerError,)) is True)
    rep.side('deprecated-predict-flag', _raises(lambda: mk(base(), 1, {'predict': True}), (ControllerError,)) is True)
    for v in (False, 0, None, '', 'fine_only'):  # the deprecated key is rejected whatever its value (a user switching the predictor off writes False)
        rep.side(f'deprecated-predict-flag/{v!r}', _raises(lambda: mk(base(2), 2, {'predict': v}), (ControllerError,)) is True)
    for key in ('dtype_u', 'dtype_f'):
        for v in (None, 0, 'mesh'):
            d = base()
            d[key] = v
            rep.side(f'deprecated-{key}/{v!r}', _raises(lambda: mk(d), (ParameterError,)) is True)
    # the same faults placed on SOME levels only (list-valued entries): every non-empty subset of 2 and 3 levels
    import itertools

    for NL in (2, 3):
        nn = [3, 3, 2][:NL]  # LOBATTO / RADAU-LEFT need at least two nodes
        for sub in itertools.product((False, True), repeat=NL):
            tag = f'NL{NL}/levels{"".join(str(int(b)) for b in sub)}'
            for bad in ('GAUSS', 'RADAU-LEFT'):
                for good in ('RADAU-RIGHT', 'LOBATTO'):
                    d = base(NL)
                    d['sweeper_params']['num_nodes'] = nn
                    d['sweeper_params']['quad_type'] = [bad if b else good for b in sub]
                    if any(sub):
                        rep.side(f'pfasst-without-right-end-point/{tag}/{bad}/{good}', _raises(lambda: mk(d, 2), (ControllerError,)) is True)
                    else:
                        rep.side(f'pfasst-with-right-end-point-accepted/{tag}/{good}', _raises(lambda: mk(d, 2), (Exception,)) is False)
            if not any(sub):
                continue
            for key, val, okval, excs, first_use in (('quad_type', 'NONSENSE', 'RADAU-RIGHT', (CollocationError, ParameterError, ValueError, KeyError), False),
                                                     ('node_type', 'NONSENSE', 'LEGENDRE', (CollocationError, ParameterError, ValueError, KeyError), False),
                                                     ('QI', 'NONSENSE', 'LU', (ParameterError, ValueError, KeyError, NotImplementedError), False),
                                                     ('initial_guess', 'nonsense', 'spread', (ParameterError,), True)):
                if first_use and not sub[0]:
                    continue  # the plain run only uses the initial guess of the finest level: a coarse-level name that is never used is not "first used"
                d = base(NL)
                d['sweeper_params'][key] = [val if b else okval for b in sub]
                rep.side(f'unknown-{key}/{tag}', _raises((lambda: run(d)) if first_use else (lambda: mk(d)), excs) is True)
            d = base(NL)
            d['level_params']['residual_type'] = ['nonsense' if b else 'full_abs' for b in sub]
            rep.side(f'unknown-residual-type/{tag}', _raises(lambda: run(d), (ParameterError,)) is True)
        for ns in itertools.product((1, 2, 3), repeat=NL):
            d = base(NL)
            d['level_params']['nsweeps'] = list(ns)
            if ns[-1] > 1:
                rep.side(f'several-sweeps-on-coarsest-level/NL{NL}/{ns}', _raises(lambda: mk(d), (ControllerError,)) is True)
            else:
                rep.side(f'sweeps-on-finer-levels-accepted/NL{NL}/{ns}', _raises(lambda: mk(d), (Exception,)) is False)
    for key in ('dtype_u', 'dtype_f'):
        d = base()
        d[key] = object
        rep.side(f'deprecated-{key}', _raises(lambda: mk(d), (ParameterError,)) is True)


def frozen_case(rep):
    ctl = controller_nonMPI(2, dict(CP), valid_desc(2))
    S = ctl.MS[0]
    L = S.levels[0]
    for obj, nm in ((S.status, 'step.status'), (S.params, 'step.params'), (L.status, 'level.status'), (L.params, 'level.params'), (ctl.params, 'controller.params'),
                    (L.sweep.params, 'sweeper.params'), (L, 'level'), (S, 'step')):
        for attr in ('undeclared_attribute', 'iter_', 'restol_', 'x'):
            rep.side(f'frozen/{nm}/{attr}', _raises(lambda: setattr(obj, attr, 1), (TypeError,)) is True)
    # declared attributes stay assignable; attributes added via add_attr become assignable and default to None
    S.status.iter = 3
    rep.side('frozen/declared-assignable', S.status.iter == 3)
    type(S.status).add_attr('c20_extra')
    rep.side('frozen/add_attr-default-none', S.status.c20_extra is None)
    S.status.c20_extra = 5
    rep.side('frozen/add_attr-assignable', S.status.c20_extra == 5 and ctl.MS[1].status.c20_extra is None)
    type(S.status).attrs.remove('c20_extra')
    # an attribute declared for ONE frozen class does not become assignable on another one (same-named classes of other modules included: step status /
    # level status, the parameter classes of step, level, sweeper, controller)
    type(S.status).add_attr('c20_only_step_status')
    others = ((L.status, 'level.status'), (S.params, 'step.params'), (L.params, 'level.params'), (ctl.params, 'controller.params'), (L.sweep.params, 'sweeper.params'))
    for obj, nm in others:
        rep.side(f'frozen/declared-on-step.status-not-on/{nm}', _raises(lambda: setattr(obj, 'c20_only_step_status', 1), (TypeError,)) is True)
    type(S.status).attrs.remove('c20_only_step_status')
    type(L.status).add_attr('c20_only_level_status')
    rep.side('frozen/declared-on-level.status-not-on/step.status', _raises(lambda: setattr(S.status, 'c20_only_level_status', 1), (TypeError,)) is True)
    type(L.status).attrs.remove('c20_only_level_status')
    # the same with the names the shipped convergence controllers declare (Adaptivity: level status; BasicRestarting: step status)
    from pySDC.implementations.convergence_controller_classes.adaptivity import Adaptivity

    d_ = valid_desc(1)
    d_['level_params']['restol'] = -1
    d_['convergence_controllers'] = {Adaptivity: {'e_tol': 1e-3}}
    ctl2 = controller_nonMPI(1, dict(CP, mssdc_jac=False), d_)
    S2, L2 = ctl2.MS[0], ctl2.MS[0].levels[0]
    for attr in ('error_embedded_estimate', 'increment'):
        rep.side(f'frozen/level-status-name-on-step.status/{attr}', hasattr(L2.status, attr) and _raises(lambda: setattr(S2.status, attr, 1), (TypeError,)) is True)
    for attr in ('restart', 'restarts_in_a_row'):
        rep.side(f'frozen/step-status-name-on-level.status/{attr}', hasattr(S2.status, attr) and _raises(lambda: setattr(L2.status, attr, 1), (TypeError,)) is True)
    # the status containers of convergence controllers (pySDC.core.convergence_controller.Status): each accepts the names IT was created with only --
    # neither the names of another container nor names declared later for other containers, in either order of creation
    from pySDC.core.convergence_controller import Status as CCStatus

    a, b = CCStatus(['c20_alpha', 'c20_shared']), CCStatus(['c20_beta', 'c20_shared'])
    a.c20_alpha, b.c20_beta, a.c20_shared = 1, 2, 3
    rep.side('frozen/cc-status/own-names-assignable', a.c20_alpha == 1 and b.c20_beta == 2 and a.c20_shared == 3 and b.c20_shared is None)
    rep.side('frozen/cc-status/name-of-another-container/later-one', _raises(lambda: setattr(a, 'c20_beta', 1), (TypeError,)) is True)
    rep.side('frozen/cc-status/name-of-another-container/earlier-one', _raises(lambda: setattr(b, 'c20_alpha', 1), (TypeError,)) is True)
    rep.side('frozen/cc-status/undeclared', _raises(lambda: setattr(a, 'c20_gamma', 1), (TypeError,)) is True)
    # ... and on the containers of shipped controllers living in one real controller (names of one assigned on the other)
    from pySDC.implementations.convergence_controller_classes.interpolate_between_restarts import InterpolateBetweenRestarts
    from pySDC.implementations.convergence_controller_classes.estimate_extrapolation_error import EstimateExtrapolationErrorNonMPI

    d3 = valid_desc(1)
    d3['convergence_controllers'] = {InterpolateBetweenRestarts: {}, EstimateExtrapolationErrorNonMPI: {}}
    try:
        ctl3 = controller_nonMPI(1, dict(CP, mssdc_jac=False), d3)
        conts = [(f'{type(C).__name__}.{k}', v) for C in ctl3.convergence_controllers for k, v in vars(C).items() if isinstance(v, CCStatus)]
        names = {n: [k for k in vars(st) if not k.startswith('_')] for n, st in conts}
        rep.side('frozen/cc-status/shipped/two-containers-present', len([n for n in names if names[n]]) >= 2, {k: v for k, v in names.items()})
        for n1, st1 in conts:
            for n2, st2 in conts:
                if st1 is st2:
                    continue
                for attr in names[n2]:
                    if attr not in names[n1]:
                        rep.side(f'frozen/cc-status/shipped/{n1}-rejects-{attr}-of-{n2}', _raises(lambda: setattr(st1, attr, 1), (TypeError,)) is True)
    except Exception as e:
        rep.side('frozen/cc-status/shipped/controller-built', False, f'{type(e).__name__}: {e}')
    P = L.prob
    ro = sorted(P._parNamesReadOnly)
    rep.side('readonly/has-readonly-params', len(ro) >= 1, ro)
    for nm in ro:
        rep.side(f'readonly/{nm}', _raises(lambda: setattr(P, nm, 0), (ReadOnlyError,)) is True)
    rep.side('readonly/values-unchanged', all(np.all(getattr(P, nm) == ctl.MS[1].levels[0].prob.__getattribute__(nm)) for nm in ro))
    readonly_registry_case(rep)


def readonly_registry_case(rep):
    """every parameter that any class of a problem's hierarchy registers as read-only rejects assignment.  The expected names are recorded independently
    (the registration call is observed while the problem is constructed), not read from the registry the implementation keeps.  ENUMERATED: every
    problem class of pySDC.implementations.problem_classes that can be imported and constructed with its default arguments here."""
    import importlib
    import inspect
    import pkgutil

    import pySDC.implementations.problem_classes as pkg
    from pySDC.core.common import RegisterParams
    from pySDC.core.problem import Problem

    seen = {}
    orig = RegisterParams._makeAttributeAndRegister

    def recording(self, *names, localVars=None, readOnly=False):
        orig(self, *names, localVars=localVars, readOnly=readOnly)
        if readOnly:
            seen.setdefault(id(self), set()).update(names)

    tested, skipped, batches = 0, 0, 0
    RegisterParams._makeAttributeAndRegister = recording
    try:
        for mi in pkgutil.iter_modules(pkg.__path__):
            try:
                mod = importlib.import_module(f'{pkg.__name__}.{mi.name}')
            except BaseException:
                skipped += 1
                continue
            for nm, cls in inspect.getmembers(mod, inspect.isclass):
                if not (issubclass(cls, Problem) and cls.__module__ == mod.__name__):
                    continue
                seen.clear()
                try:
                    P = cls()
                except BaseException:
                    skipped += 1
                    continue
                names = sorted(seen.get(id(P), set()))
                if not names:
                    continue
                tested += 1
                for name in names:
                    before = getattr(P, name)
                    r = _raises(lambda: setattr(P, name, 0), (ReadOnlyError,))
                    same = getattr(P, name) is before or np.all(getattr(P, name) == before)
                    if r is not True or not same:
                        rep.violation(f'{PID}/read-only-parameter-writable', f'{cls.__name__}.{name} was registered read-only but assignment ' + ('is accepted silently' if r is False else f'gives {r}') +
                                      f' (all read-only names of the hierarchy: {names})', {'task': ['frozen'], 'class': f'{mod.__name__}.{cls.__name__}', 'parameter': name})
                        return
    finally:
        RegisterParams._makeAttributeAndRegister = orig
    rep.extra['problem_classes_with_read_only_parameters'] = tested
    rep.extra['problem_classes_not_constructible_here'] = skipped
    rep.side('readonly/all-registered-names-protected', tested >= 5, {'classes': tested})


def levels_case(rep):
    """each level gets the stated problem, node and step-size parameters (concrete descriptions with list/scalar shapes, 1..4 levels)"""
    import itertools

    for NL in (1, 2, 3, 4):
        nodes = [5, 4, 3, 2][:NL]
        for shape in itertools.product(('scalar', 'short', 'full'), repeat=3):
            if NL == 1 and any(s != 'scalar' for s in shape):
                continue

            def val(kind, vals):
                if kind == 'scalar' or NL == 1:
                    return vals[0]
                if kind == 'short':
                    return vals[: max(1, NL - 1)]
                return vals[:NL]

            nn = val(shape[0], nodes)
            ntypes = val(shape[1], ['EQUID', 'LEGENDRE', 'CHEBY-2', 'CHEBY-4'])
            qtypes = val(shape[2], ['RADAU-RIGHT', 'LOBATTO', 'RADAU-RIGHT', 'LOBATTO'])
            dts = val(shape[1], [0.1, 0.1, 0.1, 0.1])
            restol = val(shape[2], [1e-8, 1e-7, 1e-6, 1e-5])
            lam = [np.array([-1.0]), np.array([-2.0]), np.array([-3.0]), np.array([-4.0])][:NL] if NL > 1 else np.array([-1.0])
            d = dict(problem_class=testequation0d, problem_params={'lambdas': lam, 'u0': 1.0}, sweeper_class=generic_implicit,
                     sweeper_params={'num_nodes': nn, 'quad_type': qtypes, 'node_type': ntypes}, level_params={'dt': dts, 'restol': restol}, step_params={'maxiter': 3})
            lens = [len(v) for v in (nn, dts, restol, lam, ntypes, qtypes) if isinstance(v, list)]
            expect_levels = max([1] + lens)
            if expect_levels > 1:
                d['space_transfer_class'] = mesh_to_mesh
            ctl = controller_nonMPI(1, dict(CP), d)
            Ls = ctl.MS[0].levels
            pick = lambda v, i: v[min(i, len(v) - 1)] if isinstance(v, list) else v
            ok = len(Ls) == expect_levels
            for i, L in enumerate(Ls):
                ok = ok and L.sweep.coll.num_nodes == pick(nn, i) and L.params.dt == pick(dts, i) and L.params.restol == pick(restol, i)
                ok = ok and np.all(L.prob.lambdas == pick(lam, i)) and L.level_index == i
                from pySDC.core.collocation import CollBase

                refc = CollBase(pick(nn, i), 0, 1, node_type=pick(ntypes, i), quad_type=pick(qtypes, i))
                ok = ok and L.sweep.coll.node_type == pick(ntypes, i) and L.sweep.coll.quad_type == pick(qtypes, i) and np.array_equal(L.sweep.coll.nodes, refc.nodes) and np.array_equal(L.sweep.coll.Qmat, refc.Qmat)
            rep.side(f'levels/NL{NL}/{"-".join(shape)}', ok, {'levels': len(Ls), 'expected': expect_levels})


TRLOG = []


class _RecTransfer(mesh_to_mesh):
    """records which (fine level, coarse level) pair was connected with which class and parameters"""

    def __init__(self, fine_prob, coarse_prob, params):
        TRLOG.append((float(fine_prob.lambdas[0]), float(coarse_prob.lambdas[0]), type(self).__name__, dict(params)))
        super().__init__(fine_prob, coarse_prob, {})


class TrA(_RecTransfer):
    pass


class TrB(_RecTransfer):
    pass


class TrC(_RecTransfer):
    pass


class TrD(_RecTransfer):
    pass


def transfer_entries_case(rep):
    """list-valued transfer entries: entry l of space_transfer_class / space_transfer_params / base_transfer_params belongs to level l, and the transfer
    that attaches level l to the finer level l-1 is built from the l-th entries (last entry repeating); scalar entries are shared by all pairs"""
    from pySDC.core.base_transfer import BaseTransfer

    seen = []
    orig = BaseTransfer.__init__

    def rec_init(self, fine_level, coarse_level, base_transfer_params, space_transfer_class, space_transfer_params):
        orig(self, fine_level, coarse_level, base_transfer_params, space_transfer_class, space_transfer_params)
        seen.append((fine_level.level_index, coarse_level.level_index, bool(self.params.finter)))

    BaseTransfer.__init__ = rec_init
    try:
        classes = [TrA, TrB, TrC, TrD]
        for NL in (2, 3, 4):
            for shape in (('full', 'full', 'full'), ('scalar', 'full', 'short'), ('short', 'scalar', 'full'), ('full', 'short', 'scalar')):
                def val(kind, vals):
                    return vals[0] if kind == 'scalar' else (vals[: max(1, NL - 1)] if kind == 'short' else vals[:NL])

                tcls = val(shape[0], classes)
                tpar = val(shape[1], [{'tag': i} for i in range(4)])
                bpar = val(shape[2], [{'finter': bool(i % 2)} for i in range(4)])
                lam = [np.array([-1.0]), np.array([-2.0]), np.array([-3.0]), np.array([-4.0])][:NL]
                d = dict(problem_class=testequation0d, problem_params={'lambdas': lam, 'u0': 1.0}, sweeper_class=generic_implicit,
                         sweeper_params={'num_nodes': [5, 4, 3, 2][:NL], 'quad_type': 'RADAU-RIGHT'}, level_params={'dt': 0.1, 'restol': 1e-8}, step_params={'maxiter': 3},
                         space_transfer_class=tcls, space_transfer_params=tpar, base_transfer_params=bpar)
                TRLOG.clear()
                seen.clear()
                name = f'transfer-entries/NL{NL}/{"-".join(shape)}'
                try:
                    controller_nonMPI(1, dict(CP), d)
                except Exception as e:
                    rep.side(name, False, f'{type(e).__name__}: {e}')
                    continue
                pick = lambda v, i: v[min(i, len(v) - 1)] if isinstance(v, list) else v
                exp_space = [(-float(l), -float(l + 1), pick(tcls, l).__name__, pick(tpar, l)) for l in range(1, NL)]
                exp_base = [(l - 1, l, bool(pick(bpar, l)['finter'])) for l in range(1, NL)]
                rep.side(name, TRLOG == exp_space and seen == exp_base,
                         {'space transfers built (fine lambda, coarse lambda, class, params)': [list(map(str, x)) for x in TRLOG], 'expected': [list(map(str, x)) for x in exp_space],
                          'base transfers (fine, coarse, finter)': [list(x) for x in seen], 'expected base': [list(x) for x in exp_base]})
    finally:
        BaseTransfer.__init__ = orig


def replay(path):
    logging.disable(logging.CRITICAL)
    full = json.load(open(path))
    d = full['replay']
    t = d.get('task') or []
    if t and t[0] == 'orders' and d.get('callbacks'):
        badr = real_callback_rounds([H1, H2, H3, H4][: t[1]], d['orders'])
        print('rounds of callbacks that are not ascending in control order:', badr[:3])
        bad = bool(badr)
    elif t and t[0] == 'orders':
        dd = valid_desc()
        dd['convergence_controllers'] = {cls: {'control_order': d['orders'][j]} for j, cls in enumerate([H1, H2, H3, H4][: t[1]])}
        ctl = controller_nonMPI(2, dict(CP), dd)
        got = [ctl.convergence_controllers[j].params.control_order for j in ctl.convergence_controller_order]
        print('execution order', got)
        bad = got != sorted(got)
    else:
        # re-execute the whole case on the real code and report whether the same finding comes back (side conditions are collected by the report)
        from symx.report import Report

        rep = Report(PID, 'other', 'quick', 0)
        key = full.get('key')
        nm = d.get('name') or ''
        head = nm.split('/')[0]
        first = {'frozen': ('frozen',), 'readonly': ('frozen',), 'levels': ('levels',), 'transfer': ('transfer_entries',), 'reject': ('reject',), 'dict': ('dict',)}.get(head)
        if head == 'orders' and len(nm.split('/')) > 1 and nm.split('/')[1].isdigit():
            first = ('orders', int(nm.split('/')[1]))
        todo = [tuple(t)] if t else ([first] if first else [('reject',), ('frozen',), ('levels',), ('transfer_entries',)])
        for tk in todo:
            try:
                run_task(rep, tk)
            except Exception as e:
                print('re-execution of', tk, 'raised', type(e).__name__, e)
        found = [v['key'] for v in rep.violations] + [f"{PID}/side/{x['name']}" for x in rep.extra.get('side_failed', [])]
        same = [k for k in found if key is None or k == key]
        print('findings of the re-execution with this key:', same[:3], '(all findings:', len(found), ')')
        bad = bool(same)
    print('REPRODUCED' if bad else 'not reproduced')
    return 1 if bad else 0

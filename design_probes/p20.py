import numpy as np, z3, time, logging
from fractions import Fraction
from symx import Ctx
from symx2 import A, var, VARS, rv
logging.disable(logging.CRITICAL)
from pySDC.core.level import Level
from pySDC.core.problem import Problem
from pySDC.implementations.datatype_classes.mesh import mesh
from pySDC.implementations.sweeper_classes.ParaDiagSweepers import QDiagonalization
def lift(o):
    if isinstance(o,C): return o
    if isinstance(o,A): return C(o,A({},Fraction(0)))
    o=complex(o); return C(A({},Fraction(o.real)),A({},Fraction(o.imag)))
class C:
    """complex symbolic scalar (pair of affine reals); only complex*concrete products needed"""
    def __init__(s,re,im): s.re=re; s.im=im
    def __add__(s,o):
        if isinstance(o,np.ndarray): return NotImplemented
        o=lift(o); return C(s.re+o.re,s.im+o.im)
    __radd__=__add__
    def __sub__(s,o):
        if isinstance(o,np.ndarray): return NotImplemented
        o=lift(o); return C(s.re-o.re,s.im-o.im)
    def __rsub__(s,o): return lift(o)-s
    def __mul__(s,o):
        if isinstance(o,np.ndarray): return NotImplemented
        o=lift(o); return C(s.re*o.re-s.im*o.im, s.re*o.im+s.im*o.re)
    __rmul__=__mul__
    def __truediv__(s,o):
        if isinstance(o,np.ndarray): return NotImplemented
        o=lift(o); d=o.re.k**2+o.im.k**2; assert not o.re.c and not o.im.c
        inv=C(A({},o.re.k/d),A({},-o.im.k/d)); return s*inv
class Lin(Problem):
    dtype_u=mesh; dtype_f=mesh
    def __init__(self,lam): super().__init__(init=(1,None,np.dtype('O'))); self.lam=lam
    def eval_f(self,u,t):
        f=self.dtype_f(self.init); f[:]=u*self.lam; return f
    def solve_system(self,rhs,factor,u0,t):
        me=self.dtype_u(self.init); me[:]=rhs/(1-complex(factor)*self.lam); return me
    @property
    def u_init(self):
        m=self.dtype_u(self.init); m[0]=C(A({},Fraction(0)),A({},Fraction(0))); return m
for M in (2,3):
    lam=-2.0; dt=0.5
    Ctx.cur=Ctx()
    L=Level(Lin,{'lam':lam},QDiagonalization,{'num_nodes':M,'quad_type':'RADAU-RIGHT','ignore_ic':False,'update_f_evals':True},{'dt':dt},0)
    P=L.prob; L.status.time=0.0; L.status.unlocked=True
    u0=P.dtype_u(P.init); u0[0]=C(var('xr'),var('xi')); L.u[0]=u0
    for m in range(1,M+1): L.u[m]=P.u_init
    L.sweep.update_nodes()
    Q=L.sweep.coll.Qmat
    s=z3.Solver()
    for n in VARS: s.add(VARS[n]>=-1,VARS[n]<=1)
    tol=rv(Fraction(1,10**9)); bad=[]
    for m in range(1,M+1):
        defect=L.u[m][0]-L.u[0][0]-sum((L.u[j][0]*(dt*lam*Q[m,j]) for j in range(1,M+1)),C(A({},Fraction(0)),A({},Fraction(0))))
        for part in (defect.re,defect.im): bad+= [part.t>tol, part.t<-tol]
    s.add(z3.Or(bad)); t=time.time(); print('M',M,'QDiagonalization solves collocation for all complex u0:',s.check(),round(time.time()-t,2))

import sys, subprocess, time
N=int(sys.argv[1]); hi=sys.argv[2] if len(sys.argv)>2 else '1048576.0'
def fp64(x):
    import struct
    b=struct.unpack('>Q',struct.pack('>d',x))[0]
    return f"(fp #b{b>>63:01b} #b{(b>>52)&0x7ff:011b} #x{b&((1<<52)-1):013x})"
L=["(set-logic QF_FP)","(declare-const t0 (_ FloatingPoint 11 53))","(declare-const dt (_ FloatingPoint 11 53))","(declare-const Tend (_ FloatingPoint 11 53))"]
for v in ("t0","dt","Tend"): L.append(f"(assert (not (fp.isNaN {v}))) (assert (not (fp.isInfinite {v})))")
L.append(f"(assert (fp.geq t0 {fp64(0.0)})) (assert (fp.leq t0 {fp64(float(hi))}))")
L.append(f"(assert (fp.geq dt {fp64(1/1024)})) (assert (fp.leq dt {fp64(1024.0)}))")
L.append(f"(define-fun thr () (_ FloatingPoint 11 53) (fp.sub RNE Tend {fp64(10*2.220446049250313e-16)}))")
t="t0"
for k in range(N):
    L.append(f"(assert (fp.lt {t} thr))")
    L.append(f"(define-fun t{k+1} () (_ FloatingPoint 11 53) (fp.add RNE {t} dt))"); t=f"t{k+1}"
L.append(f"(assert (fp.lt {t} thr))")
# exact sum in quad precision
L.append("(define-fun q0 () (_ FloatingPoint 15 113) ((_ to_fp 15 113) RNE t0))")
L.append("(define-fun qd () (_ FloatingPoint 15 113) ((_ to_fp 15 113) RNE dt))")
q="q0"
for k in range(N):
    L.append(f"(define-fun q{k+1} () (_ FloatingPoint 15 113) (fp.add RNE {q} qd))"); q=f"q{k+1}"
L.append(f"(assert (fp.geq {q} ((_ to_fp 15 113) RNE Tend)))")
L+=["(check-sat)","(get-value (t0 dt Tend))"]
open(f'acc{N}.smt2','w').write("\n".join(L))
for cmd in (["z3-new",f"acc{N}.smt2","-T:300"],["cvc5","--tlimit=300000","--produce-models",f"acc{N}.smt2"]):
    st=time.time()
    try: out=subprocess.run(cmd,capture_output=True,text=True,timeout=320).stdout
    except Exception as e: out=str(e)
    print(N,cmd[0],round(time.time()-st,1),out.replace("\n"," ")[:400])

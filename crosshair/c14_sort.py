"""CrossHair contracts for pySDC.helpers.stats_helper.sort_stats (C14 a) -- the real function is called"""
from typing import List, Tuple
from collections import namedtuple

from pySDC.helpers.stats_helper import sort_stats

Key = namedtuple('Key', ['time', 'iter'])


def sort_by_time(ts: List[int], vs: List[int]) -> List[Tuple[int, int]]:
    """
    pre: 1 <= len(ts) <= 3 and len(vs) == len(ts)
    pre: len(set(ts)) == len(ts)
    post: len(_) == len(ts)
    post: all(_[i][0] <= _[i + 1][0] for i in range(len(_) - 1))
    post: sorted(t for t, v in _) == sorted(ts)
    post: all((t, v) in list(zip(ts, vs)) for t, v in _)
    """
    stats = {Key(time=t, iter=0): v for t, v in zip(ts, vs)}
    return sort_stats(stats, sortby='time')


def sort_by_time_witness(ts: List[int], vs: List[int]) -> List[Tuple[int, int]]:
    """
    pre: 1 <= len(ts) <= 3 and len(vs) == len(ts)
    pre: len(set(ts)) == len(ts)
    post: False
    """
    stats = {Key(time=t, iter=0): v for t, v in zip(ts, vs)}
    return sort_stats(stats, sortby='time')


def sort_by_iter(ks: List[int]) -> List[Tuple[int, int]]:
    """
    pre: 1 <= len(ks) <= 3
    pre: len(set(ks)) == len(ks)
    post: [k for k, v in _] == sorted(ks)
    """
    stats = {Key(time=0, iter=k): k * 2 for k in ks}
    return sort_stats(stats, sortby='iter')

"""helper of C19 (scenario 'isolation'): run in a FRESH interpreter.  argv: json configuration, 'alone' | 'after-other'.
Prints the end value and a digest of all non-timing statistics of a float run of the configuration; with 'after-other' a differently configured
controller with the same sizes (other quadrature type / node type / preconditioner) is built and run first in the same process."""
import hashlib
import json
import logging
import sys

import numpy as np


def main():
    logging.disable(logging.CRITICAL)
    cfg = json.loads(sys.argv[1])
    mode = sys.argv[2]
    from harness import wholerun as wr
    from harness import c02

    c02._load()

    def go(c):
        ctl, _ = wr.build(c, float_mode=True)
        P = ctl.MS[0].levels[0].prob
        u0 = P.dtype_u(P.init)
        u0[:] = 0.7321
        total = c['NP'] * c.get('blocks', 1)
        u, st = ctl.run(u0, 0.0, c['dt'] * total)
        items = sorted((str(tuple(k)), repr(np.asarray(v).tolist()) if not isinstance(v, (int, float)) else repr(v)) for k, v in st.items() if not str(k.type).startswith('timing'))
        return repr(np.asarray(u, dtype=float).tolist()), hashlib.sha1(json.dumps(items).encode()).hexdigest()

    if mode == 'after-other':
        for other in (dict(cfg, quad_type='LOBATTO', qd='IE'), dict(cfg, quad_type='RADAU-RIGHT', node_type='EQUID', qd='IE', dt=cfg['dt'] * 2)):
            try:
                go(other)
            except Exception as e:  # (the other controller only has to exist and run; if it cannot be built, say so)
                print('OTHER-FAILED', type(e).__name__, e)
    print(json.dumps(go(cfg)))


if __name__ == '__main__':
    main()

#!/usr/bin/env python3
"""writes /verif/MANIFEST.json from the table below (single source of truth for the interface file)"""
import json
import os

V = os.path.dirname(os.path.dirname(os.path.abspath(__file__)))

TECH_A = 'symbolic execution of the real Python code on z3 terms (operator-overloading shadow executor), SMT validity queries (z3), counterexamples replayed on the real float code'

CHECKS = {
    'C02': dict(
        category='other',
        text='Bounded symbolic execution: the real update_nodes/integrate/compute_end_point of generic_implicit, explicit, imex_1st_order, '
             'imex_1st_order_mass, multi_implicit, verlet, boris_2nd_order (harness problem without magnetic field), Runge-Kutta-Nystrom (RKN), the DAE project sweepers (linear index-1 DAE, axiomatic solve through the real system function), the linear multistep sweepers, all Runge-Kutta classes and QDiagonalization run on z3 terms with u0, node values, tau, dt and '
             'problem coefficients free; per configuration and clause one SMT validity query shows the result equals the algebraic iteration for '
             'every value of those variables. Configurations (node set, preconditioner name, sweep index) are enumerated within the stated bounds.',
        note='Trusted: z3; reals stand for floats on the data path; the stub problems (exact linear solve); qmat as oracle for the tables the spec is stated against. '
             'Preconditioner tables are compared with fresh qmat generators for every ordered pair of names requested on one sweeper instance. Outside: magnetic-field rotation of the Boris solver (problem class), the implicit Velocity_Verlet Nystrom tableau, nonlinear problems, M > 6.',
        design='4/C02', technique='symbolic execution of real sweeper code + SMT (QF_NRA) validity queries',
    ),
    'C03': dict(
        category='other',
        text='(a) real compute_residual on symbolic node values: reported residual == configured norm of the collocation defect (validity queries, all sweepers x 4 residual types); '
             '(c) real check_convergence on symbolic iter/maxiter/sweep/residual/restol/flags: all paths enumerated, each equal to the stopping rule, coverage certified (unbounded integers/reals, single call); '
             '(d) real controller explored over all residual sequences within NP<=3(4), K<=3(4): budget, logged niter, no finish without a sweep unless budget/forced, no finish with a last checked residual above restol before the budget; non-finite residuals (nan, inf) as an enumerated table; defect on LOBATTO / RADAU-LEFT / GAUSS nodes and on a coarse level (mass-matrix sweeper); '
             '(b) whole runs on symbolic initial values: recorded residual is the defect of the values held at that moment.',
        note='Trusted: z3, stub linear problems, probe sweeper (real generic_implicit, symbolic reported residual). Known finding: iteration-0 convergence without a sweep (known_findings.json).',
        design='4/C03', technique='symbolic execution of real code + SMT validity queries; bounded path exploration with coverage certificate',
    ),
    'C07': dict(
        category='model_checking',
        text='Bounded model checking of the real controller_nonMPI by symbolic execution: residuals per (step, iteration) are free reals, maxiter a free integer in 0..Kmax, '
             'force flags free booleans; the real convergence test forks, the solver prunes infeasible branches, every feasible path is executed and the safety clauses are asserted on the '
             'real objects (finish order, finished steps untouched, one stage for all running steps, tag / value / level of every receive, the last step of a block publishes nothing, callback grammar), blocks with as many steps as processes and with fewer; a final SMT query certifies that the explored paths cover all inputs. Bounds: quick NP<=3, levels<=3, Kmax<=3; thorough NP<=4, levels<=3, Kmax<=4, nsweeps<=2 (large configurations explored in parts, one per feasible prefix of the first 18 decisions).',
        note='Trusted: z3 feasibility answers; probe sweeper. Outside: NP>4, MPI controller, iteration estimator; single block per run.',
        design='4/C07', technique='symbolic path exploration of the real controller with SMT feasibility pruning and coverage certificate',
    ),
    'C06': dict(
        category='model_checking',
        text='Bounded model checking of the real run loop: t0, dt, Tend symbolic reals, time step an uninterpreted function G(u,t); every feasible block/step pattern executed; per path SMT '
             'validity of tiling (start k = t0 + k dt), exact chaining (congruence over G), returned value and minimal step count; coverage certificate. Bounds: 1..4 (8) steps per block, <= 10 (12) steps. Also: one symbolic step size per step of the controller (state left by an adaptive run), restart histories (with symbolic convergence patterns), and adaptive runs with the real Adaptivity in the loop (symbolic error estimates, shared with C09). '
             'Second layer: concolic IEEE-double execution of the same run + QF_FP query for an extra step (counterexample finder, thorough tier), witnesses re-executed in the quick tier.',
        note='Trusted: z3; direct-solver probe sweeper contract; real arithmetic in layer 1. Known finding: extra step from accumulated rounding (known_findings.json). Outside: MPI/ParaDiag controllers, multi-level value chaining (C01), more steps than the bounds.',
        design='4/C06', technique='symbolic execution of the real controller (reals + uninterpreted function) with SMT validity queries; concolic floating-point execution + QF_FP query',
    ),
    'C09': dict(
        category='model_checking',
        text='(a) one transition of the real restart state machine (determine_restart, prepare_next_block, step-size spreading) from an arbitrary symbolic state, SMT validity per path + coverage; '
             '(b) bounded exploration of the real controller over all restart-request histories (symbolic request at every (step, attempt)); (c) real step-size formula, limiters and '
             'Adaptivity / AdaptivityRK / AdaptivityResidual / the adaptivity classes for converged collocation problems (also stopping by increment) / avoid_restarts on symbolic reals (power encoded algebraically), limiters taken from a real controller in its call order; (d) adaptive runs: the real controller with the real Adaptivity, embedded estimator (estimate replaced by a fresh positive real per call), limiter, restarting and spreading; t0, dt, Tend, dt_min, dt_max symbolic; per path tiling, chaining, accepted-within-tolerance, proposal formula and clip, one step size per block, smaller retry.; (e) every configured parameter of the restart / step-size controllers arrives unchanged at the objects a real controller carries (ENUMERATED); retry budgets from 0; the restart counter of every attempt against the history. Bounds: NP<=3(4), max_restarts<=2(3), <=5(6) steps, order<=5; (d) <= 3 accepted steps, order 1 (2).',
        note='Trusted: z3; injected restart requests stand for the error estimators; beta<1 for the strict-decrease clause. Known finding: later step accepted above the tolerance when the block budget is used up (known_findings.json). Outside: the numerical estimators, StepSizeRounding, MPI.',
        design='4/C09', technique='symbolic execution of real convergence controllers + SMT (LIA/NRA) validity; symbolic path exploration of restart histories',
    ),
    'C14': dict(
        category='other',
        text='(a) real filter_stats/get_list_of_types on dictionaries with symbolic integer key fields: every path proved equal to the specification, coverage certified; sort_stats by CrossHair contracts; '
             '(b) every explored convergence pattern / restart history of the real controller with all logging hooks: one correctly keyed record per accepted step and type, niter = iteration callbacks, '
             'work_rhs / work_newton = evaluations / solver calls made (with work done between steps), per-sweep records = sweep callbacks per level, no silent key collisions; (c) every ordered pair of shipped hook classes is registered exactly once through both routes (hook_class list, add_hook) (enumerated, concrete).',
        note='Trusted: z3, CrossHair (only "Confirmed over all paths" counts). Restart generation and entry type are enumerated. Outside: LogSolutionAfterIteration, values of timing hooks, file-writing hooks, MPI gathering, > 4 entries.',
        design='4/C14', technique='symbolic execution of real helpers (z3) + CrossHair contracts; path exploration of the real controller with recording hooks',
    ),
    'C16': dict(
        category='other',
        text='The real FieldsIO methods run against a symbolic file (byte length, offsets, number of variables, completed records k, crash offset c, read index are z3 integers; '
             'writes/reads are extents with provenance): SMT (QF_NIA) validity per path of nFields = k after any crash, reads of idx in [-k,k) touch exactly record idx, others rejected, '
             'append after a crash is aligned/read back/does not disturb old records, header round trip; coverage certificates. Block decomposition: CrossHair contracts (contiguity, '
             'exact cover, factorisation) over symbolic sizes, rank counts 1..64 x both algorithms ENUMERATED for the number of blocks and exact cover on concrete grids. The shipped LogToFile hook in five enumerated real-file scenarios (overwrite protection per hook class). Bit-exact numpy round trips (all dtypes, C / Fortran / transposed / strided memory layouts) and the crash scenario at every byte offset are replayed on real files; results of earlier reads stay intact after later reads.',
        note='Trusted: z3, CrossHair; numpy tofile/fromfile transfer exactly nbytes (stub contract); a crash leaves a prefix of the interrupted write. Outside: MPI-IO, toVTR, symbolic Rectilinear grids.',
        design='4/C16', technique='symbolic execution of real I/O code on a symbolic file + SMT (QF_NIA); CrossHair contracts for the block decomposition',
    ),
    'C01': dict(
        category='other',
        text='Bounded symbolic execution of whole runs: the real controller, sweepers, BaseTransfer and CheckConvergence run on a symbolic initial value in [-1,1]^n; the residual test forks, every '
             'feasible path (which step stops at which iteration) is executed, coverage certified. For every step that stopped by tolerance one SMT validity query (QF_LRA): the returned end value is within '
             'c*restol of the solution of the fine collocation system, which is defined inside the query and solved by the solver; each step starts from exactly the previous end value. '
             'Bounds: quick M<=3, n<=3, 1-3 steps, 1-3 levels, maxiter<=5, 24 configurations; thorough >= 200 sampled configurations.',
        note='Trusted: z3; exact-solve linear stub problems; injection space transfer; reals for floats; c computed in floats with 1 % margin. Paths that stop by the budget carry no claim. Configurations are enumerated/sampled.',
        design='4/C01', technique='symbolic execution of whole real runs with SMT feasibility pruning; QF_LRA validity against an in-query collocation solve',
    ),
    'C04': dict(
        category='other',
        text='The real predictor, K sweeps and end point are executed with the problem coefficient z symbolic: the step function R_K(z) of the real code is a z3 term. (i) SMT validity (QF_NRA): R_K(z) equals the '
             'algebraic recursion / Butcher-tableau stability function for all z (SDC implicit/explicit/IMEX, all 26 RK classes); the collocation solution is a fixed point of the real sweep. '
             'a second Runge-Kutta step with another step size on the same sweeper object; sweep-index dependent preconditioners (per-sweep tables). (ii) exact Taylor coefficients of that term (power series over rationals): c_j = 1/j! for j <= min(K,p), embedded pairs differ at order >= update order, IMEX along 7 rays. (iii) solver cross-check in the thorough tier.',
        note='Trusted: z3; qmat for the order p of the rules / RK schemes; tolerance 1e-12 on coefficients (float tables). (ii) is exact symbolic computation on the solver-validated term, not a solver verdict. Outside: M>5, K>7, nonlinear order conditions.',
        design='4/C04', technique='symbolic execution of the real sweepers with symbolic z + SMT (QF_NRA) identity; exact power-series extraction from the resulting term',
    ),
    'C20': dict(
        category='other',
        text='(a) CrossHair contracts over the real Step.__dict_to_list (symbolic scalar-or-list values, lists up to 4/6); (c) the real controller constructor executed with symbolic integer control orders of 2..4 '
             'convergence controllers: every ordering path proved ascending (SMT), the callbacks REALLY invoked during a short run (logged by the harness controllers) are proved ascending round by round as well, instantiated once, user parameters override defaults, coverage certified; (b,d) rejection / frozen-attribute clauses are a finite table of '
             'single-fault perturbations (unknown names include near misses of the valid ones: suffix / case / blank variants), list-valued transfer entries on 2..4 levels, each per-level fault placed on every non-empty subset of 2 and 3 levels through list-valued entries, and the status containers of convergence controllers (each rejects the names of the other containers), executed concretely as side conditions (no solver).',
        note='Trusted: CrossHair, z3. Description keys and attribute names are fixed lists. Outside: the full grammar of valid descriptions.',
        design='4/C20', technique='CrossHair contracts + symbolic execution of the controller constructor (z3); concrete side conditions for the finite rejection table',
    ),
    'C10': dict(
        category='other',
        text='(a) for an UNINTERPRETED right-hand side f (so linear and nonlinear problems alike): the real restrict, coarse update_nodes (implicit/explicit, 2 and 3 levels, inherited tau, middle-level sweeps) and '
             'prolong/prolong_f run on z3 terms; assuming the fine level holds its collocation solution, SMT (QF_UFLRA) shows every coarse sweep leaves the restricted solution and every fine value / rhs is unchanged; '
             '(b) coarse defect after restrict == R * fine defect for arbitrary fine values and tau; (c) one real down-coarse-up-fine cycle of controller_nonMPI on arbitrary fine values equals the multigrid-in-time iteration '
             'written with explicit matrices and solved inside the query (QF_LRA, 1e-9), on two levels and on three to five levels with per-level sweep counts (1e-11); all pairs of quadrature types on the two levels; (d) MLSDC with the shipped mesh transfer classes on shipped problems, as shipped and with copied results: bit-identical iterates (concrete, enumerated).',
        note='Trusted: z3; implicit-solve stub contract (returns a root; returns the guess if it is a root); real node tables with restriction rows made exactly stochastic (~1e-16 change); injection in space. Outside: the shipped mesh transfer classes as operators (C11), >5 levels.',
        design='4/C10', technique='symbolic execution of real transfer/sweep code with an uninterpreted right-hand side + SMT (QF_UFLRA / QF_LRA)',
    ),
    'C19': dict(
        category='other',
        text='The real controller runs on a symbolic initial value; two runs are bit-identical for EVERY input iff their result terms and all statistics values are structurally identical z3 terms. Scenarios: fresh controller twice, '
             'same controller two and three times, runs of different lengths on one controller with a post-run hook, the configuration alone in a fresh interpreter vs after differently configured controllers with the same sizes (concrete), a differently configured controller (extra status variables, hooks) run in between, split at every block boundary (statistics of the halves merged); configurations include increment-based stopping (extra level status variables), a user hook with an extended entry class, a sweep-index dependent preconditioner with several sweeps, the shipped NewtonInexactness controller with a tolerance-dependent solver, an explicit dt_initial, several controllers built from one shared parameter dictionary. Further scenarios: a run whose length is not a whole number of blocks split at a block boundary with k ulp of round-off on the end time (k a symbolic integer in [-6, 6]); one sweeper-parameter dictionary used by controllers with different sweeper classes; a controller built in between whose convergence controller registers a recording hook. Non-identical pairs are '
             'decided over the reals by the solver and replayed on real floats.',
        note='Trusted: structural identity of terms implies bit-equal floats. Known finding: initial_guess=random (hidden RNG state). Outside: MPI, adaptive step sizes, timings.',
        design='4/C19', technique='symbolic execution of whole real runs; syntactic term identity, SMT equality over the reals as fallback',
    ),
    'C05': dict(
        category='other',
        text='Weak fit (stated as such): the node/weight computation is qmat + LAPACK and cannot be symbolic. Per enumerated configuration (6 node families x 4 types x M<=5(8) x 8(10) intervals, end points exactly zero included) the real CollBase tables are converted to '
             'exact rationals and the solver decides (QF_LRA) for every polynomial with coefficients in [-1,1] that weights / Q integrate exactly (degree < order / < M); structural clauses (ordering, end points, padding, S=diff Q, affine covariance) are evaluated concretely.',
        note='Trusted: z3; tolerance 1e-11*length (1e-9 ill-conditioned families). The solver closes the data quantifier only; configurations are enumerated. Known finding: node snapping on large-offset intervals (qmat).',
        design='4/C05', technique='tables from the real code as exact rationals + SMT (QF_LRA) over all polynomial data',
    ),
    'C11': dict(
        category='other',
        text='Time: node-transfer tables of the real BaseTransfer (families x types x counts<=4(6)): polynomial exactness, R P = I, decided over all data by the solver. Space: the real mesh_to_mesh.restrict/prolong are executed on symbolic meshes '
             '(mesh and imex_mesh, 1-D/2-D(/3-D), periodic and Dirichlet, orders 2-8, nested shortcut on/off); every interpolated value must equal the Lagrange polynomial through the p nearest coarse points with weights recomputed in exact rationals in the query; '
             'restriction = scaled transpose; type/shape preserved. restriction_matrix_1d against the nearest-points Lagrange rule. FFT transfers (1-D, 2-D): matrices read off the real classes by unit vectors; band-limited data reproduced and injection after prolongation is the identity on it (solver, all coefficients); imex_mesh goes through per component.',
        note='Trusted: z3; exact dense product stands in for scipy.sparse .dot after the real code built the matrices; tolerance 1e-11/1e-12. Outside: the Nyquist mode in FFT transfers, refinement ratios other than 2, particle transfers, grids > 17(33). Known finding: periodic grids exactly as wide as the stencil.',
        design='4/C11', technique='symbolic execution of the real transfer classes on z3-valued meshes + SMT (QF_LRA) against an in-query rational Lagrange oracle',
    ),
    'C15': dict(
        category='other',
        text='Reduced scope: (i) real QDiagonalization.update_nodes on complex symbolic u0 solves the collocation system (SMT, 1e-9); (ii) helper tables: iFFT FFT = I and W E_alpha W^-1 = diag of the factors that get_G_inv_matrix really uses, for every complex vector '
             '(n_steps<=6(8), alpha in {1,1e-2,1e-8(,...)}); (iii) one real it_ParaDiag iteration of controller_ParaDiag_nonMPI on arbitrary symbolic iterates equals the alpha-circulant preconditioned all-at-once iteration defined inside the query; the sequential collocation solution is its fixed point; the same after the controller was switched to another alpha; (iv) the data-level transforms FFT_in_time / iFFT_in_time of the controller on symbolic COMPLEX step data are inverse to each other.',
        note='Trusted: z3; alpha enumerated; tolerances scale with cond(J). Outside: symbolic alpha, n_steps>8, nonlinear problems, converged multi-block runs. Known finding: alpha = 1 is singular.',
        design='4/C15', technique='symbolic execution of the real ParaDiag sweeper/controller on complex z3 terms + SMT (QF_LRA); tables as exact rationals',
    ),
    'C17': dict(
        category='other',
        text='Weak fit, reduced scope: operator matrices of ChebychevHelper / UltrasphericalHelper / FFTHelper (differentiation p<=3, integration, basis conversions and inverses, Dirichlet/Neumann/integral rows, integration weights, Kronecker expansion of differentiation and of basis conversions on every axis subset, boundary rows of the ultraspherical helper, conversions / normalisation requested with explicit sizes on one long-lived helper) for N=2..8(16), '
             'reference and mapped intervals: per operator one SMT query over all coefficient vectors in the unit box against exact polynomial calculus in the monomial basis (T_n, U_n, Gegenbauer by exact recurrences - not the implementation formulas). Transforms: the matrices of the real transform / itransform (read off by unit vectors) are inverse to each other and map grid values of a Chebyshev series to its coefficients (solver, all data); Fourier synthesis = modes.',
        note='Trusted: z3; tolerance 1e-10 scaled. NOT claimed: multi-dimensional / padded transforms, N>16. Fourier operators: analytic wavenumbers (float pi) plus formula-free inverse and covariance relations. Known finding: N = 1 raises.',
        design='4/C17', technique='tables from the real code as exact rationals + SMT (QF_LRA) against exact monomial-basis calculus',
    ),
    'C18': dict(
        category='other',
        text='Stencils: weights from the real get_finite_difference_stencil for all standard layouts (derivative 1-4, order<=6(8)) and sampled integer offset sets (handed over sorted, rotated and in random order): exact on every polynomial of degree < n (solver over the unit box, backward-error scaled tolerance). '
             'Matrices: the real get_finite_difference_matrix applied to arbitrary symbolic grid functions / polynomial data: periodic rows apply exactly the stencil with wrap-around (including custom offsets), Dirichlet/Neumann/mixed closures with symbolic boundary data '
             'reproduce the derivative within the closure exactness degree, n-D = Kronecker sum; get_1d_grid spacing.',
        note='Trusted: z3; weights come from numpy.linalg.solve (enumerated configurations). Known finding: reduce=True closure for derivative >= 3.',
        design='4/C18', technique='tables from the real code as exact rationals applied to z3-valued grid data + SMT (QF_LRA)',
    ),
}

NOT_APPLICABLE = {
    'C08': 'needs mpi4py (absent, imported at module level) and quantifies over schedules of several processes; no encoding of the real code is within reach of the solver-based technique (DESIGN 4/C08)',
    'C12': 'eval_f/solve_system of ~53 of ~55 problem classes run scipy.sparse / FFT / Newton loops behind the C boundary, where symbolic values are rejected or realised; the contract is a float tolerance statement about iterative solvers (DESIGN 4/C12)',
    'C13': 'aliasing / copy-vs-view semantics of numpy-backed types is not a property of values a solver can range over; an SMT model of numpy views would be a hand-written model, not the real code (DESIGN 4/C13)',
}

PENDING = 'check not built yet in this round (planned, see DESIGN.md section 4)'


def main():
    ids = [json.loads(l)['id'] for l in open(os.path.join(V, 'properties.jsonl'))]
    checks = []
    for pid in ids:
        if pid not in CHECKS:
            continue
        c = CHECKS[pid]
        checks.append({
            'property_id': pid,
            'quick_cmd': f'./check {pid} --tier quick',
            'thorough_cmd': f'./check {pid} --tier thorough',
            'evidence_file': f'/verif/evidence/{pid}.json',
            'replay_cmd_template': f'./check {pid} --replay {{path}}',
            'engine': c.get('engine', 'symx'),
            'level_claimed': {'category': c['category'], 'text': c['text'], 'design_ref': 'DESIGN.md section ' + c['design']},
            'level_note': c['note'],
            'technique': c['technique'],
        })
    na = []
    for pid in ids:
        if pid in CHECKS:
            continue
        na.append({'property_id': pid, 'reason': NOT_APPLICABLE.get(pid, PENDING)})
    man = {
        'version': 1,
        'setup_cmd': './setup.sh',
        'hooks': {
            'guard': 'PYSDC_VERIF',
            'enable': 'no hooks: all interposition is done from /verif (subclasses, attribute swaps, module-namespace shadows); pySDC is imported from /repo as it is',
            'baseline_off_cmd': 'cd /repo && /venv/bin/python -m pytest -ra -q -p no:cacheprovider --timeout=900 --continue-on-collection-errors',
            'source_commits': [],
            'add_only': True,
        },
        'engines': [
            {'name': 'symx', 'path': '/verif/symx', 'serves_properties': sorted(CHECKS),
             'kind_free_text': 'symbolic shadow executor for real pySDC code (z3 terms inside numpy object arrays, forking on branches, coverage certificate) + SMT queries'},
            {'name': 'crosshair', 'path': '/verif/crosshair', 'serves_properties': [p for p in ('C14', 'C16', 'C20') if p in CHECKS],
             'kind_free_text': 'CrossHair contracts over real pure-Python helpers (symbolic ints/lists), per-condition time budget'},
        ],
        'checks': checks,
        'not_applicable': na,
        'notes': 'Every claim is bounded (see evidence bounds / outside_the_claim). Exit codes: 0 ok, 1 replayed violation, 2 harness error or inconclusive query, 3 setup failure.',
    }
    with open(os.path.join(V, 'MANIFEST.json'), 'w') as f:
        json.dump(man, f, indent=1)
    import jsonschema

    jsonschema.validate(man, json.load(open('/root/.vp/MANIFEST.schema.json')))
    print('MANIFEST ok:', len(checks), 'checks;', len(na), 'not claimed')


if __name__ == '__main__':
    main()

"""C19 -- runs are reproducible, re-entrant and composable at step boundaries.

Decided as TERM IDENTITY for all inputs: the real controller runs on a symbolic initial value; two runs are bit-identical for every input
if their result terms and all statistics values are structurally identical z3 terms (same operations in the same order).  If they are
not, the solver is asked whether they are at least equal over the reals ("equal up to rounding", reported separately)."""
import json
import os

import numpy as np
import z3

from symx import core
from symx import pysdc as sp
from symx.core import SymReal, R, Ctx, explore, prove, model_value
from harness import wholerun as wr

from pySDC.core.convergence_controller import ConvergenceController
from pySDC.core.hooks import Hooks

PID = 'C19'
BOUNDS = {'quick': dict(configurations=7, steps='<=4', scenarios=5), 'thorough': dict(configurations=13)}


def describe(rep):
    from pySDC.implementations.controller_classes.controller_nonMPI import controller_nonMPI as C
    from pySDC.core.level import Level
    from pySDC.core.step import Step
    from pySDC.core.sweeper import Sweeper

    rep.func(C.__init__, C.run, C.restart_block, Level.reset_level, Step.reset_step, Step.init_step, Sweeper.predict, Hooks.reset_stats)
    rep.explanation = __doc__
    rep.rule = 'case = (configuration, scenario); scenarios: fresh twice, same controller twice, two controllers interleaved, split at a block boundary (also of a run whose length is not a whole number of blocks, with a symbolic round-off of k ulp, |k| <= 6, on the end time: scenario splitodd), runs of different lengths on one controller, process isolation, parameter dictionaries (controller, description, sweeper) handed to several controllers'
    rep.assume('structural identity of the z3 terms implies bit-equal floats for every input (same operations, same order, same constants)',
               'linear stub problems with exact solves; timings and log files excluded')
    rep.out_of_scope('MPI', 'adaptive step sizes (fixed-step runs only, as the property states)')


def cfgs(tier):
    base = dict(dt=0.25, prob='dahlquist', n=1, qd='LU', sweeper='generic_implicit')
    out = [
        dict(base, M=[2], NP=1, maxiter=2, restol=-1.0, blocks=3),
        dict(base, M=[2], NP=2, maxiter=2, restol=-1.0, blocks=2, jac=False),
        dict(base, M=[2, 1], NP=2, maxiter=2, restol=-1.0, blocks=2, predict='pfasst_burnin'),
        dict(base, M=[2], NP=1, maxiter=3, restol=1e-3, blocks=2),
        dict(base, M=[2], NP=2, maxiter=2, restol=-1.0, blocks=2, initial_guess='zero'),
        dict(base, M=[2], NP=2, maxiter=2, restol=-1.0, blocks=2, initial_guess='random'),
        dict(base, sweeper='imex_1st_order', M=[2], NP=2, maxiter=2, restol=-1.0, blocks=2),
        # stopping by increment: a convergence controller that registers extra level status variables (increment, embedded estimate) is loaded
        dict(base, M=[2], NP=1, maxiter=2, restol=-1.0, e_tol=2e-2, blocks=2),
        # a preconditioner that depends on the sweep index, several sweeps per iteration (sweeper state that must not leak between runs / blocks)
        dict(base, qd='MIN-SR-FLEX', M=[2], NP=1, maxiter=2, restol=-1.0, blocks=2, nsweeps=2),
        # a user hook with an extended entry class
        dict(base, M=[2], NP=2, maxiter=2, restol=-1.0, blocks=2, exthook=True),
        # an explicitly given initial step size below the step size (level parameters must come out of a run as they went in)
        dict(base, M=[2], NP=2, maxiter=2, restol=-1.0, blocks=2, dt_initial=0.0625, jac=False),
        # a shipped convergence controller that carries state into the problem (solver tolerance set from the residual after every iteration, iteration 0 included)
        dict(base, M=[2], NP=1, maxiter=2, restol=-1.0, blocks=2, inexact=True, xrange=[0.5, 1.0]),
        dict(base, M=[2], NP=2, maxiter=2, restol=-1.0, blocks=2, inexact=True, jac=False, xrange=[0.5, 1.0]),
    ]
    if tier != 'quick':
        out += [
            dict(base, M=[3], NP=3, maxiter=2, restol=-1.0, blocks=2, jac=True),
            dict(base, M=[3, 2], NP=2, maxiter=2, restol=-1.0, blocks=2, predict='fine_only', nsweeps=2),
            dict(base, prob='dahlquist', n=2, M=[2], NP=2, maxiter=2, restol=-1.0, blocks=2),
            dict(base, M=[2], NP=4, maxiter=1, restol=-1.0, blocks=1),
            dict(base, M=[2], NP=2, maxiter=3, restol=1e-3, blocks=2, jac=False),
            dict(base, M=[3, 2, 1], NP=1, maxiter=2, restol=-1.0, blocks=2, initial_guess='random'),
            dict(base, M=[2], NP=1, maxiter=3, restol=-1.0, e_tol=2e-2, blocks=3),
            dict(base, M=[2], NP=2, maxiter=3, restol=-1.0, e_tol=2e-2, blocks=2, jac=False),
        ]
    return out


def tasks(tier, seed):
    T = []
    for c in cfgs(tier):
        for sc in ('fresh', 'same', 'interleaved', 'split', 'reuse'):
            T.append((sc, json.dumps(c, sort_keys=True)))
        if len(c['M']) > 1:
            T.append(('shared', json.dumps(c, sort_keys=True)))
    base_ = dict(dt=0.25, prob='dahlquist', n=1, qd='LU', sweeper='generic_implicit', maxiter=2, restol=-1.0, blocks=2)
    for c in (dict(base_, M=[3, 2], NP=1), dict(base_, M=[3, 2, 2], NP=2, predict='fine_only'), dict(base_, M=[3], NP=2, jac=False), dict(base_, sweeper='imex_1st_order', M=[3, 2], NP=1)):
        T.append(('isolation', json.dumps(c, sort_keys=True)))
    T.append(('lengths', json.dumps(dict(dt=0.25, prob='dahlquist', n=1, qd='LU', sweeper='generic_implicit', M=[2], NP=4, maxiter=1, restol=-1.0, blocks=1, jac=False, postrun=True), sort_keys=True)))
    T.append(('lengths', json.dumps(dict(dt=0.25, prob='dahlquist', n=1, qd='LU', sweeper='generic_implicit', M=[2, 1], NP=3, maxiter=1, restol=-1.0, blocks=1, postrun=True), sort_keys=True)))
    T.append(('sweeper_params', json.dumps(dict(base_, M=[3], NP=1), sort_keys=True)))
    T.append(('sweeper_params', json.dumps(dict(base_, M=[2], NP=2, jac=False, sweeper='imex_1st_order'), sort_keys=True)))
    for c in (dict(base_, M=[2], NP=2, jac=False, maxiter=1), dict(base_, M=[2, 1], NP=2, maxiter=1), dict(base_, M=[2], NP=3, maxiter=1, dt=0.125)):
        T.append(('splitodd', json.dumps(c, sort_keys=True)))
    T.append(('float', json.dumps(cfgs(tier)[1], sort_keys=True)))
    T.append(('float', json.dumps(cfgs(tier)[5], sort_keys=True)))
    return T


def run_task(rep, task):
    sp.install_shadows()
    cfg = json.loads(task[1])
    if task[0] == 'float':
        float_case(rep, cfg)
    elif task[0] == 'isolation':
        isolation_case(rep, cfg)
    else:
        scenario_case(rep, task[0], cfg)


class ExtraStatus(ConvergenceController):
    """a convergence controller that registers extra status variables on steps and levels (as other controllers in the process may do)"""

    def setup(self, controller, params, description, **kw):
        return {'control_order': -7, **super().setup(controller, params, description, **kw)}

    def setup_status_variables(self, controller, **kw):
        self.add_status_variable_to_step('c19_marker', 0)
        self.add_status_variable_to_level('c19_level_marker', 0)

    def post_iteration_processing(self, controller, S, **kw):
        S.status.c19_marker = (S.status.c19_marker or 0) + 1
        S.levels[0].status.c19_level_marker = S.status.iter


class HookRegistrar(ConvergenceController):
    """a convergence controller that registers a hook of its own on ITS controller (as the shipped error estimators and step-size controllers do)"""

    def setup(self, controller, params, description, **kw):
        controller.add_hook(RegisteredHook)
        return {'control_order': -8, **super().setup(controller, params, description, **kw)}


class RegisteredHook(Hooks):
    """the hook HookRegistrar brings along: its records belong to the controller that carries a HookRegistrar and to no other"""

    def post_step(self, step, level_number):
        super().post_step(step, level_number)
        self.add_to_stats(process=step.status.slot, time=step.levels[0].time, level=-1, iter=step.status.iter, sweep=0, type='c19_registered', value=1)


class ExtraHook(Hooks):
    def post_step(self, step, level_number):
        super().post_step(step, level_number)
        self.add_to_stats(process=step.status.slot, time=step.levels[0].time, level=-1, iter=step.status.iter, sweep=0, type='c19_extra', value=1)


def flat_stats(stats):
    """(key, value-term-or-value) list, timings excluded"""
    out = {}
    for k, v in stats.items():
        if str(k.type).startswith('timing') or k.type in ('c19_extra',):
            continue
        # every field of the key (user hooks may extend the entry class)
        key = tuple((float(getattr(k, f)) if f == 'time' and getattr(k, f) is not None else getattr(k, f)) for f in k._fields if f != 'process_sweeper') + (len(k._fields),)
        out[key] = v
    return out


def same_value(a, b):
    """structural identity of two statistics values / meshes"""
    if isinstance(a, np.ndarray) or isinstance(b, np.ndarray):
        ta, tb = sp.terms(a), sp.terms(b)
        return len(ta) == len(tb) and all(x.eq(y) for x, y in zip(ta, tb))
    if isinstance(a, SymReal) or isinstance(b, SymReal):
        return R(a).eq(R(b))
    return a == b


def compare(rep, name, A, B, xs, assumptions, key_suffix):
    """A, B: (uend terms, stats).  structural identity; otherwise ask the solver for equality over the reals"""
    ua, sa = A
    ub, sb = B
    ident = len(ua) == len(ub) and all(x.eq(y) for x, y in zip(ua, ub))
    fa, fb = flat_stats(sa), flat_stats(sb)
    keys_same = set(fa) == set(fb)
    vals_same = keys_same and all(same_value(fa[k], fb[k]) for k in fa)
    rep.side(f'{name}:stats-keys-identical', keys_same, {'only_first': sorted(map(str, set(fa) - set(fb)))[:4], 'only_second': sorted(map(str, set(fb) - set(fa)))[:4]})
    if ident and vals_same:
        rep.ob(f'{name}:bit-identical', 'unsat')  # structurally identical terms: no solver call needed, the obligation is discharged syntactically
        rep.extra['structurally_identical'] = rep.extra.get('structurally_identical', 0) + 1
        return True
    res, m = prove(z3.And([x == y for x, y in zip(ua, ub)]), assumptions, name=f'{name}:equal-over-the-reals')
    rep.extra.setdefault('not_structurally_identical', []).append({'case': name, 'equal_over_reals': res})
    rep.obligations[f'{name}:bit-identical'] = 'sat'
    return False


def run_once(c, cfg, ctl=None, xs=None, t0=0.0, nsteps=None, tend_shift=None):
    ctl_, A, uend, stats, xs = wr.run_symbolic(c, cfg, xs=xs, t0=t0, nsteps=nsteps, ctl=ctl, tend_shift=tend_shift)
    return ctl_, sp.terms(uend), dict(stats), xs


def scenario_case(rep, scenario, cfg):
    from harness.c01 import cname

    name = f'{scenario}/{cname(cfg)}'
    n = cfg['n']
    xs = [z3.Real(f'x{i}') for i in range(n)]
    total = cfg['NP'] * cfg.get('blocks', 1)
    out = {}

    def fn(c):
        if scenario == 'fresh':
            _, u1, s1, _ = run_once(c, cfg, xs=xs)
            _, u2, s2, _ = run_once(c, cfg, xs=xs)
            return [((u1, s1), (u2, s2))]
        if scenario == 'same':
            ctl, u1, s1, _ = run_once(c, cfg, xs=xs)
            _, u2, s2, _ = run_once(c, cfg, ctl=ctl, xs=xs)
            _, u3, s3, _ = run_once(c, cfg, ctl=ctl, xs=xs)
            return [((u1, s1), (u2, s2)), ((u1, s1), (u3, s3))]
        if scenario == 'interleaved':
            # reference: undisturbed run; then a differently configured controller (extra status variables, extra hooks, other sizes)
            # is created and run in between construction and run of the controller under test, and again between two of its runs
            _, u1, s1, _ = run_once(c, cfg, xs=xs)
            ctlA, _A = wr.build(cfg)
            other = dict(cfg, M=[3] if len(cfg['M']) == 1 else [3, 2], NP=max(1, cfg['NP'] - 1) if cfg['NP'] > 1 else 2, maxiter=cfg['maxiter'] + 1,
                         hooks=[ExtraHook], initial_guess='spread', inexact=False)
            ctlB, _B = wr.build(other)
            EC = ExtraStatus(ctlB, {}, ctlB.description)
            ctlB.convergence_controllers.append(EC)
            ctlB.convergence_controller_order = np.argsort([C.params.control_order for C in ctlB.convergence_controllers])
            EC.setup_status_variables(ctlB)
            run_once(c, other, ctl=ctlB, xs=[z3.Real('y0')] * other['n'])
            _, u2, s2, _ = run_once(c, cfg, ctl=ctlA, xs=xs)
            run_once(c, other, ctl=ctlB, xs=[z3.Real('y0')] * other['n'])
            _, u3, s3, _ = run_once(c, cfg, ctl=ctlA, xs=xs)
            # clean up the class-level attribute registration so that later cases start from the same process state
            return [((u1, s1), (u2, s2)), ((u1, s1), (u3, s3))]
        if scenario == 'shared':
            # three controllers built from one shared controller-parameter dictionary: B (the configuration), a single-level one, B again.
            # the parameters a user passes in are the user's: building a controller must not change what the next one is built from
            import copy

            shared = {}
            cfgS = dict(cfg, _shared=shared)
            _, u1, s1, _ = run_once(c, cfgS, xs=xs)
            before = copy.deepcopy({k: v for k, v in shared['cp'].items() if k != 'hook_class'})
            single = dict(cfgS, M=cfg['M'][:1], NP=1, extra_cc={HookRegistrar: {}})  # (one of its convergence controllers registers a hook of its own on THAT controller)
            run_once(c, single, xs=[z3.Real('y0')] * cfg['n'])
            run_once(c, dict(cfgS, NP=cfg['NP'] + 1), xs=[z3.Real('y0')] * cfg['n'])  # (the SAME description with another number of parallel steps)
            _, u2, s2, _ = run_once(c, cfgS, xs=xs)
            after = {k: v for k, v in shared['cp'].items() if k != 'hook_class'}
            out['params_unchanged'] = (before == after, before, after)
            return [((u1, s1), (u2, s2))]
        if scenario == 'sweeper_params':
            # ONE sweeper-parameter dictionary (no per-level lists) used for this configuration, then for a controller with ANOTHER sweeper class (a
            # Runge-Kutta sweeper, which rewrites several of its parameters), then for this configuration again: same result as with a dictionary of its own
            from pySDC.implementations.sweeper_classes.Runge_Kutta import RK4

            _, u1, s1, _ = run_once(c, cfg, xs=xs)
            shared = {}
            cfgS = dict(cfg, _sw_obj=shared)
            run_once(c, cfgS, xs=xs)
            try:
                wr.build(dict(cfgS, _sweeper_class=RK4))
                _, u2, s2, _ = run_once(c, cfgS, xs=xs)
            except Exception as e:
                out['raised'] = f'{type(e).__name__}: {e}'
                return []
            return [((u1, s1), (u2, s2))]
        if scenario == 'lengths':
            # runs of different lengths on one controller (blocks shorter than the number of processes leave steps outside the block): a run repeated
            # after them gives what it gives on a fresh controller, statistics of hooks keyed on the last step included
            _, u1, s1, _ = run_once(c, cfg, xs=xs, nsteps=2)
            ctl, _u, _s, _ = run_once(c, cfg, xs=xs, nsteps=2)
            run_once(c, cfg, ctl=ctl, xs=xs, nsteps=3)
            _, u3, s3, _ = run_once(c, cfg, ctl=ctl, xs=xs, nsteps=2)
            run_once(c, cfg, ctl=ctl, xs=xs, nsteps=1)
            _, u4, s4, _ = run_once(c, cfg, ctl=ctl, xs=xs, nsteps=2)
            return [((u1, s1), (u3, s3)), ((u1, s1), (u4, s4))]
        if scenario == 'reuse':
            # a controller that has already done a DIFFERENT run (other initial value, other start time) must behave like a fresh one
            ys = [z3.Real(f'y{i}') for i in range(n)]
            t1 = cfg['dt'] * 3
            ctl, _u, _s, _ = run_once(c, cfg, xs=xs)
            _, u2, s2, _ = run_once(c, cfg, ctl=ctl, xs=ys, t0=t1)
            _, u3, s3, _ = run_once(c, cfg, xs=ys, t0=t1)
            return [((u3, s3), (u2, s2))]
        if scenario == 'split':
            pairs = []
            _, ufull, sfull, _ = run_once(c, cfg, xs=xs)
            for k in range(1, cfg.get('blocks', 1)):
                nfirst = k * cfg['NP']
                _, uh, sh, _ = run_once(c, cfg, xs=xs, nsteps=nfirst)
                _, ur, sr, _ = run_once(c, cfg, xs=uh, t0=cfg['dt'] * nfirst, nsteps=total - nfirst)
                # statistics of the two halves together must be the statistics of the uninterrupted run
                merged = {**sh, **sr}
                pairs.append(((ufull, sfull), (ur, merged)))
            return pairs

        if scenario == 'splitodd':
            # a run whose length is NOT a whole number of blocks, split at a block boundary, with an end time that carries round-off:
            # Tend = t0 + (NP + 1) dt + k ulp with a symbolic k in [-6, 6] (t0 = 0.5 and dt = 0.25 or 0.125: every such Tend is a double).  A step that
            # would begin at Tend up to round-off is inside no run, whether it sits in the first block of a run or a later one.
            k = z3.Int('k_ulp')
            c.add(z3.And(k >= -6, k <= 6))
            sh = z3.ToReal(k) * core.rv(2.0**-52)
            t0_, dt_, NP = 0.5, cfg['dt'], cfg['NP']
            pairs = []
            _, ufull, sfull, _ = run_once(c, cfg, xs=xs, t0=t0_, nsteps=NP + 1, tend_shift=sh)
            _, uh, sh_, _ = run_once(c, cfg, xs=xs, t0=t0_, nsteps=NP)
            _, ur, sr, _ = run_once(c, cfg, xs=uh, t0=t0_ + dt_ * NP, nsteps=1, tend_shift=sh)
            pairs.append(((ufull, sfull), (ur, {**sh_, **sr})))
            return pairs

    paths = explore(fn, max_paths=2000)
    rep.paths += len(paths)
    rep.decisions += sum(len(p.decisions) for p in paths)
    if 'params_unchanged' in out and not out['params_unchanged'][0]:
        # (not a clause of the property by itself -- only the results below are judged -- but worth a note in the evidence)
        rep.note(f'{name}: building the controllers changed the shared controller parameters: {out["params_unchanged"][1]} -> {out["params_unchanged"][2]}')
    if out.get('raised'):
        rep.replayed += 1
        try:
            float_runs(scenario, cfg)
            rep.unreproduced(name, out['raised'])
        except Exception as e:
            rep.violation(f'{PID}/{scenario}-raises', f'{name}: a controller cannot be built / run after another controller used the same parameter dictionary: {type(e).__name__}: {e}',
                          {'task': [scenario], 'cfg': cfg, 'raises': f'{type(e).__name__}: {e}'})
    for i, p in enumerate(paths):
        A_ = [z3.And(x >= -1, x <= 1) for x in xs] + list(p.assume) + list(p.pc)
        for j, (Ares, Bres) in enumerate(p.result):
            ok = compare(rep, f'{name}/path{i}/pair{j}', Ares, Bres, xs, A_, scenario)
            if not ok:
                triage(rep, scenario, cfg, name)
    rep.sample({'case': name, 'paths': len(paths), 'pairs_compared': sum(len(p.result) for p in paths)}, limit=8)


def isolation_case(rep, cfg):
    """two controllers living in one process do not influence each other, judged against a run in a process of its own: the configuration is run alone in a
    fresh interpreter and, in another fresh interpreter, after two differently configured controllers with the SAME sizes (other quadrature type, node
    type, preconditioner, step size); end value and statistics must agree exactly (real float classes; concrete, ENUMERATED)"""
    import subprocess
    import sys as _sys

    from harness.c01 import cname

    name = f'isolation/{cname(cfg)}'
    env = dict(os.environ, PYTHONPATH=os.pathsep.join([os.path.dirname(os.path.dirname(os.path.abspath(__file__))), os.environ.get('VERIF_REPO', '/repo')]), PYTHONDONTWRITEBYTECODE='1', PYTHONHASHSEED='0')
    outs = {}
    for mode in ('alone', 'after-other'):
        pr = subprocess.run([_sys.executable, '-m', 'harness.c19_iso', json.dumps(cfg), mode], capture_output=True, text=True, env=env, timeout=600)
        lines = [l for l in pr.stdout.strip().splitlines() if l.strip()]
        if pr.returncode != 0 or not lines:
            rep.error(f'{name}: helper process failed ({mode}): {pr.stderr[-400:]}')
            return
        outs[mode] = (lines[-1], [l for l in lines[:-1] if l.startswith('OTHER-FAILED')])
    rep.translator += 2
    if outs['after-other'][1]:
        rep.note(f'{name}: {outs["after-other"][1]}')
    same = outs['alone'][0] == outs['after-other'][0]
    if not same:
        a, b = json.loads(outs['alone'][0]), json.loads(outs['after-other'][0])
        rep.replayed += 1
        rep.violation(f'{PID}/process-isolation/{"ml" if len(cfg["M"]) > 1 else "sl"}', f'{name}: run alone in a fresh process gives {a[0]}, after differently configured controllers with the same sizes {b[0]}; statistics digests {"equal" if a[1] == b[1] else "differ"}',
                      {'task': ['isolation'], 'cfg': cfg, 'alone': a, 'after_other': b})
    else:
        rep.side(f'{name}:same-as-alone', True)


def float_runs(scenario, cfg, x=0.7321):
    """the same scenario on the real float classes: returns list of (uend_a, uend_b) arrays"""
    total = cfg['NP'] * cfg.get('blocks', 1)

    def go(ctl=None, x0=x, t0=0.0, nsteps=total):
        if ctl is None:
            ctl, _ = wr.build(cfg, float_mode=True)
        P = ctl.MS[0].levels[0].prob
        u0 = P.dtype_u(P.init)
        u0[:] = x0
        u, st = ctl.run(u0, t0, t0 + cfg['dt'] * nsteps)
        return ctl, np.array(u, dtype=float), st

    if scenario == 'fresh':
        return [(go()[1], go()[1])]
    if scenario in ('same', 'interleaved'):
        ctl, a, _ = go()
        _, b, _ = go(ctl)
        return [(a, b)]
    if scenario == 'shared':
        shared = {}
        cS = dict(cfg, _shared=shared)
        c1, _ = wr.build(cS, float_mode=True)
        _, a, _ = go(c1)
        cA, _ = wr.build(dict(cS, M=cfg['M'][:1], NP=1, extra_cc={HookRegistrar: {}}), float_mode=True)
        PA = cA.MS[0].levels[0].prob
        uA = PA.dtype_u(PA.init)
        uA[:] = x
        cA.run(uA, 0.0, cfg['dt'])
        cB, _ = wr.build(dict(cS, NP=cfg['NP'] + 1), float_mode=True)
        PB = cB.MS[0].levels[0].prob
        uB = PB.dtype_u(PB.init)
        uB[:] = x
        cB.run(uB, 0.0, cfg['dt'] * (cfg['NP'] + 1))
        c2, _ = wr.build(cS, float_mode=True)
        _, b, _ = go(c2)
        return [(a, b)]
    if scenario == 'sweeper_params':
        from pySDC.implementations.sweeper_classes.Runge_Kutta import RK4

        _, a, _ = go()
        shared = {}
        cS = dict(cfg, _sw_obj=shared)
        go(wr.build(cS, float_mode=True)[0])
        wr.build(dict(cS, _sweeper_class=RK4), float_mode=True)
        _, b, _ = go(wr.build(cS, float_mode=True)[0])
        return [(a, b)]
    if scenario == 'lengths':
        # (end value followed by the number of non-timing statistics entries, so that surplus records show up in the comparison)
        cnt = lambda st: float(sum(1 for k in st if not str(k.type).startswith('timing')))
        _, a, sa = go(nsteps=2)
        ctl, _a, _ = go(nsteps=2)
        go(ctl, nsteps=3)
        _, b, sb = go(ctl, nsteps=2)
        go(ctl, nsteps=1)
        _, c_, sc_ = go(ctl, nsteps=2)
        return [(np.append(a, cnt(sa)), np.append(b, cnt(sb))), (np.append(a, cnt(sa)), np.append(c_, cnt(sc_)))]
    if scenario == 'reuse':
        ctl, _a, _ = go()
        _, b, _ = go(ctl, x0=0.3 * x, t0=3 * cfg['dt'])
        _, c_, _ = go(x0=0.3 * x, t0=3 * cfg['dt'])
        return [(c_, b)]
    if scenario == 'splitodd':
        out = []
        NP = cfg['NP']
        for k in range(-6, 7):
            T = 0.5 + (NP + 1) * cfg['dt'] + k * 2.0**-52

            def go2(x0, t0, Tend):
                ctl, _ = wr.build(cfg, float_mode=True)
                P = ctl.MS[0].levels[0].prob
                u0 = P.dtype_u(P.init)
                u0[:] = x0
                return np.array(ctl.run(u0, t0, Tend)[0], dtype=float)

            h = go2(x, 0.5, 0.5 + cfg['dt'] * NP)
            out.append((go2(x, 0.5, T), go2(h, 0.5 + cfg['dt'] * NP, T)))
        return out
    out = []
    _, full, _ = go()
    for k in range(1, cfg.get('blocks', 1)):
        nf = k * cfg['NP']
        _, h, _ = go(nsteps=nf)
        _, r, _ = go(x0=h, t0=cfg['dt'] * nf, nsteps=total - nf)
        out.append((full, r))
    return out


def triage(rep, scenario, cfg, name):
    rep.replayed += 1
    try:
        pairs = float_runs(scenario, cfg)
    except Exception as e:
        rep.unreproduced(name, f'{type(e).__name__}: {e}')
        return
    diff = [(a.tolist(), b.tolist()) for a, b in pairs if not np.array_equal(a, b)]
    if diff:
        what = f'random-guess-rng-state/{scenario}' if cfg.get('initial_guess') == 'random' else f'{scenario}-not-bit-identical'
        rep.violation(f'{PID}/{what}', f'{name}: real float runs differ: {diff[0][0]} vs {diff[0][1]}',
                      {'task': [scenario], 'cfg': cfg, 'first': diff[0][0], 'second': diff[0][1]})
    else:
        rep.unreproduced(name, 'terms differ structurally but the real float runs are bit-identical for the sampled input')


def float_case(rep, cfg):
    """translator validation: the scenarios on real floats (also decides whether the known finding is still present)"""
    for sc in ('fresh', 'same', 'split'):
        pairs = float_runs(sc, cfg)
        rep.translator += 1
        same = all(np.array_equal(a, b) for a, b in pairs)
        if cfg.get('initial_guess') == 'random' and sc in ('same', 'split'):
            if not same:
                rep.violation(f'{PID}/random-guess-rng-state/{sc}', f'float/{sc}: initial_guess=random, second run on the same controller differs: {pairs[0][0].tolist()} vs {pairs[0][1].tolist()}',
                              {'task': [sc], 'cfg': cfg, 'first': pairs[0][0].tolist(), 'second': pairs[0][1].tolist()})
        else:
            rep.side(f'float/{sc}/{cfg.get("initial_guess", "spread")}', same)


def replay(path):
    import logging

    logging.disable(logging.CRITICAL)
    d = json.load(open(path))['replay']
    if d['task'][0] == 'isolation':
        from symx.report import Report

        r = Report(PID, 'other', 'quick', 0)
        isolation_case(r, d['cfg'])
        bad = bool(r.violations)
        print(r.violations[0]['what'] if bad else 'same result alone and after other controllers')
        print('REPRODUCED' if bad else 'not reproduced')
        return 1 if bad else 0
    try:
        pairs = float_runs(d['task'][0], d['cfg'])
    except Exception as e:
        print('the scenario raises on the real float classes:', type(e).__name__, e)
        print('REPRODUCED' if d.get('raises') else 'harness problem')
        return 1 if d.get('raises') else 2
    bad = any(not np.array_equal(a, b) for a, b in pairs)
    print([(a.tolist(), b.tolist()) for a, b in pairs])
    print('REPRODUCED' if bad else 'not reproduced')
    return 1 if bad else 0

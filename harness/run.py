"""driver:  python -m harness.run Cxx [--tier quick|thorough] [--replay file] [--jobs N]"""
import argparse
import json
import importlib
import logging
import multiprocessing as mp
import os
import sys
import time
import traceback
import warnings

warnings.filterwarnings('ignore')

from symx import core
from symx.report import Report, EXIT_HARNESS

LEVELS = {'C06': 'model_checking', 'C07': 'model_checking', 'C09': 'model_checking'}


def _init_worker():
    """workers die with the driver (PR_SET_PDEATHSIG), so that a check stopped from outside leaves no solver processes behind"""
    try:
        import ctypes
        import signal

        ctypes.CDLL('libc.so.6').prctl(1, signal.SIGKILL)
    except Exception:
        pass


class TaskTimeout(Exception):
    pass


def _alarm(signum, frame):
    raise TaskTimeout()


# wall-clock budget of one task: a change to pySDC that makes a run loop for ever must end in a report, not in a check that never returns
TASK_BUDGET_S = {'quick': 20 * 60, 'thorough': 90 * 60}


def _worker(args):
    pid, tier, seed, task = args
    logging.disable(logging.CRITICAL)
    import signal

    try:
        signal.signal(signal.SIGALRM, _alarm)
        signal.alarm(int(os.environ.get('VERIF_TASK_BUDGET', '0') or 0) or TASK_BUDGET_S.get(tier, 20 * 60))  # (the variable is a development aid)
    except Exception:
        pass
    mod = importlib.import_module(f'harness.{pid.lower()}')
    rep = Report(pid, LEVELS.get(pid, 'other'), tier, seed)
    core.QS.__init__()
    t = time.time()
    try:
        mod.run_task(rep, task)
    except core.Inconclusive as e:
        rep.inconclusive.append({'name': str(task)[:120], 'why': f'Inconclusive: {e}'})
    except TaskTimeout:
        rep.inconclusive.append({'name': str(task)[:120], 'why': f'task exceeded its wall-clock budget of {TASK_BUDGET_S.get(tier)} s (the code under test may not terminate)'})
    except Exception:
        rep.error(f'task {str(task)[:160]} crashed: {traceback.format_exc()[-1500:]}')
    finally:
        try:
            signal.alarm(0)
        except Exception:
            pass
    for sf in rep.extra.get('side_failed', []):  # (so that the replay of a failed side condition can re-execute exactly this task)
        sf.setdefault('task_repr', repr(task))
        sf.setdefault('tier', tier)
    d = rep.export()
    d['task'] = str(task)[:160]
    d['task_wall'] = time.time() - t
    return d


def replay_side(mod, pid, full, seed):
    """replay of a failed concrete side condition: the task it came from is executed again on the current tree; reproduced iff the same condition fails"""
    sf = full['replay']
    want = sf['name']
    for tier in ([sf.get('tier')] if sf.get('tier') else []) + ['quick', 'thorough']:
        for t in mod.tasks(tier, seed):
            if repr(t) == sf['task_repr']:
                rep = Report(pid, LEVELS.get(pid, 'other'), tier, seed)
                core.QS.__init__()
                try:
                    mod.run_task(rep, t)
                except Exception as e:
                    print('re-execution raised', type(e).__name__, e)
                failed = [x for x in rep.extra.get('side_failed', []) if x['name'] == want]
                for x in failed[:1]:
                    print('side condition fails again:', want, str(x.get('detail'))[:400])
                print('REPRODUCED' if failed else 'not reproduced')
                return 1 if failed else 0
    print('the task of this side condition is not among the tasks of the check any more:', sf['task_repr'][:200])
    return 2


def _run_pool(pid, tier, seed, tasks, jobs):
    """tasks over worker processes; a worker that dies (a native solver library calling exit / crashing) must not hang the check: the tasks that were
    lost are run again, each in a process of its own, and one that kills its process again is reported as inconclusive"""
    from concurrent.futures import ProcessPoolExecutor, as_completed
    from concurrent.futures.process import BrokenProcessPool

    ctx = mp.get_context('spawn')
    results = {}
    pending = list(range(len(tasks)))
    isolated = False
    for _round in range(2):
        if not pending:
            break
        lost = []
        if not isolated:
            with ProcessPoolExecutor(min(jobs, len(pending)), mp_context=ctx, initializer=_init_worker) as ex:
                futs = {ex.submit(_worker, (pid, tier, seed, tasks[i])): i for i in pending}
                for f in as_completed(futs):
                    try:
                        results[futs[f]] = f.result()
                    except BrokenProcessPool:
                        lost.append(futs[f])
        else:
            for i in pending:
                with ProcessPoolExecutor(1, mp_context=ctx, initializer=_init_worker) as ex:
                    try:
                        results[i] = ex.submit(_worker, (pid, tier, seed, tasks[i])).result()
                    except BrokenProcessPool:
                        rep = Report(pid, LEVELS.get(pid, 'other'), tier, seed)
                        rep.inconclusive.append({'name': str(tasks[i])[:120], 'why': 'the worker process died while running this task (crash or exit inside a native library)'})
                        d = rep.export()
                        d['task'] = str(tasks[i])[:160]
                        d['task_wall'] = 0.0
                        results[i] = d
        pending = sorted(lost)
        isolated = True
    return [results[i] for i in range(len(tasks))]


def main(argv=None):
    ap = argparse.ArgumentParser()
    ap.add_argument('pid')
    ap.add_argument('--tier', default=os.environ.get('VERIF_TIER', 'quick'))
    ap.add_argument('--replay')
    ap.add_argument('--jobs', type=int, default=int(os.environ.get('VERIF_JOBS', '0')) or min(16, os.cpu_count() or 1))
    ap.add_argument('--only', default=None, help='substring filter on task names (development aid)')
    a = ap.parse_args(argv)
    pid = a.pid.upper()
    seed = int(os.environ.get('VERIF_SEED', '0') or 0)
    logging.disable(logging.CRITICAL)
    mod = importlib.import_module(f'harness.{pid.lower()}')
    if a.replay:
        try:
            full = json.load(open(a.replay))
        except Exception:
            full = {}
        if '/side/' in str(full.get('key', '')) and isinstance(full.get('replay'), dict) and full['replay'].get('task_repr'):
            return replay_side(mod, pid, full, seed)
        return mod.replay(a.replay)
    rep = Report(pid, LEVELS.get(pid, 'other'), a.tier, seed)
    try:
        mod.describe(rep)
        rep.bound(**getattr(mod, 'BOUNDS', {}).get(a.tier, {}))
        tasks = mod.tasks(a.tier, seed)
        if a.only:
            tasks = [t for t in tasks if a.only in str(t)]
        if a.jobs <= 1 or len(tasks) <= 1:
            results = [_worker((pid, a.tier, seed, t)) for t in tasks]
        else:
            results = _run_pool(pid, a.tier, seed, tasks, a.jobs)
        slow = sorted(((r['task_wall'], r['task']) for r in results), reverse=True)[:5]
        rep.extra['tasks'] = len(tasks)
        rep.extra['slowest_tasks'] = [{'task': t, 's': round(w, 1)} for w, t in slow]
        for r in results:
            rep.merge(r)
        if hasattr(mod, 'finalize'):
            mod.finalize(rep)
    except Exception:
        rep.error('driver crashed: ' + traceback.format_exc()[-2000:])
    return rep.finish()


if __name__ == '__main__':
    sys.exit(main())

import numpy as np
from pySDC.implementations.controller_classes.controller_nonMPI import controller_nonMPI
from pySDC.implementations.problem_classes.TestEquation_0D import testequation0d
from pySDC.implementations.sweeper_classes.generic_implicit import generic_implicit
from pySDC.helpers.stats_helper import get_sorted
desc=dict(problem_class=testequation0d, problem_params={'lambdas':np.array([-1.0]),'u0':1e-9}, sweeper_class=generic_implicit,
  sweeper_params={'num_nodes':2,'quad_type':'RADAU-RIGHT'}, level_params={'dt':0.1,'restol':1e-8}, step_params={'maxiter':5})
c=controller_nonMPI(1, {'logger_level':40}, desc)
P=c.MS[0].levels[0].prob
u,stats=c.run(P.u_exact(0),0.0,0.1)
print('niter',get_sorted(stats,type='niter'),'u0',P.u_exact(0),'uend',u, 'rhs evals', P.work_counters['rhs'].niter)

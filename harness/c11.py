"""C11 -- transfer operators in time and space are exact on what they promise.

Time: the node-to-node transfer tables of the real BaseTransfer.get_transfer_matrix_Q (engine C: table from the real code, polynomial data
symbolic).  Space: the real mesh_to_mesh.restrict / prolong are EXECUTED on symbolic meshes (sparse .dot replaced by an exact dense product
after the real code has built the matrices): every interpolated value must equal the Lagrange polynomial through the p nearest coarse points
(periodic images / homogeneous boundary values included), with the Lagrange weights recomputed in exact rationals inside the query."""
import itertools
import json
from fractions import Fraction

import numpy as np
import z3

from symx import core
from symx import pysdc as sp
from symx.core import SymReal, R, rv, frac, prove, model_value, Ctx

from pySDC.core.base_transfer import BaseTransfer
from pySDC.core.collocation import CollBase
from pySDC.helpers import transfer_helper as th
from pySDC.implementations.datatype_classes.mesh import mesh, imex_mesh
from pySDC.implementations.transfer_classes.TransferMesh import mesh_to_mesh

PID = 'C11'
BOUNDS = {'quick': dict(node_counts='1..4', grids='8/4 16/8 (periodic), 7/3 15/7 (Dirichlet)', orders='2 4 6 8', dims='1..2'), 'thorough': dict(node_counts='1..6', grids='up to 32/16, 31/15', dims='1..3')}
NODE_TYPES = ['LEGENDRE', 'EQUID', 'CHEBY-1', 'CHEBY-2', 'CHEBY-3', 'CHEBY-4']
QUAD_TYPES = ['RADAU-RIGHT', 'LOBATTO', 'GAUSS', 'RADAU-LEFT']


def describe(rep):
    rep.func(th.restriction_matrix_1d, th.interpolation_matrix_1d, th.next_neighbors, th.next_neighbors_periodic, th.continue_periodic_array, th.border_padding)
    from pySDC.implementations.transfer_classes.TransferMesh_NoCoarse import mesh_to_mesh as nocoarse

    rep.func(BaseTransfer.get_transfer_matrix_Q, mesh_to_mesh.__init__, mesh_to_mesh.restrict, mesh_to_mesh.prolong, th.interpolation_matrix_1d,
             th.restriction_matrix_1d, nocoarse.restrict, nocoarse.prolong)
    rep.explanation = __doc__
    rep.rule = 'case = node-set pair or (grid sizes, order, periodicity, equidist_nested, dimension, data type) or (grids, order, dimension, component layout first/last, data type) for problems with several components; object-level node transfers: the matrices AND what prolong() / restrict() do to symbolic node values; one or a few SMT queries (QF_LRA) over all data in the unit box'
    rep.assume('tables come from qmat / scipy BarycentricInterpolator (not symbolic): tolerance 1e-11 (time) / 1e-12 (space) on results for data in [-1,1]',
               'space grids: refinement ratio 2, coordinates i*dx taken as exact rationals')
    rep.out_of_scope('FFT transfers with refinement ratios other than 2', 'TransferParticles_NoCoarse', 'grid sizes > 17 (quick) / 33', 'node counts > 6', '3-D in the quick tier')


def tasks(tier, seed):
    T = []
    quick = tier == 'quick'
    counts = range(1, 5) if quick else range(1, 7)
    for nt in (NODE_TYPES[:2] if quick else NODE_TYPES):
        for qt in QUAD_TYPES:
            for Mf in counts:
                for Mc in counts:
                    if Mc > Mf:
                        continue
                    if qt in ('LOBATTO', 'RADAU-LEFT') and min(Mf, Mc) < 2:
                        continue
                    T.append(('time', nt, qt, Mf, Mc))
    for k in ((2, 3) if quick else (2, 3, 4)):
        for periodic in (True, False):
            nf = 2**(k + 1) if periodic else 2**(k + 1) - 1
            nc = 2**k if periodic else 2**k - 1
            for order in (2, 4, 6, 8):
                if order > nc + (0 if periodic else 2):
                    continue
                for nested in (True, False):
                    T.append(('space', nf, nc, order, periodic, nested, 1, 'mesh'))
    T.append(('space', 16, 8, 4, True, True, 1, 'imex_mesh'))
    T.append(('space', 15, 7, 2, False, True, 1, 'imex_mesh'))
    T.append(('space', 8, 4, 2, True, True, 2, 'mesh'))
    T.append(('space', 7, 3, 2, False, True, 2, 'mesh'))
    T.append(('space', 8, 4, 4, True, False, 2, 'mesh'))
    # different sizes per dimension (the order of the Kronecker factors matters only here)
    T.append(('space', (15, 7), (7, 3), 2, False, True, 2, 'mesh'))
    # problems with several components (ncomp): component index first / last
    T.append(('ncomp', 8, 4, 2, True, 2, 'first', 'mesh'))
    T.append(('ncomp', 8, 4, 4, True, 2, 'last', 'mesh'))
    T.append(('ncomp', 8, 4, 2, True, 2, 'first', 'imex_mesh'))
    T.append(('ncomp', 7, 3, 2, False, 1, 'first', 'mesh'))
    T.append(('ncomp', 7, 3, 2, False, 2, 'last', 'imex_mesh'))
    T.append(('space', (7, 15), (3, 7), 2, False, True, 2, 'imex_mesh'))
    T.append(('space', (15, 7), (7, 3), 4, False, True, 2, 'mesh'))
    if not quick:
        T.append(('space', 4, 2, 2, True, True, 3, 'mesh'))
        T.append(('space', 3, 1, 2, False, True, 3, 'mesh'))
        T.append(('space', (7, 15, 7), (3, 7, 3), 2, False, True, 3, 'mesh'))
    for nf, nc in ((8, 4), (7, 3), (9, 4), (16, 8)):
        for k in ((2, 4) if quick else (2, 4, 6)):
            for periodic in (False, True):
                for shifted in (False, True):
                    if k < nf:
                        T.append(('restr', nf, nc, k, periodic, shifted))
    # restriction order different from the interpolation order, order 0 = injection (1-D and the n-D Kronecker branch)
    for periodic, (nf, nc) in ((True, (8, 4)), (False, (7, 3)), (True, (16, 8))):
        for dim in (1, 2):
            for io, ro in ((2, 0), (4, 0), (4, 2)):
                if nf**dim <= 300 and not (periodic and nc <= max(io, ro)):
                    T.append(('restrorder', nf, nc, io, ro, periodic, dim))
    for nf, nc in (((8, 4), (16, 8), (16, 4), (12, 4)) if quick else ((8, 4), (16, 8), (32, 16), (12, 6), (16, 4), (12, 4), (32, 8), (18, 6))):  # (coarsening ratios 2, 3, 4)
        T.append(('ffttransfer', nf, nc, 1))
    for nf, nc in ((8, 4),):  # (12/6 and 16/8 in two dimensions -- 144 x 36 and 256 x 64 unknowns: the query over all band-limited data does not finish in 5 minutes)
        T.append(('ffttransfer', nf, nc, 2))
    for Mf, Mc in (((3, 2),) if quick else ((3, 2), (4, 2), (5, 3))):
        T.append(('timeobj', Mf, Mc))
    T.append(('nocoarse',))
    return T


def run_task(rep, task):
    if task[0] == 'time':
        time_case(rep, *task[1:])
    elif task[0] == 'space':
        space_case(rep, *task[1:])
    elif task[0] == 'restr':
        restr_case(rep, *task[1:])
    elif task[0] == 'restrorder':
        restrorder_case(rep, *task[1:])
    elif task[0] == 'timeobj':
        timeobj_case(rep, task[1], task[2])
    elif task[0] == 'ffttransfer':
        fft_transfer_case(rep, *task[1:])
    elif task[0] == 'nocoarse':
        nocoarse_case(rep)
    elif task[0] == 'ncomp':
        ncomp_case(rep, *task[1:])


def box(vs):
    return [z3.And(v >= -1, v <= 1) for v in vs]


# ------------------------------------------------------------------------------------------------ time


def time_case(rep, nt, qt, Mf, Mc):
    name = f'time/{nt}/{qt}/{Mf}-{Mc}'
    try:
        cf = CollBase(Mf, 0, 1, node_type=nt, quad_type=qt)
        cc = CollBase(Mc, 0, 1, node_type=nt, quad_type=qt)
    except Exception:
        return
    fn, cn = cf.nodes, cc.nodes
    if Mf == Mc:
        return
    P = BaseTransfer.get_transfer_matrix_Q(fn, cn)  # coarse -> fine  (Mf x Mc)
    Rm = BaseTransfer.get_transfer_matrix_Q(cn, fn)  # fine -> coarse  (Mc x Mf)
    tol = rv(Fraction(1, 10**11))
    for (T, src, dst, lab) in ((P, cn, fn, 'prolong'), (Rm, fn, cn, 'restrict')):
        ns = len(src)
        a = [z3.Real(f'a{k}') for k in range(ns)]
        pv = lambda x: sum(rv(frac(x) ** k) * a[k] for k in range(ns))
        goal = []
        for i in range(len(dst)):
            got = sum(rv(T[i, j]) * pv(src[j]) for j in range(ns))
            ex = pv(dst[i])
            goal += [got - ex <= tol, ex - got <= tol]
        res, m = prove(z3.And(goal), box(a), name=f'{name}:{lab}-exact-on-degree-below-{ns}')
        rep.ob(f'{name}:{lab}-exact-on-degree-below-{ns}', res)
        if res == 'sat':
            coefs = [float(model_value(m, v)) for v in a]
            rep.replayed += 1
            dev = np.abs(T @ np.polyval(coefs[::-1], src) - np.polyval(coefs[::-1], dst)).max()
            if dev > 1e-10:
                rep.violation(f'{PID}/time-transfer/{lab}', f'{name}: polynomial {coefs} not reproduced, deviation {dev:.3e}', {'task': ['time', nt, qt, Mf, Mc], 'coefficients': coefs, 'deviation': float(dev)})
            else:
                rep.unreproduced(f'{name}:{lab}', coefs)
        rep.side(f'{name}:{lab}-rows-sum-to-one', bool(np.all(np.abs(T.sum(axis=1) - 1) < 1e-12)))
    # restriction after prolongation is the identity on every coarse vector
    g = [z3.Real(f'g{k}') for k in range(Mc)]
    RP = [[sum(frac(Rm[i, m_]) * frac(P[m_, j]) for m_ in range(Mf)) for j in range(Mc)] for i in range(Mc)]
    goal = []
    for i in range(Mc):
        got = sum(rv(RP[i][j]) * g[j] for j in range(Mc))
        goal += [got - g[i] <= tol, g[i] - got <= tol]
    res, m = prove(z3.And(goal), box(g), name=f'{name}:R-after-P-is-identity')
    rep.ob(f'{name}:R-after-P-is-identity', res)
    if res == 'sat':
        rep.replayed += 1
        dev = np.abs(Rm @ P - np.eye(Mc)).max()
        if dev > 1e-10:
            rep.violation(f'{PID}/time-transfer/RP-identity', f'{name}: |R P - I| = {dev:.3e}', {'task': ['time', nt, qt, Mf, Mc], 'deviation': float(dev)})
        else:
            rep.unreproduced(f'{name}:RP', float(dev))
    rep.sample({'case': name, 'free': 'polynomial coefficients / coarse vector in the unit box'}, limit=4)


def timeobj_case(rep, Mf, Mc):
    """the node-to-node matrices that REAL BaseTransfer objects hold (Pcoll, Rcoll), for level pairs built one after the other in one process: the same fine
    node set with every coarse quadrature type and vice versa.  Each pair is decided against its own nodes (polynomial reproduction below the number of
    source nodes), so matrices handed over from an earlier pair with the same sizes are noticed."""
    from harness import c10
    from symx import pysdc as sp_

    tol = rv(Fraction(1, 10**11))
    for qf in QUAD_TYPES:
        for qc in QUAD_TYPES:
            if min(Mf, Mc) < 2 and ('LOBATTO' in (qf, qc) or 'RADAU-LEFT' in (qf, qc)):
                continue
            name = f'timeobj/{Mf}-{Mc}/{qf}+{qc}'
            try:
                st = c10.make_step((Mf, Mc), 'implicit', False, qts=(qf, qc), qd='IE')
                bt = c10.connect(st)[0]
            except Exception as e:
                rep.side(name + ':constructible', False, f'{type(e).__name__}: {e}')
                continue
            fn, cn = np.asarray(st.levels[0].sweep.coll.nodes, dtype=float), np.asarray(st.levels[1].sweep.coll.nodes, dtype=float)
            for (T, src, dst, lab) in ((np.asarray(bt.Pcoll, dtype=float), cn, fn, 'prolong'), (np.asarray(bt.Rcoll, dtype=float), fn, cn, 'restrict')):
                ns = len(src)
                a = [z3.Real(f'a{k}') for k in range(ns)]
                pv = lambda x: sum(rv(frac(x) ** k) * a[k] for k in range(ns))
                goal = []
                for i in range(len(dst)):
                    got = sum(rv(T[i, j]) * pv(src[j]) for j in range(ns))
                    goal += [got - pv(dst[i]) <= tol, pv(dst[i]) - got <= tol]
                res, m = prove(z3.And(goal), box(a), name=f'{name}:{lab}')
                rep.ob(f'{name}:{lab}-of-the-object-exact-for-its-own-nodes', res)
                if res == 'sat':
                    coefs = [float(model_value(m, v)) for v in a]
                    rep.replayed += 1
                    dev = np.abs(T @ np.polyval(coefs[::-1], src) - np.polyval(coefs[::-1], dst)).max()
                    if dev > 1e-10:
                        rep.violation(f'{PID}/time-transfer/object/{lab}', f'{name}: the {lab} matrix held by the BaseTransfer object does not reproduce the polynomial {coefs} between ITS node sets (deviation {dev:.3e}; pairs built before in this process: same sizes, other quadrature types)',
                                      {'task': ['timeobj', Mf, Mc], 'pair': [qf, qc], 'coefficients': coefs, 'deviation': float(dev)})
                        return
                    rep.unreproduced(f'{name}:{lab}', coefs)
            # ... and the OPERATOR the object applies to data is that matrix: prolong() adds Pcoll (coarse correction) to every fine node value,
            # restrict() puts Rcoll (fine values) on every coarse node -- decided on arbitrary symbolic node values (identity in space)
            try:
                c_ = Ctx()
                Ctx.cur = c_
                try:
                    Lf, Lc = st.levels
                    Lf.status.time = Lc.status.time = 0.0
                    Pf, Pc = Lf.prob, Lc.prob
                    gv, fv = [], []
                    Lf.u[0], _ = sp_.fresh_mesh(Pf, 'f0')
                    Lf.f[0] = Pf.eval_f(Lf.u[0], 0.0)
                    for m_ in range(1, Mf + 1):
                        Lf.u[m_], v = sp_.fresh_mesh(Pf, f'f{m_}')
                        Lf.f[m_] = Pf.eval_f(Lf.u[m_], 0.0)
                        fv.append(v[0])
                    Lf.status.unlocked = True
                    bt.restrict()
                    restricted = [R(Lc.u[n_][0]) for n_ in range(1, Mc + 1)]
                    for n_ in range(1, Mc + 1):
                        Lc.u[n_], v = sp_.fresh_mesh(Pc, f'g{n_}')
                        gv.append(v[0])
                    before = [R(Lf.u[m_][0]) for m_ in range(1, Mf + 1)]
                    bt.prolong()
                    after = [R(Lf.u[m_][0]) for m_ in range(1, Mf + 1)]
                    uold = [R(Lc.uold[n_][0]) for n_ in range(1, Mc + 1)]
                finally:
                    Ctx.cur = None
                Pm, Rm = np.asarray(bt.Pcoll, dtype=float), np.asarray(bt.Rcoll, dtype=float)
                g1 = z3.And([restricted[n_] == sum(rv(Rm[n_, m_]) * fv[m_] for m_ in range(Mf)) for n_ in range(Mc)])
                g2 = z3.And([after[m_] - before[m_] == sum(rv(Pm[m_, n_]) * (gv[n_] - uold[n_]) for n_ in range(Mc)) for m_ in range(Mf)])
                for lab, g in (('restrict', g1), ('prolong', g2)):
                    res, m = prove(g, box(fv + gv), name=f'{name}:{lab}-applies-its-matrix')
                    rep.ob(f'{name}:{lab}-applies-its-matrix-to-every-node-value', res)
                    if res == 'sat':
                        rep.replayed += 1
                        vals = {str(v): float(model_value(m, v)) for v in fv + gv}
                        dev = timeobj_float(Mf, Mc, qf, qc, vals, lab)
                        if dev > 1e-10:
                            rep.violation(f'{PID}/time-transfer/object/{lab}-on-data', f'{name}: {lab}() of the BaseTransfer object does not apply its node-to-node matrix to the node values (deviation {dev:.3e} on the real float classes)',
                                          {'task': ['timeobj', Mf, Mc], 'pair': [qf, qc], 'values': vals, 'op': lab, 'deviation': dev})
                        else:
                            rep.unreproduced(f'{name}:{lab}-on-data', vals)
            except Exception as e:
                rep.side(name + ':operators-run-on-symbolic-data', False, f'{type(e).__name__}: {e}')


def timeobj_float(Mf, Mc, qf, qc, vals, lab):
    """the same on the real float classes: deviation of restrict() / prolong() of a real BaseTransfer from its own matrices applied to the node values"""
    from harness import c10
    from harness import sweepspec as ss

    st = c10.make_step((Mf, Mc), 'implicit', False, qts=(qf, qc), qd='IE', prob=ss.FLin, pparams={'A': np.array([[-1.0]])}, space=c10.FloatInjectT)
    bt = c10.connect(st)[0]
    Lf, Lc = st.levels
    Lf.status.time = Lc.status.time = 0.0
    Pf, Pc = Lf.prob, Lc.prob
    fvals = np.array([vals[f'f{m_}_0'] for m_ in range(1, Mf + 1)])
    gvals = np.array([vals[f'g{n_}_0'] for n_ in range(1, Mc + 1)])
    Lf.u[0] = Pf.dtype_u(Pf.init, val=0.5)
    Lf.f[0] = Pf.eval_f(Lf.u[0], 0.0)
    for m_ in range(1, Mf + 1):
        Lf.u[m_] = Pf.dtype_u(Pf.init, val=float(fvals[m_ - 1]))
        Lf.f[m_] = Pf.eval_f(Lf.u[m_], 0.0)
    Lf.status.unlocked = True
    bt.restrict()
    restricted = np.array([float(Lc.u[n_][0]) for n_ in range(1, Mc + 1)])
    Pm, Rm = np.asarray(bt.Pcoll, dtype=float), np.asarray(bt.Rcoll, dtype=float)
    if lab == 'restrict':
        return float(np.abs(restricted - Rm @ fvals).max())
    uold = np.array([float(Lc.uold[n_][0]) for n_ in range(1, Mc + 1)])
    for n_ in range(1, Mc + 1):
        Lc.u[n_] = Pc.dtype_u(Pc.init, val=float(gvals[n_ - 1]))
    bt.prolong()
    after = np.array([float(Lf.u[m_][0]) for m_ in range(1, Mf + 1)])
    return float(np.abs(after - fvals - Pm @ (gvals - uold)).max())


# ------------------------------------------------------------------------------------------------ space


class GridProb:
    """minimal problem object carrying what the real transfer classes read: nvars, dx, init (the grids are those of heatNd / advectionNd:
    x_i = (i+1) dx with dx = 1/(n+1) for Dirichlet, x_i = i dx with dx = 1/n for periodic)"""

    def __init__(self, nvars, periodic, dim, dtype=np.dtype('O')):
        if isinstance(nvars, (tuple, list)):  # different sizes per dimension (one mesh width, taken from the first dimension, as the transfer class reads it)
            shape = tuple(int(n) for n in nvars)
            nvars = shape[0]
        else:
            shape = (nvars,) * dim
        self.nvars = shape if dim > 1 else nvars
        self.dx = 1.0 / nvars if periodic else 1.0 / (nvars + 1)
        self.init = (shape if dim > 1 else nvars, None, dtype)
        self.n1 = nvars


def lagrange_oracle(nf, nc, order, periodic):
    """exact rational interpolation weights: fine point i from the `order` nearest coarse points (periodic images or the zero boundary values included).
    returns list over fine points of dict {coarse index: Fraction}"""
    W = []
    if periodic:
        xf = [Fraction(i, nf) for i in range(nf)]
        pts = [(Fraction(j, nc) + s, j) for s in (-1, 0, 1) for j in range(nc)]
    else:
        xf = [Fraction(i + 1, nf + 1) for i in range(nf)]
        pts = [(Fraction(j + 1, nc + 1), j) for j in range(nc)]
        # mirror padding of the coarse grid beyond the boundary is used by the helper to pick neighbours; the boundary itself carries value 0
        h = Fraction(1, nc + 1)
        pts += [(Fraction(0), None), (Fraction(1), None)]
        for t in range(1, order):
            pts += [(-t * h, ('L', t)), (1 + t * h, ('R', t))]
    for x in xf:
        hit = [p for p in pts if p[0] == x and p[1] is not None and not isinstance(p[1], tuple)]
        if hit:
            W.append({hit[0][1]: Fraction(1)})
            continue
        near = sorted(pts, key=lambda p: (abs(p[0] - x), p[0]))[:order]
        w = {}
        for (xk, jk) in near:
            lk = Fraction(1)
            for (xm, jm) in near:
                if xm != xk:
                    lk *= (x - xm) / (xk - xm)
            if jk is not None and not isinstance(jk, tuple):
                w[jk] = w.get(jk, Fraction(0)) + lk
            elif isinstance(jk, tuple):
                w[jk] = lk
        W.append(w)
    return W


def space_case(rep, nf, nc, order, periodic, nested, dim, dtype_name):
    nfs = tuple(nf) if isinstance(nf, (tuple, list)) else (nf,) * dim
    ncs = tuple(nc) if isinstance(nc, (tuple, list)) else (nc,) * dim
    name = f'space/{"x".join(map(str, nfs)) if isinstance(nf, (tuple, list)) else nf}-{"x".join(map(str, ncs)) if isinstance(nc, (tuple, list)) else nc}/o{order}/{"periodic" if periodic else "dirichlet"}/nested{int(nested)}/dim{dim}/{dtype_name}'
    fp, cp = GridProb(nf, periodic, dim), GridProb(nc, periodic, dim)
    try:
        T = mesh_to_mesh(fp, cp, {'periodic': periodic, 'equidist_nested': nested, 'iorder': order, 'rorder': order})
    except Exception as e:
        rep.extra['grid_not_wide_enough'] = rep.extra.get('grid_not_wide_enough', 0) + 1
        return
    P1 = None
    Pd, Rd = np.asarray(T.Pspace.todense(), dtype=float), np.asarray(T.Rspace.todense(), dtype=float)
    T.Pspace, T.Rspace = sp.DenseDot(Pd), sp.DenseDot(Rd)
    tol = rv(Fraction(1, 10**12))
    cls = mesh if dtype_name == 'mesh' else imex_mesh
    ncomp = 1 if dtype_name == 'mesh' else 2
    Nc, Nf = int(np.prod(ncs)), int(np.prod(nfs))
    # arbitrary symbolic coarse data (per component different variables)
    gv = [[z3.Real(f'g{c}_{j}') for j in range(Nc)] for c in range(ncomp)]
    G = cls(cp.init)
    if ncomp == 1:
        G[:] = np.array([SymReal(v) for v in gv[0]], dtype=object).reshape(G.shape)
    else:
        for c in range(ncomp):
            G[c][:] = np.array([SymReal(v) for v in gv[c]], dtype=object).reshape(G[c].shape)
    F = T.prolong(G)
    rep.side(f'{name}:prolong-preserves-type-and-shape', type(F) is cls and F.shape == ((ncomp,) if ncomp > 1 else ()) + nfs)
    # value semantics: a later application to other data does not change (or share memory with) an earlier result
    keep = [R(x) for x in np.asarray(F).ravel()]
    G2 = cls(cp.init)
    G2[...] = np.array([SymReal(z3.Real(f'h{j}')) for j in range(int(np.prod(G2.shape)))], dtype=object).reshape(G2.shape)
    F2 = T.prolong(G2)
    rep.side(f'{name}:prolong-result-not-changed-by-later-call', F2 is not F and not np.shares_memory(np.asarray(F), np.asarray(F2)) and all(a.eq(R(b)) for a, b in zip(keep, np.asarray(F).ravel())))
    # oracle: tensor product of the exact 1-D Lagrange weights
    WA = [lagrange_oracle(nfs[d], ncs[d], order, periodic) for d in range(dim)]
    W1 = WA[0]
    ghost_free = all(not isinstance(k, tuple) for W_ in WA for w in W_ for k in w)
    goal = []
    if ghost_free:
        for c in range(ncomp):
            Fc = np.asarray(F if ncomp == 1 else F[c]).reshape(nfs)
            Gc = np.array(gv[c], dtype=object).reshape(ncs)
            for idx in itertools.product(*[range(n) for n in nfs]):
                spec = z3.RealVal(0)
                for combo in itertools.product(*[list(WA[d][i].items()) for d, i in enumerate(idx)]):
                    wgt = Fraction(1)
                    j = []
                    for (jk, wk) in combo:
                        wgt *= wk
                        j.append(jk)
                    if wgt != 0:
                        spec = spec + rv(wgt) * Gc[tuple(j)]
                got = R(Fc[idx])
                goal += [got - spec <= tol, spec - got <= tol]
        res, m = prove(z3.And(goal), box([v for g in gv for v in g]), timeout_ms=120000, name=f'{name}:prolong-is-lagrange-through-nearest-points')
        rep.ob(f'{name}:prolong-is-lagrange-through-nearest-points', res)
        if res == 'sat':
            space_triage(rep, name, nf, nc, order, periodic, nested, dim, Pd, WA if isinstance(nf, (tuple, list)) else W1, 'lagrange')
    else:
        rep.extra['oracle_needs_mirror_points'] = rep.extra.get('oracle_needs_mirror_points', 0) + 1
    # what the property promises in terms of functions: constants on periodic grids; polynomials of degree < order vanishing on the boundary on Dirichlet grids
    if dim == 1:
        if periodic:
            cst = z3.Real('c')
            Gc = cls(cp.init)
            Gc[:] = SymReal(cst)
            Fc = T.prolong(Gc)
            res, m = prove(z3.And([z3.And(R(x) - cst <= tol, cst - R(x) <= tol) for x in np.asarray(Fc).ravel()]), box([cst]), name=f'{name}:constants-preserved')
            rep.ob(f'{name}:constants-preserved', res)
            if res == 'sat':
                space_triage(rep, name, nf, nc, order, periodic, nested, dim, Pd, W1, 'constants')
        else:
            deg = order - 1
            if deg >= 2:
                q = [z3.Real(f'q{k}') for k in range(deg - 1)]
                pol = lambda x: rv(x * (1 - x)) * sum(rv(x**k) * q[k] for k in range(deg - 1))
                xc = [Fraction(j + 1, nc + 1) for j in range(nc)]
                xf = [Fraction(i + 1, nf + 1) for i in range(nf)]
                Gp = mesh(cp.init)
                Gp[:] = np.array([SymReal(pol(x)) for x in xc], dtype=object)
                Fp = T.prolong(Gp)
                res, m = prove(z3.And([z3.And(R(Fp[i]) - pol(xf[i]) <= tol, pol(xf[i]) - R(Fp[i]) <= tol) for i in range(nf)]), box(q), name=f'{name}:boundary-vanishing-polynomials-reproduced')
                rep.ob(f'{name}:boundary-vanishing-polynomials-reproduced', res)
                if res == 'sat':
                    space_triage(rep, name, nf, nc, order, periodic, nested, dim, Pd, W1, 'polynomials')
    # restriction is half the transpose of the interpolation, applied per component
    fv = [[z3.Real(f'f{c}_{j}') for j in range(Nf)] for c in range(ncomp)]
    Fm = cls(fp.init)
    if ncomp == 1:
        Fm[:] = np.array([SymReal(v) for v in fv[0]], dtype=object).reshape(Fm.shape)
    else:
        for c in range(ncomp):
            Fm[c][:] = np.array([SymReal(v) for v in fv[c]], dtype=object).reshape(Fm[c].shape)
    Gr = T.restrict(Fm)
    rep.side(f'{name}:restrict-preserves-type-and-shape', type(Gr) is cls and Gr.shape == ((ncomp,) if ncomp > 1 else ()) + ncs)
    goal = []
    for c in range(ncomp):
        Gc = np.asarray(Gr if ncomp == 1 else Gr[c]).ravel()
        for j in range(Nc):
            spec = sum(rv(frac(Pd[i, j]) / 2**dim) * fv[c][i] for i in range(Nf) if Pd[i, j] != 0)
            goal += [R(Gc[j]) - spec <= tol, spec - R(Gc[j]) <= tol]
    res, m = prove(z3.And(goal), box([v for f in fv for v in f]), timeout_ms=120000, name=f'{name}:restriction-is-scaled-transpose')
    rep.ob(f'{name}:restriction-is-scaled-transpose', res)
    if res == 'sat':
        rep.replayed += 1
        dev = np.abs(Rd - Pd.T / 2**dim).max()
        if dev > 1e-12:
            rep.violation(f'{PID}/space-transfer/restriction', f'{name}: |R - P^T / 2^dim| = {dev:.3e}', {'task': ['space', nf, nc, order, periodic, nested, dim, dtype_name], 'deviation': float(dev)})
        else:
            rep.unreproduced(f'{name}:restriction', float(dev))
    rep.sample({'case': name, 'free': f'{Nc * ncomp} coarse values / {Nf * ncomp} fine values in the unit box'}, limit=6)


def space_triage(rep, name, nf, nc, order, periodic, nested, dim, Pd, W1, clause):
    rep.replayed += 1
    WA = W1 if isinstance(nf, (tuple, list)) else [W1] * dim
    On = None
    for d in range(dim):
        O = np.zeros((len(WA[d]), (nc[d] if isinstance(nc, (tuple, list)) else nc)))
        for i, w in enumerate(WA[d]):
            for j, v in w.items():
                if not isinstance(j, tuple):
                    O[i, j] = float(v)
        On = O if On is None else np.kron(On, O)
    dev = np.abs(Pd - On).max()
    if dev > 1e-10:
        i, j = np.unravel_index(np.abs(Pd - On).argmax(), Pd.shape)
        tight = periodic and (nc == order if not isinstance(nc, (tuple, list)) else order in nc)
        key = (f'{PID}/periodic-interpolation/coarse-grid-as-wide-as-stencil/o{order}' if tight else
               f'{PID}/space-transfer/{"periodic" if periodic else "dirichlet"}/nested{int(nested)}/{clause}')
        rep.violation(key,
                      f'{name}: interpolation weight of fine point {i} from coarse point {j} is {Pd[i, j]!r}, Lagrange interpolation through the {order} nearest points gives {On[i, j]!r}',
                      {'task': ['space', nf, nc, order, periodic, nested, dim, 'mesh'], 'row': int(i), 'observed_row': Pd[i].tolist(), 'expected_row': On[i].tolist()})
    else:
        rep.unreproduced(f'{name}:{clause}', float(dev))


def restr_oracle(fine, p, k, periodic):
    """exact weights of the value at p of the polynomial of degree k-1 through the k nearest fine points (periodic images / the mirror-padded boundary
    point, which carries the value 0, included); None if the k nearest points are not unique"""
    xf = [Fraction(float(x)) for x in fine]
    p = Fraction(float(p))
    if periodic:
        pts = [(x + s_, j) for s_ in (-1, 0, 1) for j, x in enumerate(xf)]
    else:
        pts = [(x, j) for j, x in enumerate(xf)] + [(2 * xf[0] - xf[1], None), (2 * xf[-1] - xf[-2], None)]
    srt = sorted(pts, key=lambda q: abs(q[0] - p))
    if len(srt) > k and abs(srt[k][0] - p) == abs(srt[k - 1][0] - p) and abs(srt[0][0] - p) != 0:
        return None
    near = srt[:k]
    hit = [q for q in near if q[0] == p]
    if hit:
        return {hit[0][1]: Fraction(1)} if hit[0][1] is not None else {}
    w = {}
    for (xk, jk) in near:
        lk = Fraction(1)
        for (xm, jm) in near:
            if xm != xk:
                lk *= (p - xm) / (xk - xm)
        if jk is not None:
            w[jk] = w.get(jk, Fraction(0)) + lk
    return w


def restr_case(rep, nf, nc, k, periodic, shifted):
    """transfer_helper.restriction_matrix_1d (named by the property, not used by the shipped transfer classes): each restricted value is the value of the
    degree k-1 polynomial through the k nearest fine points"""
    name = f'restr/{nf}-{nc}/o{k}/{"periodic" if periodic else "dirichlet"}/{"shifted" if shifted else "nested"}'
    if periodic:
        fine = np.array([i / nf for i in range(nf)])
        coarse = np.array([j / nc for j in range(nc)])
    else:
        fine = np.array([(i + 1) / (nf + 1) for i in range(nf)])
        coarse = np.array([(j + 1) / (nc + 1) for j in range(nc)])
    if shifted:
        coarse = coarse + 0.3 * (fine[1] - fine[0])  # coarse points strictly between fine points
        coarse = coarse[coarse < (1.0 if periodic else fine[-1])]
    M = np.asarray(th.restriction_matrix_1d(fine, coarse, k=k, periodic=periodic, pad=1).toarray(), dtype=float)
    u = [z3.Real(f'u{j}') for j in range(nf)]
    tol = rv(Fraction(1, 10**10))
    skipped = 0
    for i, pt in enumerate(coarse):
        w = restr_oracle(fine, pt, k, periodic)
        if w is None:
            skipped += 1
            continue
        got = sum(rv(M[i, j]) * u[j] for j in range(nf) if M[i, j] != 0) if np.any(M[i] != 0) else rv(0)
        ex = sum(rv(w[j]) * u[j] for j in w) if w else rv(0)
        res, m = prove(z3.And(got - ex <= tol, ex - got <= tol), box(u), name=f'{name}/row{i}:lagrange')
        rep.ob(f'{name}/row{i}:lagrange', res)
        if res == 'sat':
            rep.replayed += 1
            uv = np.array([float(model_value(m, v)) for v in u])
            dev = abs(float(M[i] @ uv) - float(sum(float(w[j]) * uv[j] for j in w)))
            if dev > 1e-10:
                rep.violation(f'{PID}/restriction-matrix/{"periodic" if periodic else "dirichlet"}/lagrange', f'{name}: restricted value at coarse point {i} ({pt}) is {float(M[i] @ uv)!r}, Lagrange interpolation through '
                              f'the {k} nearest fine points gives {float(sum(float(w[j]) * uv[j] for j in w))!r} for data {uv.tolist()}',
                              {'task': ['restr', nf, nc, k, periodic, shifted], 'row': i, 'u': uv.tolist(), 'deviation': dev})
                return
            rep.unreproduced(f'{name}/row{i}', dev)
    rep.extra['restr_rows_skipped_for_ties'] = rep.extra.get('restr_rows_skipped_for_ties', 0) + skipped
    rep.sample({'case': name, 'free': 'fine grid data in the unit box'}, limit=2)


def restrorder_case(rep, nf, nc, iorder, rorder, periodic, dim):
    """restriction with its own order: order 0 is injection (the coincident fine value, factor 1), order r > 0 is 0.5^dim times the transpose of the
    order-r interpolation (taken from a second real transfer object whose interpolation is checked against the Lagrange rule elsewhere)"""
    name = f'restrorder/{nf}-{nc}/i{iorder}/r{rorder}/{"periodic" if periodic else "dirichlet"}/dim{dim}'
    fp, cp = GridProb(nf, periodic, dim), GridProb(nc, periodic, dim)
    T = mesh_to_mesh(fp, cp, {'periodic': periodic, 'equidist_nested': True, 'iorder': iorder, 'rorder': rorder})
    Rd = np.asarray(T.Rspace.todense(), dtype=float)
    T.Pspace, T.Rspace = sp.DenseDot(np.asarray(T.Pspace.todense(), dtype=float)), sp.DenseDot(Rd)
    Nf, Nc = nf**dim, nc**dim
    fv = [z3.Real(f'f{j}') for j in range(Nf)]
    Fm = mesh(fp.init)
    Fm[:] = np.array([SymReal(v) for v in fv], dtype=object).reshape(Fm.shape)
    Gr = np.asarray(T.restrict(Fm)).reshape((nc,) * dim)
    tol = rv(Fraction(1, 10**12))
    goal = []
    if rorder == 0:
        Fv = np.array(fv, dtype=object).reshape((nf,) * dim)
        for idx in itertools.product(range(nc), repeat=dim):
            fi = tuple((2 * j if periodic else 2 * j + 1) for j in idx)  # the fine point that coincides with the coarse point
            goal += [R(Gr[idx]) - Fv[fi] <= tol, Fv[fi] - R(Gr[idx]) <= tol]
        spec_R = None
    else:
        T2 = mesh_to_mesh(fp, cp, {'periodic': periodic, 'equidist_nested': True, 'iorder': rorder, 'rorder': rorder})
        spec_R = np.asarray(T2.Pspace.todense(), dtype=float).T / 2**dim
        Gf = Gr.ravel()
        for j in range(Nc):
            spec = sum((rv(spec_R[j, i]) * fv[i] for i in range(Nf) if spec_R[j, i] != 0), rv(0))
            goal += [R(Gf[j]) - spec <= tol, spec - R(Gf[j]) <= tol]
    res, m = prove(z3.And(goal), box(fv), timeout_ms=120000, name=f'{name}:restriction-of-its-own-order')
    rep.ob(f'{name}:restriction-of-its-own-order', res)
    if res == 'sat':
        rep.replayed += 1
        if rorder == 0:
            sel = np.zeros((Nc, Nf))
            for jj, idx in enumerate(itertools.product(range(nc), repeat=dim)):
                fi = tuple((2 * j if periodic else 2 * j + 1) for j in idx)
                sel[jj, int(np.ravel_multi_index(fi, (nf,) * dim))] = 1.0
            dev = float(np.abs(Rd - sel).max())
        else:
            dev = float(np.abs(Rd - spec_R).max())
        if dev > 1e-12:
            rep.violation(f'{PID}/space-transfer/restriction-order/{"injection" if rorder == 0 else "transpose"}/dim{dim}', f'{name}: the restriction matrix deviates from ' + ('injection' if rorder == 0 else f'0.5^{dim} x the transpose of the order-{rorder} interpolation') + f' by {dev:.3e}',
                          {'task': ['restrorder', nf, nc, iorder, rorder, periodic, dim], 'deviation': dev})
        else:
            rep.unreproduced(name, dev)
    rep.sample({'case': name, 'free': f'{Nf} fine values in the unit box'}, limit=2)


def fft_transfer_case(rep, nf, nc, dim):
    """FFT based transfers: prolongation / restriction are linear, their matrices are read off the REAL classes by feeding unit vectors (numpy FFT runs
    concretely); the solver decides over all coarse data that injection after prolongation returns the coarse data and that every band-limited
    trigonometric polynomial (modes below the coarse Nyquist frequency, arbitrary coefficients) is reproduced on the fine grid"""
    from pySDC.implementations.transfer_classes.TransferMesh_FFT import mesh_to_mesh_fft
    from pySDC.implementations.transfer_classes.TransferMesh_FFT2D import mesh_to_mesh_fft2d

    name = f'ffttransfer/{nf}-{nc}/dim{dim}'
    fp, cp = GridProb(nf, True, dim, np.dtype('float64')), GridProb(nc, True, dim, np.dtype('float64'))
    T = (mesh_to_mesh_fft if dim == 1 else mesh_to_mesh_fft2d)(fp, cp, {})
    rep.func(type(T).restrict, type(T).prolong)
    shape_c, shape_f = (nc,) * dim, (nf,) * dim
    ncs, nfs = nc**dim, nf**dim

    def unit(init, i, shape):
        m = mesh(init, val=0.0)
        m.flat[i] = 1.0
        return m

    Pm = np.array([np.asarray(T.prolong(unit(cp.init, i, shape_c))).ravel() for i in range(ncs)]).T
    Rm = np.array([np.asarray(T.restrict(unit(fp.init, i, shape_f))).ravel() for i in range(nfs)]).T
    tol = rv(Fraction(1, 10**10))

    def mv(Mx, v):
        return [sum((rv(Mx[i, j]) * v[j] for j in range(Mx.shape[1]) if Mx[i, j] != 0), rv(0)) for i in range(Mx.shape[0])]

    # band-limited data: modes |k| < nc/2 per direction, arbitrary coefficients
    ks = list(range(-(nc // 2) + 1, nc // 2))
    modes = list(itertools.product(ks, repeat=dim))
    coef = [(z3.Real(f'a{i}'), z3.Real(f'b{i}')) for i in range(len(modes))]

    def values(n):
        pts = list(itertools.product(range(n), repeat=dim))
        out = []
        for pt in pts:
            t = rv(0)
            for (a, b), kk in zip(coef, modes):
                ph = 2 * np.pi * sum(k_ * x_ / n for k_, x_ in zip(kk, pt))
                t = t + rv(float(np.cos(ph))) * a + rv(float(np.sin(ph))) * b
            out.append(t)
        return out

    cvals, fvals = values(nc), values(nf)
    allc = [v for ab in coef for v in ab]
    # injection after prolongation returns the coarse data (band-limited data: the property speaks of such data; what happens to the coarse Nyquist
    # mode, which the 1-D class moves to the fine Nyquist frequency, is not claimed)
    back = mv(Rm, mv(Pm, cvals))
    res, m = prove(z3.And([z3.And(a - b <= tol * len(modes), b - a <= tol * len(modes)) for a, b in zip(back, cvals)]), box(allc), name=f'{name}:injection-after-prolongation')
    rep.ob(f'{name}:injection-after-prolongation', res)
    if res == 'sat':
        rep.replayed += 1
        rep.violation(f'{PID}/fft-transfer/injection-after-prolongation/dim{dim}', f'{name}: restrict(prolong(g)) differs from g for band-limited g with coefficients {[float(model_value(m, v)) for v in allc]}',
                      {'task': ['ffttransfer', nf, nc, dim]})
    res, m = prove(z3.And([z3.And(a - b <= tol * len(modes), b - a <= tol * len(modes)) for a, b in zip(mv(Pm, cvals), fvals)]), box(allc), name=f'{name}:band-limited-data-reproduced')
    rep.ob(f'{name}:band-limited-data-reproduced', res)
    if res == 'sat':
        rep.replayed += 1
        cv = {str(v): float(model_value(m, v)) for v in allc}

        def fvals_(n):
            grid = np.stack(np.meshgrid(*[np.arange(n) / n] * dim, indexing='ij'), axis=-1)
            out = np.zeros((n,) * dim)
            for i, kk in enumerate(modes):
                ph = 2 * np.pi * (grid @ np.array(kk))
                out += cv[f'a{i}'] * np.cos(ph) + cv[f'b{i}'] * np.sin(ph)
            return out

        Gm = mesh(cp.init, val=0.0)
        Gm[:] = fvals_(nc)
        dev = float(np.abs(np.asarray(T.prolong(Gm)) - fvals_(nf)).max())
        if dev > 1e-9:
            rep.violation(f'{PID}/fft-transfer/band-limited/dim{dim}', f'{name}: band-limited data is not reproduced by the prolongation, deviation {dev:.3e}', {'task': ['ffttransfer', nf, nc, dim], 'coefficients': cv})
        else:
            rep.unreproduced(f'{name}:band-limited', dev)
    # data type and component structure: multi-component meshes go through per component and keep their type
    for lab, fn, src, ref in (('restrict', T.restrict, fp, Rm), ('prolong', T.prolong, cp, Pm)):
        rng = np.random.RandomState(rep.seed + 11)
        X = imex_mesh(src.init, val=0.0)
        X.impl[:] = rng.rand(*X.impl.shape)
        X.expl[:] = rng.rand(*X.expl.shape)
        try:
            Y = fn(X)
            ok = isinstance(Y, imex_mesh) and np.allclose(np.asarray(Y.impl).ravel(), ref @ np.asarray(X.impl).ravel(), atol=1e-12) and np.allclose(np.asarray(Y.expl).ravel(), ref @ np.asarray(X.expl).ravel(), atol=1e-12)
            # value semantics of the result: a second application (other data) leaves the first result untouched, for both data types
            for cls_ in (imex_mesh, mesh):
                A1 = cls_(src.init, val=0.0)
                A1[...] = rng.rand(*A1.shape)
                A2 = cls_(src.init, val=0.0)
                A2[...] = rng.rand(*A2.shape)
                Y1 = fn(A1)
                keep = np.array(Y1).tobytes()
                Y2 = fn(A2)
                rep.side(f'{name}:{lab}/{cls_.__name__}/result-not-changed-by-later-call', Y1 is not Y2 and np.array(Y1).tobytes() == keep and not np.shares_memory(np.asarray(Y1), np.asarray(Y2)))
            if not ok:
                rep.violation(f'{PID}/fft-transfer/imex_mesh/{lab}/dim{dim}', f'{name}: {lab} of an imex_mesh returns {type(Y).__name__} / does not act per component', {'task': ['ffttransfer', nf, nc, dim], 'op': lab})
        except Exception as e:
            rep.violation(f'{PID}/fft-transfer/imex_mesh/{lab}/dim{dim}', f'{name}: {lab} of an imex_mesh raises {type(e).__name__}: {str(e)[:120]}', {'task': ['ffttransfer', nf, nc, dim], 'op': lab})
    rep.sample({'case': name, 'free': 'coarse data / coefficients of all modes below the coarse Nyquist frequency in the unit box'}, limit=2)


def nocoarse_case(rep):
    """identity transfers: the value is copied, the argument is not aliased, type preserved (executed on symbolic data)"""
    from pySDC.implementations.transfer_classes.TransferMesh_NoCoarse import mesh_to_mesh as nocoarse

    p = GridProb(4, True, 1)
    T = nocoarse(p, p, {})
    for cls in (mesh, imex_mesh):
        G = cls(p.init)
        vs = [z3.Real(f'n{i}') for i in range(int(np.prod(G.shape)))]
        G[:] = np.array([SymReal(v) for v in vs], dtype=object).reshape(G.shape)
        for op in (T.restrict, T.prolong):
            F = op(G)
            same = all(R(a).eq(R(b)) for a, b in zip(np.asarray(F).ravel(), np.asarray(G).ravel()))
            rep.side(f'nocoarse/{cls.__name__}/{op.__name__}', same and type(F) is cls and F is not G)


def _ncomp_transfers(nf, nc, order, periodic, dim, layout, dtype):
    """the real transfer object for a problem with two components (component index first or last) and the one for the scalar problem on the same grids"""
    par = {'periodic': periodic, 'equidist_nested': True, 'iorder': order, 'rorder': order}
    fp, cp = GridProb(nf, periodic, dim, dtype), GridProb(nc, periodic, dim, dtype)
    T0 = mesh_to_mesh(fp, cp, par)
    fpN, cpN = GridProb(nf, periodic, dim, dtype), GridProb(nc, periodic, dim, dtype)
    for p_, n_ in ((fpN, nf), (cpN, nc)):
        p_.ncomp = 2
        shape = (n_,) * dim
        p_.init = (((2,) + shape) if layout == 'first' else (shape + (2,)), None, dtype)
    TN = mesh_to_mesh(fpN, cpN, par)
    return T0, TN, fp, cp, fpN, cpN


def _ncomp_apply(T0, TN, fp, cp, fpN, cpN, layout, dtype_name, op, vals, wrap):
    """(multi-component result per component and part, scalar results per component and part) of prolongation / restriction of the data vals[part][comp][j]"""
    cls = mesh if dtype_name == 'mesh' else imex_mesh
    parts = 1 if dtype_name == 'mesh' else 2
    src, srcN = (cp, cpN) if op == 'prolong' else (fp, fpN)
    sel = (lambda A, c: A[c, ...]) if layout == 'first' else (lambda A, c: A[..., c])
    X = cls(srcN.init)
    for q in range(parts):
        Xq = X if parts == 1 else X[q]
        for c in range(2):
            sel(Xq, c)[...] = np.array([wrap(v) for v in vals[q][c]], dtype=object if wrap is not float else float).reshape(sel(Xq, c).shape)
    Y = TN.prolong(X) if op == 'prolong' else TN.restrict(X)
    multi, single = [], []
    for q in range(parts):
        Yq = Y if parts == 1 else Y[q]
        for c in range(2):
            multi.append(list(np.asarray(sel(np.asarray(Yq), c)).ravel()))
            xs = mesh(src.init)
            xs[...] = np.array([wrap(v) for v in vals[q][c]], dtype=object if wrap is not float else float).reshape(xs.shape)
            ys = T0.prolong(xs) if op == 'prolong' else T0.restrict(xs)
            single.append(list(np.asarray(ys).ravel()))
    return Y, multi, single


def ncomp_case(rep, nf, nc, order, periodic, dim, layout, dtype_name):
    """problems with several components (attribute ncomp; component index first, as the Brusselator stores them, or last): the real transfer acts on every
    component exactly as the transfer of the scalar problem does (which the 'space' cases pin to the Lagrange weights), and keeps type and shape"""
    name = f'ncomp/{nf}-{nc}/o{order}/{"periodic" if periodic else "dirichlet"}/dim{dim}/component-{layout}/{dtype_name}'
    T0, TN, fp, cp, fpN, cpN = _ncomp_transfers(nf, nc, order, periodic, dim, layout, np.dtype('O'))
    for T in (T0, TN):
        T.Pspace, T.Rspace = sp.DenseDot(np.asarray(T.Pspace.todense(), dtype=float)), sp.DenseDot(np.asarray(T.Rspace.todense(), dtype=float))
    parts = 1 if dtype_name == 'mesh' else 2
    tol = rv(Fraction(1, 10**12))
    for op, n_ in (('prolong', nc), ('restrict', nf)):
        N = n_**dim
        vs = [[[z3.Real(f'v{q}_{c}_{j}') for j in range(N)] for c in range(2)] for q in range(parts)]
        Y, multi, single = _ncomp_apply(T0, TN, fp, cp, fpN, cpN, layout, dtype_name, op, vs, SymReal)
        dst = fpN if op == 'prolong' else cpN
        rep.side(f'{name}:{op}-preserves-type-and-shape', type(Y).__name__ == dtype_name and tuple(Y.shape) == ((2,) if parts == 2 else ()) + tuple(dst.init[0]))
        goal = []
        for a, b in zip(multi, single):
            for x, y in zip(a, b):
                goal += [R(x) - R(y) <= tol, R(y) - R(x) <= tol]
        allv = [v for q in vs for c in q for v in c]
        res, m = prove(z3.And(goal), box(allv), timeout_ms=120000, name=f'{name}:{op}-acts-per-component')
        rep.ob(f'{name}:{op}-acts-per-component', res)
        if res == 'sat':
            rep.replayed += 1
            vals = [[[float(model_value(m, v)) for v in c] for c in q] for q in vs]
            dev = ncomp_float(nf, nc, order, periodic, dim, layout, dtype_name, op, vals)
            if dev > 1e-10:
                rep.violation(f'{PID}/component-structure/{op}/component-{layout}', f'{name}: {op} of a two-component field differs from the {op} of its components by {dev:.3e} on the real float classes',
                              {'task': ['ncomp', nf, nc, order, periodic, dim, layout, dtype_name], 'op': op, 'values': vals})
            else:
                rep.unreproduced(f'{name}:{op}', {'values': vals, 'dev': dev})


def ncomp_float(nf, nc, order, periodic, dim, layout, dtype_name, op, vals):
    T0, TN, fp, cp, fpN, cpN = _ncomp_transfers(nf, nc, order, periodic, dim, layout, np.dtype('float64'))
    _, multi, single = _ncomp_apply(T0, TN, fp, cp, fpN, cpN, layout, dtype_name, op, vals, float)
    return max(float(np.abs(np.array(a, dtype=float) - np.array(b, dtype=float)).max()) for a, b in zip(multi, single))


def replay(path):
    d = json.load(open(path))['replay']
    t = d['task']
    if t[0] == 'ncomp':
        dev = ncomp_float(*t[1:], d['op'], d['values'])
        print(d['op'], 'of the two-component field vs. of its components: deviation', dev)
        bad = dev > 1e-10
    elif t[0] == 'timeobj' and d.get('op'):
        dev = timeobj_float(t[1], t[2], d['pair'][0], d['pair'][1], d['values'], d['op'])
        print(d['op'] + '() of the real BaseTransfer object vs. its own matrix applied to the node values: deviation', dev)
        bad = dev > 1e-10
    elif t[0] == 'space':
        fp, cp = GridProb(t[1], t[4], t[6], np.dtype('float64')), GridProb(t[2], t[4], t[6], np.dtype('float64'))
        T = mesh_to_mesh(fp, cp, {'periodic': t[4], 'equidist_nested': t[5], 'iorder': t[3], 'rorder': t[3]})
        row = np.asarray(T.Pspace.todense())[d['row']]
        print('observed row', row.tolist())
        print('expected row', d['expected_row'])
        bad = np.abs(row - np.array(d['expected_row'])).max() > 1e-10
    elif t[0] == 'restr':
        _, nf, nc, k, periodic, shifted = t
        fine = np.array([i / nf for i in range(nf)]) if periodic else np.array([(i + 1) / (nf + 1) for i in range(nf)])
        coarse = np.array([j / nc for j in range(nc)]) if periodic else np.array([(j + 1) / (nc + 1) for j in range(nc)])
        if shifted:
            coarse = coarse + 0.3 * (fine[1] - fine[0])
            coarse = coarse[coarse < (1.0 if periodic else fine[-1])]
        M = np.asarray(th.restriction_matrix_1d(fine, coarse, k=k, periodic=periodic, pad=1).toarray(), dtype=float)
        w = restr_oracle(fine, coarse[d['row']], k, periodic)
        uv = np.array(d['u'])
        got, ex = float(M[d['row']] @ uv), float(sum(float(w[j]) * uv[j] for j in w))
        print('restricted value', got, 'Lagrange value', ex)
        bad = abs(got - ex) > 1e-10
    else:
        print(d)
        bad = True
    print('REPRODUCED' if bad else 'not reproduced')
    return 1 if bad else 0

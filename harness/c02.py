"""C02 -- one sweep equals one preconditioned Picard iteration of the sweeper's matrices.

The real update_nodes / integrate / compute_end_point run on arbitrary symbolic node values, tau, dt and problem
coefficients; the result terms must satisfy the algebraic iteration (one validity query per clause).
"""
import random

import numpy as np
import z3

from symx import core
from symx import pysdc as sp
from symx.core import SymReal, R, rv, frac, explore, prove, satisfiable, evalf
from harness import common as cm
from harness import sweepspec as ss

PID = 'C02'
BOUNDS = {'quick': dict(M='1..4', quad_types=4, node_families=2, preconditioners='IE LU MIN-SR-S PIC EE + k-dependent k<=3', unknowns='1 (2 for coupled cases)', rk_classes='all', verlet_M='2..3'), 'thorough': dict(M='1..6', quad_types=4, node_families=6, preconditioners='all qmat names', k_dependent='k<=6', unknowns='1..2')}

SWEEPERS = {}


def _load():
    if SWEEPERS:
        return
    from pySDC.implementations.sweeper_classes.generic_implicit import generic_implicit
    from pySDC.implementations.sweeper_classes.explicit import explicit
    from pySDC.implementations.sweeper_classes.imex_1st_order import imex_1st_order
    from pySDC.implementations.sweeper_classes.imex_1st_order_mass import imex_1st_order_mass
    from pySDC.implementations.sweeper_classes.multi_implicit import multi_implicit

    SWEEPERS.update(generic_implicit=generic_implicit, explicit=explicit, imex_1st_order=imex_1st_order,
                    imex_1st_order_mass=imex_1st_order_mass, multi_implicit=multi_implicit)


COEF_NAMES = {
    'generic_implicit': ['A'], 'explicit': ['A'], 'imex_1st_order': ['AI', 'AE'], 'imex_1st_order_mass': ['AI', 'AE'],
    'multi_implicit': ['A1', 'A2'],
}
QD_KEYS = {
    'generic_implicit': ['QI'], 'explicit': ['QE'], 'imex_1st_order': ['QI', 'QE'],
    'imex_1st_order_mass': ['QI', 'QE'], 'multi_implicit': ['Q1', 'Q2'],
}


def describe(rep):
    _load()
    from pySDC.core.sweeper import Sweeper

    for k, cls in SWEEPERS.items():
        rep.func(cls.update_nodes, cls.integrate, cls.compute_end_point)
    rep.func(Sweeper.get_Qdelta_implicit, Sweeper.get_Qdelta_explicit, Sweeper.updateVariableCoeffs)
    from pySDC.projects.DAE.sweepers.fullyImplicitDAE import FullyImplicitDAE
    from pySDC.projects.DAE.sweepers.semiImplicitDAE import SemiImplicitDAE

    rep.func(FullyImplicitDAE.update_nodes, FullyImplicitDAE.F, SemiImplicitDAE.update_nodes, SemiImplicitDAE.integrate, SemiImplicitDAE.F)
    rep.explanation = (
        'Real update_nodes/integrate/compute_end_point of each sweeper executed on numpy object meshes whose entries are '
        'z3 real terms: u0, all old node values, tau, dt and the problem coefficients are free variables. Per '
        'configuration and clause one validity query (negation must be unsat, QF_NRA): the new node values satisfy '
        '(I - dt QD x A) U_new = u0 + dt (Q-QD) x A U_old + tau (and the IMEX / mass / multi-implicit / RK stage / '
        'second-order forms), integrate() = dt Q F(U), end point = copy or u0 + dt w^T F(U) + tau. The configuration '
        '(sweeper class, node set, preconditioner name, sweep index) is enumerated; all numeric data are solved for.'
    )
    rep.rule = ('one case = (sweeper, M, node family, quadrature type, preconditioner(s), tau on/off, end-point mode, n, '
                'sweep index k); non-trivial = the validity query has free variables and is not decided by simplification')
    rep.assume(
        'real arithmetic stands for float64 arithmetic on the data path; float constants of the tables are taken at their exact rational value',
        'problem stub: linear right-hand side with symbolic coefficients, solve_system is the exact algebraic solve (denominators assumed non-zero)',
        'spec matrices are the ones the sweeper object holds (Q, QI, QE, Q1, Q2); their zero padding and agreement with a fresh qmat generator are concrete side conditions (also after other names were requested and after the sweeper was re-initialised in place to another node set)',
        'dt > 0',
    )
    rep.out_of_scope('boris_2nd_order / Runge_Kutta_Nystrom with a magnetic field (the rotation lives in the problem class boris_solver; the harness problem has B = 0), the implicit Velocity_Verlet tableau of the Nystrom sweeper, DAE sweepers beyond the linear index-1 problem (their implicit solve is replaced by an axiomatic one), MPI sweepers',
                     'nonlinear right-hand sides', 'rounding error of the data path')


def tasks(tier, seed):
    T = []
    quick = tier == 'quick'
    Ms = [1, 2, 3, 4] if quick else [1, 2, 3, 4, 5, 6]
    rng = random.Random(seed)
    for kind in ['generic_implicit', 'explicit', 'imex_1st_order', 'imex_1st_order_mass', 'multi_implicit']:
        if kind == 'generic_implicit':
            qds = [('IE',), ('LU',), ('MIN-SR-S',), ('PIC',)] if quick else [(q,) for q in cm.IMPLICIT_QD]
        elif kind == 'explicit':
            qds = [('EE',), ('PIC',), ('LF',)]
        elif kind in ('imex_1st_order', 'imex_1st_order_mass'):
            qds = [('IE', 'EE'), ('LU', 'EE'), ('LU', 'PIC'), ('LU', 'LF')] if quick else [(q, e) for q in ['IE', 'LU', 'MIN-SR-S', 'MIN', 'Qpar', 'TRAP'] for e in ['EE', 'PIC', 'LF']]
        else:
            qds = [('IE', 'IE'), ('LU', 'IE'), ('LU', 'MIN-SR-S')] if quick else [(a, b) for a in ['IE', 'LU', 'MIN-SR-S', 'Qpar'] for b in ['IE', 'LU', 'MIN']]
        quads = cm.QUAD_TYPES
        nodes = ['LEGENDRE', 'EQUID'] if quick else cm.NODE_TYPES
        for M in Ms:
            for qt in quads:
                if qt in ('LOBATTO', 'RADAU-LEFT') and M < 2:
                    continue
                for nt in nodes:
                    if quick and nt == 'EQUID' and qt not in ('RADAU-RIGHT', 'LOBATTO'):
                        continue
                    for qd in qds:
                        for with_tau in (False, True):
                            if not with_tau and M > 2:
                                continue
                            cu_modes = [False, True] if qt in ('RADAU-RIGHT', 'LOBATTO') else [False]
                            for cu in cu_modes:
                                if kind == 'imex_1st_order_mass' and (cu or qt in ('GAUSS', 'RADAU-LEFT')):
                                    continue  # sweeper raises NotImplementedError for these by design
                                n = 1
                                T.append(('sdc', kind, M, nt, qt, qd, with_tau, cu, n, None))
        # vector problems (2x2 coupled matrix)
        if kind != 'multi_implicit' and kind != 'imex_1st_order_mass':
            for M in ([2, 3] if quick and kind != 'imex_1st_order' else [2] if quick else [2, 3, 4]):
                for qd in qds[:2] if quick else qds[:4]:
                    T.append(('sdc', kind, M, 'LEGENDRE', 'RADAU-RIGHT', qd, True, False, 2, None))
    # k-dependent preconditioners at every sweep index
    for qd in cm.KDEP_QD:
        for M in ([2, 3] if quick else [2, 3, 4, 5]):
            for k in ([1, 2, 3] if quick else [1, 2, 3, 4, 5, 6]):
                T.append(('sdc', 'generic_implicit', M, 'LEGENDRE', 'RADAU-RIGHT', (qd,), True, False, 1, k))
                if not quick:
                    T.append(('sdc', 'imex_1st_order', M, 'LEGENDRE', 'RADAU-RIGHT', (qd, 'EE'), True, False, 1, k))
    # Runge-Kutta classes
    import pySDC.implementations.sweeper_classes.Runge_Kutta as rk

    for name in sorted(dir(rk)):
        c = getattr(rk, name)
        if isinstance(c, type) and issubclass(c, rk.RungeKutta) and c not in (rk.RungeKutta, rk.RungeKuttaIMEX) and c.matrix is not None:
            T.append(('rk', name))
    T.append(('verlet', 2, 'LOBATTO'))
    T.append(('verlet', 3, 'LOBATTO'))
    T.append(('verlet', 3, 'RADAU-RIGHT'))
    T.append(('verlet', 3, 'LOBATTO', 'EQUID'))  # other node families (the second-order matrix is Q Q there)
    T.append(('verlet', 3, 'LOBATTO', 'CHEBY-1'))
    T.append(('verlet', 2, 'RADAU-RIGHT', 'CHEBY-2'))
    T.append(('rkn',))
    T.append(('boris', 2, 'LOBATTO'))
    T.append(('boris', 3, 'LOBATTO'))
    T.append(('boris', 3, 'RADAU-RIGHT'))
    T.append(('boris', 2, 'GAUSS'))
    if not quick:
        T.append(('verlet', 4, 'LOBATTO'))
        T.append(('verlet', 3, 'GAUSS'))
    for M in ([2, 3] if quick else [1, 2, 3, 4]):
        T.append(('diag', M, 'implicit'))
        T.append(('diag', M, 'imex'))
        if M >= 2:
            T.append(('diag', M, 'implicit', True))
            T.append(('diag', M, 'implicit', False, 0.25))  # the same sweeper applied again after the step size of its level changed
    for nm in ('AdamsBashforthExplicit1Step', 'BackwardEuler', 'AdamsMoultonImplicit1Step', 'AdamsMoultonImplicit2Step'):
        T.append(('multistep', nm))
    T.append(('tables',))
    from harness import c02_dae

    T += c02_dae.tasks(tier)
    return T


def run_task(rep, task):
    _load()
    sp.install_shadows()
    if task[0] == 'sdc':
        sdc_case(rep, *task[1:])
    elif task[0] == 'rk':
        from harness.c02_rk import rk_case

        rk_case(rep, task[1])
    elif task[0] == 'rkn':
        from harness.c02_rk import rkn_case

        rkn_case(rep)
    elif task[0] in ('verlet', 'boris'):
        from harness.c02_rk import verlet_case

        verlet_case(rep, task[1], task[2], kind=task[0], nt=(task[3] if len(task) > 3 else 'LEGENDRE'))
    elif task[0] == 'diag':
        from harness.c02_rk import diag_case

        diag_case(rep, task[1], task[2], reconf=(len(task) > 3 and bool(task[3])), dt_first=(task[4] if len(task) > 4 else None))
    elif task[0] == 'multistep':
        from harness.c02_rk import multistep_case

        multistep_case(rep, task[1])
    elif task[0] == 'tables':
        tables_case(rep)
    elif task[0] == 'dae':
        from harness import c02_dae

        c02_dae.dae_case(rep, PID, *task[1:])


# ------------------------------------------------------------------------------------------------------------


def sym_coefs(kind, n):
    coef = {}
    for name in COEF_NAMES[kind]:
        coef[name] = [[SymReal(z3.Real(f'{name}_{i}{j}')) for j in range(n)] for i in range(n)]
    return coef


def problem_for(kind, coef, mass=None):
    if kind in ('generic_implicit', 'explicit'):
        return sp.LinProb, {'A': coef['A']}
    if kind == 'imex_1st_order':
        return sp.ImexProb, {'AI': coef['AI'], 'AE': coef['AE']}
    if kind == 'imex_1st_order_mass':
        return sp.MassImexProb, {'AI': coef['AI'], 'AE': coef['AE'], 'mass': mass}
    if kind == 'multi_implicit':
        return sp.MultiProb, {'A1': coef['A1'], 'A2': coef['A2']}


def float_problem_for(kind, coefF, mass=None):
    if kind in ('generic_implicit', 'explicit'):
        return ss.FLin, {'A': coefF['A']}
    if kind == 'imex_1st_order':
        return ss.FImex, {'AI': coefF['AI'], 'AE': coefF['AE']}
    if kind == 'imex_1st_order_mass':
        return ss.FImex, {'AI': coefF['AI'], 'AE': coefF['AE'], 'mass': mass}
    if kind == 'multi_implicit':
        return ss.FMulti, {'A1': coefF['A1'], 'A2': coefF['A2']}


def sweeper_params(kind, M, nt, qt, qd, cu):
    p = {'num_nodes': M, 'node_type': nt, 'quad_type': qt, 'do_coll_update': cu}
    for key, val in zip(QD_KEYS[kind], qd):
        p[key] = val
    return p


def held_mats(sw, kind):
    mats = {'Q': np.array(sw.coll.Qmat, dtype=float)}
    for key in QD_KEYS[kind]:
        mats[key] = np.array(getattr(sw, key), dtype=float)
    return mats


def float_run(kind, M, nt, qt, qd, with_tau, cu, n, ksweep, env):
    """the same real sweeper on the real float mesh; env gives all inputs.  returns dict of float results"""
    coefF = {name: np.array([[env[f'{name}_{i}{j}'] for j in range(n)] for i in range(n)]) for name in COEF_NAMES[kind]}
    mass = [env['mass_0']] if kind == 'imex_1st_order_mass' else None
    pc, pp = float_problem_for(kind, coefF, mass)
    L = cm.make_level(pc, pp, SWEEPERS[kind], sweeper_params(kind, M, nt, qt, qd, cu), env['dt'])
    P = L.prob
    L.u[0] = P.dtype_u(P.init)
    L.u[0][:] = [env[f'u0_{i}'] for i in range(n)]
    L.f[0] = P.eval_f(L.u[0], 0.0)
    for m in range(1, M + 1):
        L.u[m] = P.dtype_u(P.init)
        L.u[m][:] = [env[f'U{m}_{i}'] for i in range(n)]
        L.f[m] = P.eval_f(L.u[m], 0.0)
    tau = []
    for m in range(M):
        if with_tau:
            L.tau[m] = P.dtype_u(P.init)
            L.tau[m][:] = [env[f'tau{m}_{i}'] for i in range(n)]
            tau.append([env[f'tau{m}_{i}'] for i in range(n)])
        else:
            tau.append([0.0] * n)
    if ksweep is not None:
        L.sweep.updateVariableCoeffs(ksweep)
    mats = held_mats(L.sweep, kind)
    u0 = [env[f'u0_{i}'] for i in range(n)]
    Uold = [[env[f'U{m}_{i}'] for i in range(n)] for m in range(1, M + 1)]
    L.sweep.update_nodes()
    Unew = np.array([[float(L.u[m][i]) for i in range(n)] for m in range(1, M + 1)])
    integ = np.array([[float(x[i]) for i in range(n)] for x in L.sweep.integrate()])
    L.sweep.compute_end_point()
    uend = np.array([float(L.uend[i]) for i in range(n)])
    # independent numpy evaluation of the specification
    spec_U = ss.numpy_spec_update(kind, mats, coefF, env['dt'], u0, Uold, tau, mass)
    Ftot = sum(coefF.values())
    spec_int = env['dt'] * np.einsum('mj,jn->mn', mats['Q'][1:, 1:], (Ftot @ Unew.T).T)
    copy_mode = L.sweep.coll.right_is_node and not L.sweep.params.do_coll_update
    if copy_mode:
        spec_end = Unew[-1]
    else:
        spec_end = np.array(u0) + env['dt'] * (L.sweep.coll.weights @ (Ftot @ Unew.T).T) + (np.array(tau[-1]) if with_tau else 0.0)
    return dict(Unew=Unew, integ=integ, uend=uend, spec_U=spec_U, spec_int=spec_int, spec_end=spec_end)


def sdc_case(rep, kind, M, nt, qt, qd, with_tau, cu, n, ksweep):
    name = f'{kind}/M{M}/{nt}/{qt}/{"+".join(qd)}/tau{int(with_tau)}/cu{int(cu)}/n{n}' + (f'/k{ksweep}' if ksweep else '')
    coef = sym_coefs(kind, n)
    mass = [SymReal(z3.Real('mass_0'))] if kind == 'imex_1st_order_mass' else None
    dtv = z3.Real('dt')
    out = {}

    def fn(c):
        c.add(dtv > 0)
        if mass is not None:
            c.add(mass[0].t > 0)
        sp.DENOMS.clear()
        sp.AXIOMS.clear()
        sp.SOLVE['mode'] = 'axiom' if n >= 2 else 'closed'
        pc, pp = problem_for(kind, coef, mass)
        L = cm.make_level(pc, pp, SWEEPERS[kind], sweeper_params(kind, M, nt, qt, qd, cu), SymReal(dtv))
        V = cm.fill_level(L, with_tau, n)
        if ksweep is not None:
            L.sweep.updateVariableCoeffs(ksweep)
        mats = held_mats(L.sweep, kind)
        L.sweep.update_nodes()
        Unew = [sp.terms(L.u[m]) for m in range(1, M + 1)]
        integ = [sp.terms(x) for x in L.sweep.integrate()]
        L.sweep.compute_end_point()
        uend = sp.terms(L.uend)
        copy_mode = L.sweep.coll.right_is_node and not L.sweep.params.do_coll_update
        sp.SOLVE['mode'] = 'closed'
        return dict(V=V, mats=mats, Unew=Unew, integ=integ, uend=uend, den=list(sp.DENOMS), copy=copy_mode, axioms=list(sp.AXIOMS),
                    weights=np.array(L.sweep.coll.weights, dtype=float))

    try:
        Lpre = cm.make_level(ss.FLin, {'A': [[-1.0]]}, SWEEPERS['generic_implicit'] if kind == 'multi_implicit' else SWEEPERS[kind],
                             {**sweeper_params(kind, M, nt, qt, qd, cu), **({'QI': qd[0]} if kind == 'multi_implicit' else {})}, 0.1)
        if ksweep is not None:
            Lpre.sweep.updateVariableCoeffs(ksweep)
        if any(np.isnan(np.asarray(getattr(Lpre.sweep, key), dtype=float)).any() for key in ('QI', 'QE') if hasattr(Lpre.sweep, key)):
            rep.extra['nan_tables_skipped'] = rep.extra.get('nan_tables_skipped', 0) + 1  # e.g. LDU with a left end node (division by a zero pivot inside qmat)
            return
    except Exception as e:
        if 'coefficients' in str(e) or 'nNodes' in str(e):
            rep.extra['not_constructible'] = rep.extra.get('not_constructible', 0) + 1
            return
        raise
    paths = explore(fn)
    rep.paths += len(paths)
    for p in paths:
        rep.decisions += len(p.decisions)
        r = p.result
        V, mats = r['V'], r['mats']
        if any(np.isnan(v).any() for v in mats.values()):
            rep.extra['nan_tables_skipped'] = rep.extra.get('nan_tables_skipped', 0) + 1
            return
        zc = {k: [[x for x in row] for row in v] for k, v in coef.items()}
        assumptions = list(p.assume) + list(p.pc) + [d != 0 for d in r['den']] + r['axioms']
        eqs = ss.spec_update(kind, mats, zc, dtv, V['u0'], V['U'], r['Unew'], V['tau'], mass)
        spec_int = ss.spec_integrate(kind, mats['Q'], zc, dtv, r['Unew'])
        spec_end = ss.spec_endpoint(kind, r['weights'], zc, dtv, V['u0'], r['Unew'], V['tau'][-1] if with_tau else None, r['copy'])
        goals = {
            'update_nodes': z3.And(eqs),
            'integrate': z3.And([a == b for A_, B_ in zip(r['integ'], spec_int) for a, b in zip(A_, B_)]),
            'end_point': z3.And([a == b for a, b in zip(r['uend'], spec_end)]),
        }
        allv = cm.all_vars(V) + [dtv] + [x.t for v in coef.values() for row in v for x in row] + ([mass[0].t] if mass else [])
        for clause, goal in goals.items():
            res, model = prove(goal, assumptions, timeout_ms=120000, name=f'{name}:{clause}')
            rep.ob(f'{name}:{clause}', res)
            if res == 'sat':
                env = cm.model_env(model, allv)
                triage(rep, kind, M, nt, qt, qd, with_tau, cu, n, ksweep, clause, env, name)
        # vacuity: the assumptions are satisfiable; sensitivity: a wrong specification is refuted
        if M >= 2 and n == 1 and (with_tau or M == 2):
            res, _ = satisfiable(assumptions, name=f'{name}:assumptions', kind='vacuity')
            rep.vac(f'{name}:assumptions-sat', res, 'sat')
            tau_bad = list(V['tau'])
            if with_tau:
                tau_bad[-1] = V['tau'][-2]
                bad = ss.spec_update(kind, mats, zc, dtv, V['u0'], V['U'], r['Unew'], tau_bad, mass)
            else:
                m2 = {k: v.copy() for k, v in mats.items()}
                m2['Q'][M, 1] += 1e-9
                bad = ss.spec_update(kind, m2, zc, dtv, V['u0'], V['U'], r['Unew'], V['tau'], mass)
            res, _ = prove(z3.And(bad), assumptions, timeout_ms=60000, name=f'{name}:mutated-spec', kind='vacuity')
            rep.vac(f'{name}:mutated-spec-refuted', res, 'sat')
        # translator validation: same real code on floats vs. evaluation of the terms
        if (len(paths) == 1 or p is paths[0]) and not r['axioms']:
            rng = random.Random(hash(name) % 100000 + rep.seed)
            for _ in range(2 if rep.tier == 'quick' else 3):
                env = cm.random_env(allv, rng)
                env['dt'] = rng.uniform(0.05, 0.5)
                if mass:
                    env['mass_0'] = rng.uniform(0.5, 2.0)
                try:
                    fr = float_run(kind, M, nt, qt, qd, with_tau, cu, n, ksweep, env)
                    got = [evalf(t, env) for row in r['Unew'] for t in row]
                except Exception as e:  # singular sample etc.
                    continue
                ok = all(cm.rel_close(a, b, 1e-7) for a, b in zip(got, fr['Unew'].ravel()))
                rep.translator += 1
                if not ok:
                    rep.error(f'translator validation failed for {name}: terms {got} vs float run {fr["Unew"].ravel().tolist()}')
    if len(rep.samples) < 3:
        rep.sample({'case': name, 'free_variables': 'u0, U_1..U_M, tau_1..tau_M, dt, ' + ', '.join(COEF_NAMES[kind]),
                    'paths': len(paths)})


def triage(rep, kind, M, nt, qt, qd, with_tau, cu, n, ksweep, clause, env, name):
    """replay a solver model on the real float code; only a reproduced discrepancy is a violation"""
    rep.replayed += 1
    try:
        fr = float_run(kind, M, nt, qt, qd, with_tau, cu, n, ksweep, env)
    except Exception as e:
        rep.unreproduced(name + ':' + clause, f'float replay raised {type(e).__name__}: {e}')
        return
    pairs = {'update_nodes': ('Unew', 'spec_U'), 'integrate': ('integ', 'spec_int'), 'end_point': ('uend', 'spec_end')}[clause]
    a, b = np.asarray(fr[pairs[0]]).ravel(), np.asarray(fr[pairs[1]]).ravel()
    scale = 1.0 + max(np.max(np.abs(a)), np.max(np.abs(b)))
    if np.max(np.abs(a - b)) > 1e-8 * scale:
        rep.violation(f'{PID}/{kind}/{clause}', f'{name}: real float sweeper deviates from the algebraic iteration by {np.max(np.abs(a - b)):.3e}',
                      {'task': ['sdc', kind, M, nt, qt, list(qd), with_tau, cu, n, ksweep], 'clause': clause, 'env': env,
                       'observed': a.tolist(), 'expected': b.tolist()})
    else:
        # try a few scaled variants of the model (the solver may pick values where the defect is tiny)
        rep.unreproduced(name + ':' + clause, {'env': env, 'observed': a.tolist(), 'expected': b.tolist()})


def tables_case(rep):
    """concrete side conditions on the preconditioner tables the specs are stated against"""
    from qmat.qdelta import QDELTA_GENERATORS
    from pySDC.core.collocation import CollBase

    gi = SWEEPERS['generic_implicit']
    im = SWEEPERS['imex_1st_order']
    for M in (1, 2, 3, 4, 5):
        for qt in cm.QUAD_TYPES:
            if qt in ('LOBATTO', 'RADAU-LEFT') and M < 2:
                continue
            for qd in cm.IMPLICIT_QD + cm.KDEP_QD:
                for k in ([None] if qd not in cm.KDEP_QD else [1, 2, 3]):
                    try:
                        L = cm.make_level(ss.FLin, {'A': [[-1.0]]}, gi, {'num_nodes': M, 'quad_type': qt, 'QI': qd}, 0.1)
                    except Exception as e:  # qmat has no tabulated coefficients for this node set: nothing to check
                        rep.extra['not_constructible'] = rep.extra.get('not_constructible', 0) + 1
                        continue
                    sw = L.sweep
                    if k is not None:
                        sw.updateVariableCoeffs(k)
                    coll = CollBase(M, 0, 1, node_type='LEGENDRE', quad_type=qt)
                    gen = QDELTA_GENERATORS[qd](qGen=coll.generator, tLeft=0)
                    ref = gen.genCoeffs(k=k) if k is not None else gen.genCoeffs()
                    ok = (np.all(sw.QI[0, :] == 0) and np.all(sw.QI[:, 0] == 0) and np.array_equal(sw.QI[1:, 1:], ref, equal_nan=True)
                          and np.all(np.triu(sw.QI, 1) == 0) and sw.QI.shape == (M + 1, M + 1))
                    rep.side(f'tables/QI/{qd}/M{M}/{qt}/k{k}', ok, {'QI': sw.QI.tolist(), 'ref': np.asarray(ref).tolist()})
            for qe in cm.EXPLICIT_QD:
                L = cm.make_level(ss.FImex, {'AI': [[-1.0]], 'AE': [[0.5]]}, im, {'num_nodes': M, 'quad_type': qt, 'QI': 'IE', 'QE': qe}, 0.1)
                sw = L.sweep
                coll = CollBase(M, 0, 1, node_type='LEGENDRE', quad_type=qt)
                gen = QDELTA_GENERATORS[qe](qGen=coll.generator, tLeft=0)
                ref, dtau = gen.genCoeffs(dTau=True)
                ok = (np.all(sw.QE[0, :] == 0) and np.array_equal(sw.QE[1:, 1:], ref) and np.array_equal(sw.QE[1:, 0], np.broadcast_to(dtau, (M,)))
                      and np.all(np.triu(sw.QE, 0) == 0))
                rep.side(f'tables/QE/{qe}/M{M}/{qt}', ok, {'QE': sw.QE.tolist()})
    # the table for a name does not depend on which names the same sweeper instance was asked for before (all ordered pairs of names)
    mi = SWEEPERS['multi_implicit']
    for M, qt in ((3, 'RADAU-RIGHT'), (2, 'LOBATTO')):
        coll = CollBase(M, 0, 1, node_type='LEGENDRE', quad_type=qt)

        def fresh(name, explicit=False):
            gen = QDELTA_GENERATORS[name](qGen=coll.generator, tLeft=0)
            return np.asarray(gen.genCoeffs())

        names = []
        for qd in cm.IMPLICIT_QD:
            try:
                fresh(qd)
                names.append(qd)
            except Exception:
                pass
        for A in names:
            for B_ in names:
                try:
                    L = cm.make_level(ss.FLin, {'A': [[-1.0]]}, gi, {'num_nodes': M, 'quad_type': qt, 'QI': A}, 0.1)
                    second = L.sweep.get_Qdelta_implicit(B_)
                    ok = np.array_equal(second[1:, 1:], fresh(B_), equal_nan=True) and np.array_equal(L.sweep.QI[1:, 1:], fresh(A), equal_nan=True)
                    rep.side(f'tables/history/{A}-then-{B_}/M{M}/{qt}', ok, {'second': np.asarray(second).tolist(), 'ref': fresh(B_).tolist()})
                    L = cm.make_level(ss.FMulti, {'A1': [[-1.0]], 'A2': [[0.5]]}, mi, {'num_nodes': M, 'quad_type': qt, 'Q1': A, 'Q2': B_}, 0.1)
                    ok = np.array_equal(L.sweep.Q1[1:, 1:], fresh(A), equal_nan=True) and np.array_equal(L.sweep.Q2[1:, 1:], fresh(B_), equal_nan=True)
                    rep.side(f'tables/multi_implicit/Q1={A}/Q2={B_}/M{M}/{qt}', ok, {'Q1': L.sweep.Q1.tolist(), 'Q2': L.sweep.Q2.tolist()})
                except Exception as e:
                    rep.side(f'tables/history/{A}-then-{B_}/M{M}/{qt}', False, f'{type(e).__name__}: {e}')
        # a sweeper re-initialised in place with another node set (what AdaptiveCollocation.switch_sweeper does): every table it holds afterwards belongs
        # to the NEW nodes -- same node count with another quadrature / node type, and another node count
        for (M2, qt2, nt2) in ((M, 'RADAU-LEFT' if qt == 'LOBATTO' else 'LOBATTO', 'LEGENDRE'), (M, qt, 'EQUID'), (M, 'GAUSS', 'LEGENDRE'), (M + 1, qt, 'LEGENDRE'), (M - 1 if M > 2 else M + 2, 'RADAU-RIGHT', 'LEGENDRE')):
            coll2 = CollBase(M2, 0, 1, node_type=nt2, quad_type=qt2)
            for A in names:
                try:
                    ref = np.asarray(QDELTA_GENERATORS[A](qGen=coll2.generator, tLeft=0).genCoeffs())
                except Exception:
                    continue
                L = cm.make_level(ss.FLin, {'A': [[-1.0]]}, gi, {'num_nodes': M, 'quad_type': qt, 'QI': A}, 0.1)
                L.sweep.__init__({'num_nodes': M2, 'quad_type': qt2, 'node_type': nt2, 'QI': A}, L)
                ok = np.array_equal(L.sweep.QI[1:, 1:], ref, equal_nan=True) and np.array_equal(L.sweep.coll.Qmat, coll2.Qmat) and np.array_equal(L.sweep.get_Qdelta_implicit(A)[1:, 1:], ref, equal_nan=True)
                rep.side(f'tables/reinit/{A}/M{M}/{qt}->M{M2}/{qt2}/{nt2}', ok, {'QI': np.asarray(L.sweep.QI).tolist(), 'ref': ref.tolist()})
            for A in cm.EXPLICIT_QD:
                ref = np.asarray(QDELTA_GENERATORS[A](qGen=coll2.generator, tLeft=0).genCoeffs())
                refI = np.asarray(QDELTA_GENERATORS['IE'](qGen=coll2.generator, tLeft=0).genCoeffs())
                L = cm.make_level(ss.FImex, {'AI': [[-1.0]], 'AE': [[0.5]]}, im, {'num_nodes': M, 'quad_type': qt, 'QI': 'IE', 'QE': A}, 0.1)
                L.sweep.__init__({'num_nodes': M2, 'quad_type': qt2, 'node_type': nt2, 'QI': 'IE', 'QE': A}, L)
                ok = np.array_equal(L.sweep.QE[1:, 1:], ref) and np.array_equal(L.sweep.QI[1:, 1:], refI)
                rep.side(f'tables/reinit-explicit/{A}/M{M}/{qt}->M{M2}/{qt2}/{nt2}', ok, {'QE': np.asarray(L.sweep.QE).tolist(), 'ref': ref.tolist()})
        for A in cm.EXPLICIT_QD:
            for B_ in cm.EXPLICIT_QD:
                L = cm.make_level(ss.FImex, {'AI': [[-1.0]], 'AE': [[0.5]]}, im, {'num_nodes': M, 'quad_type': qt, 'QI': 'IE', 'QE': A}, 0.1)
                second = L.sweep.get_Qdelta_explicit(B_)
                rep.side(f'tables/history-explicit/{A}-then-{B_}/M{M}/{qt}', np.array_equal(second[1:, 1:], fresh(B_)), {'second': np.asarray(second).tolist()})


def replay(path):
    import json

    _load()
    d = json.load(open(path))
    r = d['replay']
    t = r['task']
    if t[0] == 'dae':
        from harness import c02_dae

        dev = c02_dae.float_dev(t[1], t[2], t[3], t[4], 0.25, r['vals'])
        print('deviation of the real float sweeper from the algebraic iteration:', dev)
        print('REPRODUCED' if dev > 1e-9 else 'not reproduced')
        return 1 if dev > 1e-9 else 0
    if t[0] != 'sdc':
        # re-execute the whole case (symbolic run, solver, float replay) and report whether it still ends in a violation
        from symx.report import Report

        rep = Report(PID)
        run_task(rep, tuple(tuple(x) if isinstance(x, list) else x for x in t))
        bad = [v for v in rep.violations]
        for v in bad[:4]:
            print('violation:', str(v)[:300])
        print('REPRODUCED' if bad else 'not reproduced')
        return 1 if bad else 0
    fr = float_run(t[1], t[2], t[3], t[4], tuple(t[5]), t[6], t[7], t[8], t[9], r['env'])
    pairs = {'update_nodes': ('Unew', 'spec_U'), 'integrate': ('integ', 'spec_int'), 'end_point': ('uend', 'spec_end')}[r['clause']]
    a, b = np.asarray(fr[pairs[0]]).ravel(), np.asarray(fr[pairs[1]]).ravel()
    dev = float(np.max(np.abs(a - b)))
    print('observed', a.tolist(), 'expected', b.tolist(), 'deviation', dev)
    bad = dev > 1e-8 * (1.0 + max(np.max(np.abs(a)), np.max(np.abs(b))))
    print('REPRODUCED' if bad else 'not reproduced')
    return 1 if bad else 0
